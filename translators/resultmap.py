#!/usr/bin/env python3
"""Regenerates coq/Gen/ResultMap.v from /repo:
  * src/runtime/runtime.cpp  - every `switch (res) { case result::X: m_state = state::Y; ... }` block of
    runtime::execute, keyed by the `case action::A:` it sits in (the result -> state tables of the executing actions)
  * src/export/sqfvm.cpp     - the named int32 constants of sqfvm_call / sqfvm_load_config, the type characters
    sqfvm_call switches over, which constant each failure path returns, and the `switch (result)` blocks that map
    runtime::result to a constant (and for which results execute(abort) is issued first)
  * src/export/sqfvm.h       - the documented return codes (comment block above each function)
  * src/runtime/runtime.h    - the numeric values of enum result / enum state (sqfvm_status returns the state number)
Consumed by API/CtlProofs.v (state_of_result_uniform) and API/ApiProofs.v (code_table_documented, api tables)."""
import os, re, sys
REPO = os.environ.get("VERIF_REPO", "/repo")
HERE = os.path.dirname(os.path.dirname(os.path.abspath(__file__)))
RESULTS = ["invalid", "empty", "ok", "action_error", "runtime_error"]


class Unrecognised(RuntimeError):
    pass


def balanced(s, i):
    """s[i] == '{' -> index just behind the matching '}' (comments and literals are not expected to hold braces here)"""
    assert s[i] == "{"
    d = 0
    for k in range(i, len(s)):
        if s[k] == "{":
            d += 1
        elif s[k] == "}":
            d -= 1
            if d == 0:
                return k + 1
    raise Unrecognised("unbalanced braces")


def strip_sqc(s):
    """remove `#ifdef SQF_SQC_SUPPORT ... #endif` regions (not compiled: the macro is defined nowhere in the build)"""
    out, i = [], 0
    for m in re.finditer(r"#ifdef SQF_SQC_SUPPORT.*?#endif", s, re.S):
        out.append(s[i:m.start()])
        i = m.end()
    out.append(s[i:])
    return "".join(out)


def strip_comments(s):
    s = re.sub(r"//[^\n]*", "", s)
    return re.sub(r"/\*.*?\*/", "", s, flags=re.S)


def parse_state_switch(block):
    """-> dict result -> state (results without a case are absent; 'default' recorded when it assigns)"""
    table, pending = {}, []
    for m in re.finditer(r"case\s+(?:\w+::)*result::(\w+)\s*:|default\s*:|m_state\s*=\s*(?:\w+::)*state::(\w+)\s*;|break\s*;", block):
        t = m.group(0)
        if t.startswith("case"):
            pending.append(m.group(1))
        elif t.startswith("default"):
            pending.append("default")
        elif t.startswith("m_state"):
            for p in pending:
                table[p] = m.group(2)
        else:
            pending = []
    return table


def runtime_tables(src, *extra):
    src = strip_comments(src)
    i = src.find("sqf::runtime::runtime::execute(sqf::runtime::runtime::action action)")
    if i < 0:
        raise Unrecognised("runtime.cpp: runtime::execute not found")
    j = src.find("{", i)
    body = src[j:balanced(src, j)]
    cases = list(re.finditer(r"case\s+action::(\w+)\s*:", body))
    if len(cases) < 6:
        raise Unrecognised("runtime.cpp: fewer than 6 `case action::` labels in execute")
    out = []
    for k, c in enumerate(cases):
        seg = body[c.end():cases[k + 1].start() if k + 1 < len(cases) else len(body)]
        for sw in re.finditer(r"switch\s*\(\s*res\s*\)\s*\{", seg):
            b = seg[sw.end() - 1:balanced(seg, sw.end() - 1)]
            t = parse_state_switch(b)
            if t:     # the inner switch of the scheduler loop assigns no state: not a result -> state table
                out.append((c.group(1), t))
        # the table may live in a helper the action calls with the result (`apply_result_to_state(res);`): the helper's own
        # switch over its parameter is then this action's table
        for call in re.finditer(r"\b(\w+)\s*\(\s*res\s*\)\s*;", seg):
            for hsrc in (src,) + tuple(strip_comments(x) for x in extra):
                d = re.search(r"\b%s\s*\(\s*(?:const\s+)?(?:\w+::)*result\s*(?:&\s*)?(\w+)\s*\)\s*(?:const\s*)?(?:noexcept\s*)?\{" % re.escape(call.group(1)), hsrc)
                if not d:
                    continue
                hb = hsrc[d.end() - 1:balanced(hsrc, d.end() - 1)]
                for sw in re.finditer(r"switch\s*\(\s*%s\s*\)\s*\{" % re.escape(d.group(1)), hb):
                    t = parse_state_switch(hb[sw.end() - 1:balanced(hb, sw.end() - 1)])
                    if t:
                        out.append((c.group(1), t))
                break
    if len(out) < 4:
        raise Unrecognised("runtime.cpp: result->state switch blocks not recognised (%d found)" % len(out))
    return out


def enum_values(src, name):
    m = re.search(r"enum\s+class\s+%s\s*\{(.*?)\}" % name, strip_comments(src), re.S)
    if not m:
        raise Unrecognised("runtime.h: enum %s not found" % name)
    vals, nxt = [], 0
    for item in m.group(1).split(","):
        item = item.strip()
        if not item:
            continue
        mm = re.match(r"(\w+)\s*(?:=\s*(-?\d+))?$", item)
        if not mm:
            raise Unrecognised("runtime.h: enumerator %r" % item)
        if mm.group(2) is not None:
            nxt = int(mm.group(2))
        vals.append((mm.group(1), nxt))
        nxt += 1
    return vals


def function_body(src, name):
    m = re.search(r"SQFVM_EXPORT\s+[\w\*]+\s+%s\s*\([^)]*\)\s*\{" % name, src)
    if not m:
        raise Unrecognised("sqfvm.cpp: %s not found" % name)
    return src[m.end() - 1:balanced(src, m.end() - 1)]


def consts_of(body):
    return [(a, int(b)) for a, b in re.findall(r"const\s+int32_t\s+(\w+)\s*=\s*(-?\d+)\s*;", body)]


def parse_result_switch(block):
    """-> (dict result -> constant name, list of results for which execute(abort) is issued)"""
    table, aborts, pending = {}, [], []
    for m in re.finditer(r"case\s+(?:\w+::)*result::(\w+)\s*:|default\s*:|execute\(\s*(?:\w+::)*action::abort\s*\)|return\s+(\w+)\s*;|break\s*;", block):
        t = m.group(0)
        if t.startswith("case"):
            pending.append(m.group(1))
        elif t.startswith("default"):
            pending.append("default")
        elif t.startswith("execute"):
            aborts += [p for p in pending if p not in aborts]
        elif t.startswith("return"):
            for p in pending:
                table[p] = m.group(2)
            pending = []
        else:
            pending = []
    return table, aborts


def api_tables(src):
    src = strip_comments(strip_sqc(src))
    call = function_body(src, "sqfvm_call")
    cconsts = consts_of(call)
    if not cconsts:
        raise Unrecognised("sqfvm.cpp: no int32 constants in sqfvm_call")
    # the type switch
    m = re.search(r"switch\s*\(\s*type\s*\)\s*\{", call)
    if not m:
        raise Unrecognised("sqfvm.cpp: switch (type) not found")
    tsw = call[m.end() - 1:balanced(call, m.end() - 1)]
    before = call[:m.start()]
    labels = list(re.finditer(r"case\s+'(.)'\s*:|default\s*:", tsw))
    # labels of nested switches (case result::..) are not matched by this pattern; nested `default:` are: keep depth-1 ones
    def depth_at(pos):
        return tsw.count("{", 0, pos) - tsw.count("}", 0, pos)
    labels = [l for l in labels if depth_at(l.start()) == 1]
    types = []
    for k, l in enumerate(labels):
        seg = tsw[l.end():labels[k + 1].start() if k + 1 < len(labels) else len(tsw)]
        ch = l.group(1) if l.group(0).startswith("case") else "default"
        entry = {"char": ch, "parse_fail": "", "table": {}, "aborts": [], "plain_return": "", "executes": False, "emits_result": False}
        pf = re.search(r"if\s*\(\s*!\s*set\.has_value\(\)\s*\)\s*\{\s*return\s+(\w+)\s*;", seg)
        if pf:
            entry["parse_fail"] = pf.group(1)
        sw = re.search(r"switch\s*\(\s*result\s*\)\s*\{", seg)
        if sw:
            b = seg[sw.end() - 1:balanced(seg, sw.end() - 1)]
            entry["table"], entry["aborts"] = parse_result_switch(b)
            entry["executes"] = bool(re.search(r"execute\(\s*(?:\w+::)*action::start\s*\)", seg))
            if not entry["executes"]:
                raise Unrecognised("sqfvm.cpp: type %r maps a result but does not execute(start)" % ch)
        else:
            pr = re.findall(r"return\s+(\w+)\s*;", seg)
            pr = [x for x in pr if x != entry["parse_fail"]]
            if len(set(pr)) != 1:
                raise Unrecognised("sqfvm.cpp: type %r: cannot tell its return value" % ch)
            entry["plain_return"] = pr[0]
            entry["emits_result"] = bool(re.search(r"callback\([^;]*,\s*-1\s*,", seg))
        types.append(entry)
    ppf = re.search(r"if\s*\(\s*!\s*ppedStr\.has_value\(\)\s*\)\s*\{(.*?)\}", before, re.S)
    if not ppf:
        raise Unrecognised("sqfvm.cpp: preprocessing-failure branch of sqfvm_call not found")
    ppret = re.search(r"return\s+(\w+)\s*;", ppf.group(1))
    pp_derefs = bool(re.search(r"ppedStr\s*->", ppf.group(1)))     # dereference of the empty optional
    busy = re.search(r"runtime_state\(\)\s*!=\s*(?:\w+::)*state::empty\s*\)\s*\{\s*return\s+(\w+)\s*;", before)
    inv = re.search(r"else\s*\{\s*return\s+(\w+)\s*;\s*\}\s*\}\s*$", call.strip())
    if not (ppret and busy and inv):
        raise Unrecognised("sqfvm.cpp: return paths of sqfvm_call not recognised")
    sets_call_data = bool(re.search(r"logger\s*->\s*call_data\s*=\s*call_data\s*;", before))
    # load_config
    lc = function_body(src, "sqfvm_load_config")
    lconsts = consts_of(lc)
    lpp = re.search(r"if\s*\(\s*!\s*ppedStr\.has_value\(\)\s*\)\s*\{(.*?)\}", lc, re.S)
    lret = re.search(r"return\s+success\s*\?\s*(\w+)\s*:\s*(\w+)\s*;", lc)
    linv = re.search(r"else\s*\{\s*return\s+(\w+)\s*;\s*\}\s*\}\s*$", lc.strip())
    if not (lconsts and lpp and lret and linv):
        raise Unrecognised("sqfvm.cpp: sqfvm_load_config not recognised")
    lppret = re.search(r"return\s+(\w+)\s*;", lpp.group(1))
    st = function_body(src, "sqfvm_status")
    stinv = re.search(r"else\s*\{\s*return\s+(-?\d+)\s*;", st)
    if not (stinv and re.search(r"static_cast<int32_t>\(\s*ref\.runtime->runtime_state\(\)\s*\)", st)):
        raise Unrecognised("sqfvm.cpp: sqfvm_status not recognised")
    return {"call_consts": cconsts, "types": types, "pp_fail": ppret.group(1), "pp_fail_derefs": pp_derefs, "busy": busy.group(1),
            "invalid": inv.group(1), "sets_call_data": sets_call_data,
            "load_consts": lconsts, "load_pp_fail": lppret.group(1), "load_pp_fail_derefs": bool(re.search(r"ppedStr\s*->", lpp.group(1))),
            "load_ok": lret.group(1), "load_parse_fail": lret.group(2), "load_invalid": linv.group(1),
            "load_resets_call_data": bool(re.search(r"logger\s*->\s*call_data\s*=\s*(NULL|nullptr|0)\s*;", lc)
                                          # or a scope object over the slot that clears it on entry (and restores the outer call's on exit)
                                          or (re.search(r"\(\s*ref\.logger\s*->\s*call_data\s*\)\s*;", lc) and re.search(r"\bslot\s*=\s*(NULL|nullptr|0)\s*;", lc))),
            "status_invalid": int(stinv.group(1))}


PHRASES = [("successful", "result_ok"), ("instance was null", "instance_invalid"), ("preprocessing failed", "preprocessing_failed"),
           ("parsing failed", "parsing_failed"), ("already running", "instance_running"), ("type was invalid", "invalid_type"),
           ("did not succeed", "result_failed")]


def documented(hdr, fn):
    """the `//  <n> if ...` lines of the comment block directly above the declaration of fn"""
    m = re.search(r"((?:[ \t]*//[^\n]*\n)+)[ \t]*SQFVM_EXPORT\s+int32_t\s+%s\s*\(" % fn, hdr)
    if not m:
        raise Unrecognised("sqfvm.h: comment block of %s not found" % fn)
    out = []
    for n, text in re.findall(r"//\s*(?:@return\s+)?([+-]?\d+)\s+(?:if\s+)?([^\n]*)", m.group(1)):
        key = ""
        for ph, k in PHRASES:
            if ph in text:
                key = k
        out.append((int(n), key, text.strip()))
    if not out:
        raise Unrecognised("sqfvm.h: no documented codes for %s" % fn)
    return out


def cs(s):
    return '"' + s.replace('"', '""') + '"'


def clist(items):
    return "[" + "; ".join(items) + "]"


def generate():
    rc = open(os.path.join(REPO, "src/runtime/runtime.cpp")).read()
    rh = open(os.path.join(REPO, "src/runtime/runtime.h")).read()
    sc = open(os.path.join(REPO, "src/export/sqfvm.cpp")).read()
    sh = open(os.path.join(REPO, "src/export/sqfvm.h")).read()
    blocks = runtime_tables(rc, rh)
    res_enum, st_enum = enum_values(rh, "result"), enum_values(rh, "state")
    api = api_tables(sc)
    doc_call, doc_load, doc_status = documented(sh, "sqfvm_call"), documented(sh, "sqfvm_load_config"), documented(sh, "sqfvm_status")
    o = ["(* GENERATED by translators/resultmap.py from src/runtime/runtime.cpp, runtime.h, src/export/sqfvm.cpp, sqfvm.h - do not edit *)",
         "From Coq Require Import ZArith List String.", "Import ListNotations.", "Local Open Scope string_scope.", "Local Open Scope Z_scope.", "",
         "(* enum class result / enum class state with their numeric values (runtime.h) *)",
         "Definition result_enum : list (string * Z) := %s." % clist("(%s, %d)" % (cs(n), v) for n, v in res_enum),
         "Definition state_enum : list (string * Z) := %s." % clist("(%s, %d)" % (cs(n), v) for n, v in st_enum), "",
         "(* every `switch (res)` of runtime::execute that assigns m_state: (action, [(result, state)]) in source order of the actions;",
         "   the pairs are listed in the order invalid, empty, ok, action_error, runtime_error (then default if it assigns) *)",
         "Definition state_switches : list (string * list (string * string)) := ["]
    rows = []
    for act, t in blocks:
        pairs = [(r, t[r]) for r in RESULTS if r in t] + ([("default", t["default"])] if "default" in t else [])
        extra = [r for r in t if r not in RESULTS and r != "default"]
        if extra:
            raise Unrecognised("runtime.cpp: unknown result enumerator(s) %s in a switch" % extra)
        rows.append("  (%s, %s)" % (cs(act), clist("(%s, %s)" % (cs(a), cs(b)) for a, b in pairs)))
    o.append(";\n".join(rows))
    o.append("].")
    o += ["", "(* sqfvm_call (sqfvm.cpp): named constants *)",
          "Definition call_consts : list (string * Z) := %s." % clist("(%s, %d)" % (cs(n), v) for n, v in api["call_consts"]),
          "Definition call_invalid_handle : string := %s." % cs(api["invalid"]),
          "Definition call_busy : string := %s." % cs(api["busy"]),
          "Definition call_pp_fail : string := %s." % cs(api["pp_fail"]),
          "(* does the preprocessing-failure branch dereference the (empty) optional? *)",
          "Definition call_pp_fail_derefs : bool := %s." % str(api["pp_fail_derefs"]).lower(),
          "Definition call_sets_call_data : bool := %s." % str(api["sets_call_data"]).lower(),
          "(* per type character (in source order; \"default\" = any other character):",
          "   (char, (constant on parse failure or \"\", executes start?, [(result, constant)] with \"default\" last, results after which abort is issued,",
          "    constant returned when nothing is executed or \"\", hands the text to the callback with severity -1?)) *)",
          "Definition call_types : list (string * (string * bool * list (string * string) * list string * string * bool)) := ["]
    rows = []
    for e in api["types"]:
        t = e["table"]
        pairs = [(r, t[r]) for r in RESULTS if r in t] + ([("default", t["default"])] if "default" in t else [])
        rows.append("  (%s, (%s, %s, %s, %s, %s, %s))" % (cs(e["char"]), cs(e["parse_fail"]), str(e["executes"]).lower(),
                    clist("(%s, %s)" % (cs(a), cs(b)) for a, b in pairs), clist(cs(a) for a in e["aborts"]), cs(e["plain_return"]),
                    str(e["emits_result"]).lower()))
    o.append(";\n".join(rows))
    o.append("].")
    o += ["", "(* sqfvm_load_config *)",
          "Definition load_consts : list (string * Z) := %s." % clist("(%s, %d)" % (cs(n), v) for n, v in api["load_consts"]),
          "Definition load_invalid_handle : string := %s." % cs(api["load_invalid"]),
          "Definition load_pp_fail : string := %s." % cs(api["load_pp_fail"]),
          "Definition load_pp_fail_derefs : bool := %s." % str(api["load_pp_fail_derefs"]).lower(),
          "Definition load_parse_fail : string := %s." % cs(api["load_parse_fail"]),
          "Definition load_ok : string := %s." % cs(api["load_ok"]),
          "Definition load_resets_call_data : bool := %s." % str(api["load_resets_call_data"]).lower(),
          "", "(* sqfvm_status: the state number, or this for an invalid handle *)",
          "Definition status_invalid_handle : Z := %d." % api["status_invalid"],
          "", "(* documented return codes (sqfvm.h): (code, constant the phrase stands for or \"\", text) *)"]
    for nm, d in (("documented_call", doc_call), ("documented_load", doc_load), ("documented_status", doc_status)):
        o.append("Definition %s : list (Z * string * string) := %s." % (nm, clist("(%d, %s, %s)" % (n, cs(k), cs(t)) for n, k, t in d)))
    txt = "\n".join(o) + "\n"
    p = os.path.join(os.environ.get("VERIF_COQ") or os.path.join(HERE, "coq"), "Gen", "ResultMap.v")
    os.makedirs(os.path.dirname(p), exist_ok=True)
    if not os.path.exists(p) or open(p).read() != txt:
        open(p, "w").write(txt)
    return {"state_switches": len(blocks), "types": [e["char"] for e in api["types"]]}


if __name__ == "__main__":
    print(generate())
