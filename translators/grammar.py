"""Gen/Grammar.v from src/parser/sqf/parser.tab.cc (rule tables yyr1_/yyr2_/yytname_, the reduce actions and the
token switch of yylex), cross-checked rule by rule against the grammar text of parser.y.
A source this translator no longer recognises raises TranslateError (a broken tie)."""
import os, re


class TranslateError(Exception):
    pass


def _table(src, name):
    m = re.search(r"parser::%s\[\]\s*=\s*\{(.*?)\};" % name, src, re.S)
    if not m:
        raise TranslateError("table %s not found in parser.tab.cc" % name)
    return [int(x) for x in re.findall(r"-?\d+", m.group(1))]


def _tnames(src):
    m = re.search(r"parser::yytname_\[\]\s*=\s*\{(.*?)YY_NULLPTR", src, re.S)
    if not m:
        raise TranslateError("yytname_ not found")
    out = []
    for s in re.findall(r'"((?:[^"\\]|\\.)*)"', m.group(1)):
        out.append(s.replace('\\"', '"'))
    return out


def _norm_action(a):
    a = a.replace("::sqf::parser::sqf::bison::", "")
    # a semantic value that is moved out of the stack instead of copied builds the same tree (bison pops the
    # operands right after the action): std::move($n) is read as $n
    a = re.sub(r"std::move\(\s*(\$\d+|\$\$)\s*\)", r"\1", a)
    a = re.sub(r"\s+", " ", a).strip()
    return a


def tab_actions(src, r2):
    """rule number -> normalised action text with $$ / $n restored"""
    acts = {}
    for m in re.finditer(r"\n  case (\d+):\n#line \d+ \"parser\.y\"[^\n]*\n\s*\{(.*)\}\n#line", src):
        n = int(m.group(1))
        a = m.group(2)
        ln = r2[n]
        a = re.sub(r"yylhs\.value\.as<[^>]*>\s*\(\)", "$$", a)
        a = re.sub(r"yystack_\[(\d+)\]\.value\.as<[^>]*>\s*\(\)", lambda k: "$%d" % (ln - int(k.group(1))), a)
        acts[n] = _norm_action(a)
    return acts


def y_rules(ysrc):
    """[(lhs, [rhs symbols], normalised action)] in order, from the grammar section of parser.y"""
    parts = ysrc.split("\n%%")
    if len(parts) < 3:
        raise TranslateError("parser.y: grammar section not found")
    g = re.sub(r"/\*.*?\*/", " ", parts[1], flags=re.S)
    i, n = 0, len(g)
    toks = []
    while i < n:
        c = g[i]
        if c.isspace():
            i += 1
        elif c == "{":
            depth, j = 0, i
            while j < n:
                if g[j] == "{":
                    depth += 1
                elif g[j] == "}":
                    depth -= 1
                    if depth == 0:
                        break
                elif g[j] == '"':
                    j += 1
                    while g[j] != '"':
                        j += 1
                j += 1
            toks.append(("act", g[i + 1:j]))
            i = j + 1
        elif c == '"':
            j = g.index('"', i + 1)
            toks.append(("sym", g[i:j + 1]))
            i = j + 1
        elif c in ":|;":
            toks.append((c, c))
            i += 1
        else:
            m = re.match(r"[A-Za-z_][A-Za-z0-9_]*", g[i:])
            if not m:
                raise TranslateError("parser.y: unexpected character %r" % c)
            toks.append(("sym", m.group(0)))
            i += len(m.group(0))
    rules, k = [], 0
    while k < len(toks):
        if toks[k][0] != "sym" or toks[k + 1][0] != ":":
            raise TranslateError("parser.y: rule head expected at token %d" % k)
        lhs = toks[k][1]
        k += 2
        rhs, act = [], ""
        while True:
            t = toks[k]
            if t[0] == "sym":
                rhs.append(t[1])
            elif t[0] == "act":
                act = _norm_action(t[1])
            elif t[0] in "|;":
                rules.append((lhs, rhs, act))
                rhs, act = [], ""
                if t[0] == ";":
                    k += 1
                    break
            k += 1
    return rules


def lexmap(src):
    """the classification chain of yylex: [(binary, unary, nular, precedence or 0, token)]"""
    m = re.search(r"case tokenizer::etoken::t_operator:\s*case tokenizer::etoken::t_ident:(.*?)return token\.type == tokenizer::etoken::t_ident \? parser::make_IDENT\(token, loc\) : parser::make_INVALID\(loc\);", src, re.S)
    if not m:
        raise TranslateError("yylex classification chain not found")
    body = m.group(1)
    # the facts the chain starts from
    for need in ("runtime.sqfop_exists_binary(key)", "bres.begin()->get().precedence()", "runtime.sqfop_exists_unary(key)",
                 "::sqf::runtime::sqfop_nular::key{key}", "std::tolower"):
        if need not in body:
            raise TranslateError("yylex no longer asks the runtime: " + need)
    out = []
    for b in re.finditer(r"(?:else )?if \((!?)binary && (!?)unary && (!?)nular\)\s*\{(.*?)\n             \}", body, re.S):
        flags = tuple(x == "" for x in b.group(1, 2, 3))
        blk = b.group(4)
        cases = re.findall(r"case (\d+):\s*return parser::make_(\w+)\(token, loc\);", blk)
        if cases:
            for p, t in cases:
                out.append(flags + (int(p), t))
        else:
            r = re.search(r"return parser::make_(\w+)\(token, loc\);", blk)
            if not r:
                raise TranslateError("yylex: branch without a token")
            out.append(flags + (0, r.group(1)))
    if not out:
        raise TranslateError("yylex: no classification branch recognised")
    return out


def coq_str(s):
    return '"' + s.replace('"', '""') + '"'


def translate(repo, outpath):
    d = os.path.join(repo, "src", "parser", "sqf")
    src = open(os.path.join(d, "parser.tab.cc")).read()
    ysrc = open(os.path.join(d, "parser.y")).read()
    r1, r2, names = _table(src, "yyr1_"), _table(src, "yyr2_"), _tnames(src)
    if len(r1) != len(r2):
        raise TranslateError("yyr1_/yyr2_ lengths differ")
    acts = tab_actions(src, r2)
    yr = y_rules(ysrc)
    # table index 0 is a placeholder, index 1 is `$accept: start END_OF_FILE`; parser.y's rule i is index i + 1
    if len(r1) < 2 or names[r1[1]] != "$accept" or r2[1] != 2:
        raise TranslateError("rule tables do not start with $accept")
    if len(yr) != len(r1) - 2:
        raise TranslateError("parser.y has %d rules, the tables have %d" % (len(yr), len(r1) - 2))
    rules = []
    for i, (lhs, rhs, act) in enumerate(yr, start=2):
        if names[r1[i]] != lhs or r2[i] != len(rhs):
            raise TranslateError("rule %d: tables say %s/%d, parser.y says %s/%d" % (i, names[r1[i]], r2[i], lhs, len(rhs)))
        if acts.get(i, "") != act:
            raise TranslateError("rule %d (%s): action in parser.tab.cc differs from parser.y:\n  %s\n  %s" % (i, lhs, acts.get(i, ""), act))
        for s in rhs:
            if s not in names:
                raise TranslateError("rule %d: unknown symbol %s" % (i, s))
        rules.append((lhs, rhs, act))
    lm = lexmap(src)
    lm_y = lexmap(ysrc)
    if lm != lm_y:
        raise TranslateError("yylex in parser.tab.cc differs from parser.y")
    with open(outpath, "w") as f:
        f.write("(* GENERATED on every run by translators/grammar.py from src/parser/sqf/parser.tab.cc\n"
                "   (yyr1_, yyr2_, yytname_, reduce actions, yylex) cross-checked against parser.y. Do not edit. *)\n"
                "From Coq Require Import List String.\nImport ListNotations.\nLocal Open Scope string_scope.\n\n")
        f.write("(* rule i (1-based): left-hand side, right-hand side, action *)\n")
        f.write("Definition rules : list (string * list string * string) := [\n")
        f.write(";\n".join("  (%s, [%s], %s)" % (coq_str(l), "; ".join(coq_str(x) for x in r), coq_str(a)) for l, r, a in rules))
        f.write("\n].\n\n")
        f.write("(* yylex: binary, unary, nular, registered precedence (0 = not asked), token *)\n")
        f.write("Definition lexmap : list (bool * bool * bool * nat * string) := [\n")
        f.write(";\n".join("  (%s, %s, %s, %d, %s)" % (str(b).lower(), str(u).lower(), str(n).lower(), p, coq_str(t)) for b, u, n, p, t in lm))
        f.write("\n].\n")
    return {"rules": len(rules), "lexmap": len(lm), "symbols": len(names)}


if __name__ == "__main__":
    import sys
    print(translate(sys.argv[1] if len(sys.argv) > 1 else "/repo", sys.argv[2] if len(sys.argv) > 2 else "/dev/stdout"))
