#!/usr/bin/env python3
"""Regenerate coq/Gen/Registry.v and coq/Gen/Grammar.v outside a check run (bin/setup needs them before the
full Coq build: Syntax/GenProofs.v imports both).  Builds harness/h_syntax.cpp against the current tree."""
import os, sys
HERE = os.path.dirname(os.path.dirname(os.path.abspath(__file__)))
sys.path.insert(0, os.path.join(HERE, "lib"))
sys.path.insert(0, os.path.join(HERE, "checks"))
import vcommon as V
import syntaxcommon as S


class _Run:
    tier = "quick"


def generate():
    """Called by vcommon.run_translators(): only the translation (no Coq/OCaml build, which would recurse)."""
    harness = V.build_harness("h_syntax", "plain")
    gen = os.path.join(V.COQ, "Gen")
    os.makedirs(gen, exist_ok=True)
    with V.Lock("syntax-gen"):
        reg = S.TR.read_dump(S.TR.dump(harness))
        a = S.write_if_changed(os.path.join(gen, "Registry.v"), lambda p: S.TR.translate(reg, p))
        try:
            b = S.write_if_changed(os.path.join(gen, "Grammar.v"), lambda p: S.TG.translate(V.REPO, p))
        except Exception as e:
            if S.grammar_baseline(gen, e):
                b = "baseline"
            else:
                e.kept = ["Registry"]          # the registry was read; only the grammar / yylex translation is broken
                raise
    return {"registry": a, "grammar": b}


if __name__ == "__main__":
    ctx = S.setup(_Run())
    print("Gen/Registry.v", ctx.translated.get("registry"))
    print("Gen/Grammar.v", ctx.translated.get("grammar"))
    for p in ctx.problems:
        print("PROBLEM", p)
    sys.exit(1 if ctx.problems else 0)
