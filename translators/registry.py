"""Gen/Registry.v from the operator registry of the BUILT runtime: the harness enumerates every registered
binary/unary/nular signature through the public sqfop_*_begin/end iterators (h_syntax dump-registry).
Operators the harness registers itself (marked D) are left out of Gen/Registry.v."""
import re, subprocess


class TranslateError(Exception):
    pass


def read_dump(text):
    """-> dict name(bytes) -> {"precs": [precedence of each binary overload, by-name order], "u": bool, "n": bool, "d": bool}"""
    reg = {}
    for line in text.split("\n"):
        f = line.split()
        if not f:
            continue
        if f[0] not in ("B", "U", "N") or len(f) < 2:
            raise TranslateError("unrecognised registry line: " + line[:80])
        name = b"" if f[1] == "-" else bytes.fromhex(f[1])
        e = reg.setdefault(name, {"b": [], "u": False, "n": False, "d": False})
        if f[-1] == "D":
            e["d"] = True
        if f[0] == "B":
            e["b"].append((int(f[3]), int(f[2])))
        elif f[0] == "U":
            e["u"] = True
        else:
            e["n"] = True
    for e in reg.values():
        e["precs"] = [p for i, p in sorted(e["b"])]
    if len(reg) < 100:
        raise TranslateError("registry dump has only %d names" % len(reg))
    return reg


def dump(harness):
    p = subprocess.run([harness, "dump-registry"], stdout=subprocess.PIPE, stderr=subprocess.PIPE, timeout=120)
    if p.returncode != 0:
        raise TranslateError("dump-registry failed: " + p.stderr.decode("latin-1")[-500:])
    return p.stdout.decode("latin-1")


def coq_str(b):
    for c in b:
        if c < 32 or c > 126:
            raise TranslateError("operator name with a non-printable byte: %r" % b)
    return '"' + b.decode("latin-1").replace('"', '""') + '"'


def translate(reg, outpath):
    names = sorted(n for n, e in reg.items() if not e["d"])
    with open(outpath, "w") as f:
        f.write("(* GENERATED on every run by translators/registry.py from the operator registry of the built runtime\n"
                "   (harness h_syntax dump-registry: sqfop_binary/unary/nular_begin()..end(), precedence(),\n"
                "   sqfop_binary_by_name order). Do not edit. *)\n"
                "From Coq Require Import List String.\nImport ListNotations.\nLocal Open Scope string_scope.\n\n"
                "(* name, (precedence of every binary overload in the order the lexer glue sees them, unary?, nular?) *)\n"
                "Definition table : list (string * (list nat * bool * bool)) := [\n")
        f.write(";\n".join("  (%s, ([%s], %s, %s))" % (coq_str(n), "; ".join(str(p) for p in reg[n]["precs"]),
                                                      str(reg[n]["u"]).lower(), str(reg[n]["n"]).lower()) for n in names))
        f.write("\n].\n")
    nb = sum(1 for n in names if reg[n]["precs"])
    return {"names": len(names), "binary_names": nb, "unary_names": sum(1 for n in names if reg[n]["u"]),
            "nular_names": sum(1 for n in names if reg[n]["n"]),
            "binary_signatures": sum(len(reg[n]["precs"]) for n in names)}


if __name__ == "__main__":
    import sys
    print(translate(read_dump(dump(sys.argv[1])), sys.argv[2]))
