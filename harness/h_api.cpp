// C18 / C20 harness.
//
//   h_api api <dir with libsqfvm.so>
//       Plays histories of C API calls against the SHARED LIBRARY the framework links from the current tree
//       (dlopen, RTLD_LOCAL: the library executes its own copy of the runtime, not the objects linked into this executable).
//       stdin:  "<tick_us>\t<op>\t<op>..."     one forked child per line
//         C<user>:<max_runtime_ms>                       sqfvm_create_instance(user, cb, ms/1000.f)   -> handle number 0,1,..
//         D<h>                                           sqfvm_destroy_instance
//         S<h>                                           sqfvm_status
//         L<h>:<hex text>:<len|->                        sqfvm_load_config
//         K<h>:<calldata>:<hex type char>:<hex text>:<len|->   sqfvm_call (len '-' = size of the text; otherwise the given length is
//                                                        passed and the buffer is padded with 'Z' up to it if longer than the text)
//         W<k>~<op>                                       arm <op> (S.. / L.. / K.., without length field semantics: the text length is passed) to be
//                                                        executed from INSIDE the log callback when the k-th record (from 0) of the NEXT op arrives;
//                                                        the nested return value appears among the records as NEST=<ret>
//         h: a handle number, or N (NULL), or B (a zeroed buffer), or X (a buffer starting with "SQFX")
//       stdout: "<op result>|<op result>|..."   op result = <return value>{<callback record>,...}
//         callback record = <user>:<calldata>:<severity>[:M<text>|:R<hex text>]
//           M<..> after a diag_log line / the printed value of a finished script, R<..> for severity -1 (RESULT)
//       The virtual clock of harness/sqfrt.hpp is visible to the library: libsqfvm.so gets system_clock::now() from the shared
//       libstdc++, which calls clock_gettime, which resolves to the definition in this executable (the dynamic linker exports
//       it because libstdc++.so references it).  `h_api clocktest <dir>` demonstrates that.
//
//   h_api probe
//       Front-end classification of a text by the implementation's own preprocessor / parser classes (linked into this
//       executable): stdin "<hex type char>\t<hex text>" (type L = config)  ->  "PPFAIL <diags>" | "PARSEFAIL <diags pp> <diags parse>" |
//       "OK <diags pp> <diags parse> <hex preprocessed text>"      diags = level:code,... or -
//
//   h_api ops [full|basic|empty]   prints the nular / unary / binary signatures of the operator registry of such an instance (C20: which operators hand out containers)
//
//   h_api reent    C20 re-entrancy: stdin "<hex P>\t<hex Q>\t<k>"; instance A runs P, and inside A's log callback, at the k-th
//                  diagnostic A emits while running, instance B (created before) runs Q - all on one thread.
//                  stdout: "<record of A>\t<record of B or ->\t<1 if B ran inside the callback else 0>"   (records as in iso)
//
//   h_api iso
//       C20: several VMs in ONE process.  stdin: "<mode>\t<hex P>\t<hex Q>[\t<set P>,<set Q>]"   mode: alone | after | beside | twice
//         set: full | basic | empty = the operator set of that instance (sqfvm_create_instance / _basic / _empty)
//         alone : P in a fresh VM                         after : Q in a VM, then P in a second, fresh VM (both stay alive)
//         beside: P and Q on two threads, each in its own VM, started together     twice: P, then P again in another fresh VM
//       stdout: the record of P's VM (of the last P for `twice`): result:state:<level:code[:M<text>],...>
//       Every text is preprocessed (so __COUNTER__ etc. are expanded) and parsed by the VM that runs it.
//
//   h_api clock
//       C20: "<ns per clock query>\t<hex P>": P in a fresh VM (no time limit) under a clock that advances by that much with every
//       query of any clock (system_clock, steady_clock: both are clock_gettime).  stdout: "<record as in iso>\tqueries=<n>"
#define VH_VIRTUAL_CLOCK
#include "sqfrt.hpp"
#include "parser/assembly/assembly_parser.h"
#include <dlfcn.h>
#include <sys/syscall.h>
#include <thread>
#include <atomic>
#include <functional>
using namespace vh;

#if defined(__SANITIZE_ADDRESS__) || defined(__SANITIZE_THREAD__)
#define API_MEM_MB 0
#else
#define API_MEM_MB 4096
#endif

typedef void(*log_cb)(void*, void*, int32_t, const char*, uint32_t);
typedef void* (*fn_create)(void*, log_cb, float);
typedef void(*fn_destroy)(void*);
typedef int32_t(*fn_load)(void*, const char*, uint32_t);
typedef int32_t(*fn_status)(void*);
typedef int32_t(*fn_call)(void*, void*, char, const char*, uint32_t);

static std::string g_records;
// W op of the api mode: an API call made from INSIDE the log callback, at the k-th record of the next op
static long g_nest_at = -1;           // record index (of the op being executed) at which the nested op runs; -1 = not armed
static long g_nest_seen = 0;
static bool g_nest_running = false;
static std::function<long()> g_nest_op;
static void nest_hook()
{
    if (g_nest_at < 0 || g_nest_running) return;
    if (g_nest_seen++ != g_nest_at) return;
    g_nest_running = true;
    long r = g_nest_op ? g_nest_op() : 0;
    g_nest_running = false;
    g_nest_at = -1;
    if (!g_records.empty()) g_records += ",";
    g_records += "NEST=" + std::to_string(r);
}
static void canon(std::string& t) { for (auto& ch : t) if (ch == '\t' || ch == '\n' || ch == '\r' || ch == '|' || ch == ',' || ch == '{' || ch == '}') ch = ' '; }
static void on_log(void* user, void* call, int32_t sev, const char* msg, uint32_t len)
{
    std::string text(msg ? msg : "", msg ? len : 0);
    if (!g_records.empty()) g_records += ",";
    g_records += std::to_string((long)(intptr_t)user) + ":" + std::to_string((long)(intptr_t)call) + ":" + std::to_string(sev);
    if (sev == -1) { g_records += ":R" + hex(text); nest_hook(); return; }
    auto p = text.find("[DIAG_LOG] ");
    if (p != std::string::npos) { std::string t = text.substr(p + 11); canon(t); g_records += ":M<" + t + ">"; nest_hook(); return; }
    const std::string a = "Context dropped with return value `";
    p = text.find(a);
    auto e = text.rfind("`.");
    if (p != std::string::npos && e != std::string::npos && e >= p + a.size())
    {
        std::string t = text.substr(p + a.size(), e - p - a.size()); canon(t);
        g_records += ":M<VALUE " + t + ">";
    }
    nest_hook();
}

struct Lib
{
    void* h = nullptr;
    fn_create create = nullptr; fn_destroy destroy = nullptr; fn_load load = nullptr; fn_status status = nullptr; fn_call call = nullptr;
    std::string err;
    bool open(const std::string& dir)
    {
        h = dlopen((dir + "/libsqfvm.so").c_str(), RTLD_NOW | RTLD_LOCAL);
        if (!h) { err = dlerror(); return false; }
        create = (fn_create)dlsym(h, "sqfvm_create_instance");
        destroy = (fn_destroy)dlsym(h, "sqfvm_destroy_instance");
        load = (fn_load)dlsym(h, "sqfvm_load_config");
        status = (fn_status)dlsym(h, "sqfvm_status");
        call = (fn_call)dlsym(h, "sqfvm_call");
        if (!create || !destroy || !load || !status || !call) { err = "missing export"; return false; }
        return true;
    }
};

static std::string diags(const RecLogger& lg, size_t from, size_t to)
{
    std::string r;
    for (size_t k = from; k < to && k < lg.msgs.size(); k++)
    {
        if (!r.empty()) r += ",";
        r += std::to_string(lg.msgs[k].level) + ":" + std::to_string(lg.msgs[k].code);
    }
    return r.empty() ? "-" : r;
}

template<class TVM> static std::string vm_record(TVM& vm, int res)
{
    std::string o = std::to_string(res) + ":" + std::to_string(vm.state()) + ":";
    for (auto& m : vm.lg.msgs)
    {
        if (m.level > 3) continue;
        o += std::to_string(m.level) + ":" + std::to_string(m.code);
        if (m.code == 60019)
        {
            auto p = m.text.find("[DIAG_LOG] ");
            std::string t = p == std::string::npos ? m.text : m.text.substr(p + 11); canon(t);
            o += ":M<" + t + ">";
        }
        else if (m.code == 60095)
        {
            const std::string a = "Context dropped with return value `";
            auto p = m.text.find(a);
            auto e = m.text.rfind("`.");
            std::string t = (p != std::string::npos && e != std::string::npos && e >= p + a.size()) ? m.text.substr(p + a.size(), e - p - a.size()) : std::string("?");
            canon(t);
            o += ":M<VALUE " + t + ">";
        }
        o += ",";
    }
    return o;
}
template<class TVM> static std::string run_text(TVM& vm, const std::string& text)
{
    if (!vm.load(text, true)) return "LOADFAIL:" + diags(vm.lg, 0, vm.lg.msgs.size());
    int r = vm.start();
    return vm_record(vm, r);
}

// VM instances with the operator sets of the three constructors of the C API (src/export/sqfvm.cpp create_instance):
// full = sqf::operators::ops, basic = the non-arma sets, empty = no operator at all
static std::unique_ptr<VM> make_vm(const std::string& set)
{
    auto vm = std::make_unique<VM>(0, set == "full" || set.empty());
    if (set == "basic")
    {
        sqf::operators::ops_config(*vm->rt);
        sqf::operators::ops_diag(*vm->rt);
        sqf::operators::ops_generic(*vm->rt);
        sqf::operators::ops_logic(*vm->rt);
        sqf::operators::ops_math(*vm->rt);
        sqf::operators::ops_namespace(*vm->rt);
        sqf::operators::ops_sqfvm(*vm->rt);
        sqf::operators::ops_string(*vm->rt);
        sqf::operators::ops_text(*vm->rt);
        sqf::operators::ops_osspecific(*vm->rt);
        sqf::operators::ops_hashmap(*vm->rt);
    }
    return vm;
}

// a VM assembled like vh::VM whose logger calls back into the harness on every message (re-entrancy search of C20)
class HookLogger : public RecLogger
{
public:
    std::function<void(size_t)> hook;
    bool armed = false;
    void log(const LogMessageBase& m) override
    {
        RecLogger::log(m);
        if (armed && hook) hook(msgs.size() - 1);
    }
};
struct HVM
{
    HookLogger lg;
    std::unique_ptr<sqf::runtime::runtime> rt;
    HVM()
    {
        sqf::runtime::runtime::runtime_conf conf;
        conf.max_runtime = std::chrono::milliseconds(0);
        conf.disable_sleep = false;
        conf.enable_classname_check = true;
        conf.disable_networking = true;
        conf.print_context_work_to_log_on_exit = true;
        rt = std::make_unique<sqf::runtime::runtime>(lg, conf);
        rt->fileio(std::make_unique<sqf::fileio::impl_default>(lg));
        rt->parser_config(std::make_unique<sqf::parser::config::parser>(lg));
        rt->parser_preprocessor(std::make_unique<sqf::parser::preprocessor::impl_default>(lg));
        rt->parser_sqf(std::make_unique<sqf::parser::sqf::parser>(lg));
        sqf::operators::ops(*rt);
    }
    bool load(const std::string& text, bool preprocess = false, const std::string& file = "verif.sqf")
    {
        std::string src = text;
        sqf::runtime::fileio::pathinfo pi{ std::string(file), std::string() };
        if (preprocess)
        {
            auto pp = rt->parser_preprocessor().preprocess(*rt, src, pi);
            if (!pp.has_value()) return false;
            src = *pp;
        }
        auto set = rt->parser_sqf().parse(*rt, src, pi);
        if (!set.has_value()) return false;
        auto ctx = rt->context_create().lock();
        sqf::runtime::frame f(rt->default_value_scope(), set.value());
        ctx->push_frame(f);
        return true;
    }
    int start() { return (int)rt->execute(sqf::runtime::runtime::action::start); }
    int state() { return (int)rt->runtime_state(); }
};

int main(int argc, char** argv)
{
    std::string mode = argc > 1 ? argv[1] : "";
    std::string dir = argc > 2 ? argv[2] : "";
    if (mode == "ops")
    {
        // the registry of a full VM: "N\t<name>" for every nular, "U\t<name>\t<right type>" for every unary signature
        auto pvm = make_vm(dir);        // argv[2]: full (default) | basic | empty
        VM& vm = *pvm;
        for (auto it = vm.rt->sqfop_nular_begin(); it != vm.rt->sqfop_nular_end(); ++it)
            std::cout << "N\t" << it->first.name << "\n";
        for (auto it = vm.rt->sqfop_unary_begin(); it != vm.rt->sqfop_unary_end(); ++it)
            std::cout << "U\t" << it->first.name << "\t" << it->first.right_type.to_string() << "\n";
        for (auto it = vm.rt->sqfop_binary_begin(); it != vm.rt->sqfop_binary_end(); ++it)
            std::cout << "B\t" << it->first.name << "\t" << it->first.left_type.to_string() << "\t" << it->first.right_type.to_string() << "\n";
        return 0;
    }
    if (mode == "clocktest")
    {
        // the library must see the virtual clock: a 0.2 s limit and an endless loop end at once in wall time
        Lib lib; if (!lib.open(dir)) { std::cout << "DLOPEN " << lib.err << "\n"; return 1; }
        vh::g_clock_ns = 0; vh::g_clock_tick_ns = 1000 * 1000;
        void* inst = lib.create((void*)1, on_log, 0.2f);
        std::string code = "while {true} do { while {true} do {} }";
        struct timespec a, b;
        syscall(228 /* SYS_clock_gettime on x86-64 */, CLOCK_MONOTONIC, &a);
        int r = lib.call(inst, (void*)2, 's', code.data(), (uint32_t)code.size());
        syscall(228, CLOCK_MONOTONIC, &b);
        std::cout << "ret=" << r << " virtual_ms=" << vh::g_clock_ns / 1000000 << " wall_ms=" << ((b.tv_sec - a.tv_sec) * 1000 + (b.tv_nsec - a.tv_nsec) / 1000000) << "\n";
        return 0;
    }
    std::string line;
    while (std::getline(std::cin, line))
    {
        auto f = split(line);
        std::string out;
        if (mode == "probe" && f.size() == 2)
        {
            out = forked([&]() -> std::string {
                VM vm(0, true);
                std::string ty = unhex(f[0]), text = unhex(f[1]);
                sqf::runtime::fileio::pathinfo pi{ std::string("dllexports"), std::string() };
                auto pp = vm.rt->parser_preprocessor().preprocess(*vm.rt, text, pi);
                size_t n1 = vm.lg.msgs.size();
                if (!pp.has_value()) return "PPFAIL " + diags(vm.lg, 0, n1);
                char t = ty.empty() ? 0 : ty[0];
                bool ok = true;
                if (t == 'L') ok = vm.rt->parser_config().parse(vm.rt->confighost(), *pp, pi);      // sqfvm_load_config
                else if (t == 's' || t == '1') ok = vm.rt->parser_sqf().parse(*vm.rt, *pp, pi).has_value();
                else if (t == 'a')
                {
                    sqf::parser::assembly::parser asmp(vm.lg);
                    ok = asmp.parse(*vm.rt, *pp, pi).has_value();
                }
                size_t n2 = vm.lg.msgs.size();
                if (!ok) return "PARSEFAIL " + diags(vm.lg, 0, n1) + " " + diags(vm.lg, n1, n2);
                return "OK " + diags(vm.lg, 0, n1) + " " + diags(vm.lg, n1, n2) + " " + hex(*pp);
            }, 20000, API_MEM_MB);
        }
        else if (mode == "api" && f.size() >= 2)
        {
            out = forked([&]() -> std::string {
                Lib lib; if (!lib.open(dir)) return "DLOPEN " + lib.err;
                vh::g_clock_ns = 0;
                vh::g_clock_tick_ns = std::stol(f[0]) * 1000;
                std::vector<void*> handles;
                static char bogus[256];
                static char magicx[256] = { 'S', 'Q', 'F', 'X' };
                auto handle = [&](const std::string& s) -> void* {
                    if (s == "N") return nullptr;
                    if (s == "B") return bogus;
                    if (s == "X") return magicx;
                    size_t k = (size_t)std::stoul(s);
                    return k < handles.size() ? handles[k] : nullptr;
                };
                std::string o;
                for (size_t k = 1; k < f.size(); k++)
                {
                    const std::string& op = f[k];
                    if (op.empty()) continue;
                    auto a = split(op.substr(1), ':');
                    g_records.clear();
                    if (op[0] != 'W') g_nest_seen = 0;
                    long ret = 0;
                    alarm(20);
                    switch (op[0])
                    {
                    case 'W':
                    {   // W<k>~<op>: arm <op> (S / L / K, same syntax) to be executed inside the callback at the k-th record of the NEXT op
                        auto tpos = op.find('~');
                        if (tpos == std::string::npos) return "BADOP";
                        long at = std::stol(op.substr(1, tpos - 1));
                        std::string inner = op.substr(tpos + 1);
                        auto ia = split(inner.substr(1), ':');
                        char ik = inner[0];
                        g_nest_op = [&lib, &handle, ia, ik]() -> long {
                            if (ik == 'S') return lib.status(handle(ia[0]));
                            size_t ti = ik == 'L' ? 1 : 3;
                            std::string text = unhex(ia[ti]);
                            std::string buf = text; buf.push_back('\0');
                            if (ik == 'L') return lib.load(handle(ia[0]), buf.data(), (uint32_t)text.size());
                            std::string ty = unhex(ia[2]);
                            return lib.call(handle(ia[0]), (void*)(intptr_t)std::stol(ia[1]), ty.empty() ? '\0' : ty[0], buf.data(), (uint32_t)text.size());
                        };
                        g_nest_seen = 0; g_nest_at = at; ret = 0;
                        alarm(0);
                        if (k > 1) o += "|";
                        o += "0{}";
                        continue;
                    }
                    case 'C': handles.push_back(lib.create((void*)(intptr_t)std::stol(a[0]), on_log, (float)std::stol(a[1]) / 1000.0f)); ret = handles.back() ? (long)handles.size() - 1 : -1; break;
                    case 'D': lib.destroy(handle(a[0])); ret = 0; break;
                    case 'S': ret = lib.status(handle(a[0])); break;
                    case 'L':
                    case 'K':
                    {
                        size_t ti = op[0] == 'L' ? 1 : 3;
                        std::string text = unhex(a[ti]);
                        size_t len = a[ti + 1] == "-" ? text.size() : (size_t)std::stoul(a[ti + 1]);
                        std::string buf = text;
                        if (buf.size() < len) buf.resize(len, 'Z');
                        buf.push_back('\0');
                        if (op[0] == 'L') ret = lib.load(handle(a[0]), buf.data(), (uint32_t)len);
                        else
                        {
                            std::string ty = unhex(a[2]);
                            ret = lib.call(handle(a[0]), (void*)(intptr_t)std::stol(a[1]), ty.empty() ? '\0' : ty[0], buf.data(), (uint32_t)len);
                        }
                    } break;
                    default: return "BADOP";
                    }
                    alarm(0);
                    g_nest_at = -1;
                    if (k > 1) o += "|";
                    o += std::to_string(ret) + "{" + g_records + "}";
                }
                return o;
            }, 120000, API_MEM_MB);
        }
        else if (mode == "reent" && f.size() == 3)
        {
            // one thread: instance A runs P; inside A's log callback, at A's k-th diagnostic of the run, instance B runs Q
            out = forked([&]() -> std::string {
                vh::g_clock_ns = 0; vh::g_clock_tick_ns = 1000;
                std::string P = unhex(f[0]), Q = unhex(f[1]);
                long k = std::stol(f[2]);
                VM b(0, true);
                HVM a;
                if (!a.load(P, true)) return "LOADFAIL:" + diags(a.lg, 0, a.lg.msgs.size()) + "\t-\t0";
                size_t first = a.lg.msgs.size();
                bool nested = false;
                std::string rb = "-";
                a.lg.hook = [&](size_t idx) {
                    if (nested || k < 0 || idx != first + (size_t)k) return;
                    nested = true;
                    rb = run_text(b, Q);
                };
                a.lg.armed = true;
                int r = a.start();
                a.lg.armed = false;
                return vm_record(a, r) + "\t" + rb + "\t" + (nested ? "1" : "0");
            }, 60000, API_MEM_MB);
        }
        else if (mode == "iso" && (f.size() == 3 || f.size() == 4))
        {
            out = forked([&]() -> std::string {
                vh::g_clock_ns = 0; vh::g_clock_tick_ns = 1000;
                std::string P = unhex(f[1]), Q = unhex(f[2]);
                // optional "<operator set of P's instance>,<operator set of Q's instance>"
                std::string sp = "full", sq = "full";
                if (f.size() == 4) { auto x = split(f[3], ','); if (x.size() == 2) { sp = x[0]; sq = x[1]; } }
                if (f[0] == "alone") { auto a = make_vm(sp); return run_text(*a, P); }
                if (f[0] == "twice") { auto a = make_vm(sp); run_text(*a, P); auto b = make_vm(sp); return run_text(*b, P); }
                if (f[0] == "after") { auto q = make_vm(sq); run_text(*q, Q); auto p = make_vm(sp); return run_text(*p, P); }
                if (f[0] == "beside")
                {
                    // both VMs exist before either runs (creation itself registers types and operators in process-wide tables)
                    auto p = make_vm(sp); auto q = make_vm(sq);
                    std::atomic<int> ready{ 0 };
                    std::string rp, rq;
                    std::thread tq([&] { ready++; while (ready.load() < 2) {} rq = run_text(*q, Q); });
                    std::thread tp([&] { ready++; while (ready.load() < 2) {} rp = run_text(*p, P); });
                    tp.join(); tq.join();
                    return rp;
                }
                return "BADMODE";
            }, 60000, API_MEM_MB);
        }
        else if (mode == "clock" && f.size() == 2)
        {
            // <nanoseconds the clock advances per query> <program>: a fresh VM without a time limit runs the program under a clock
            // that moves by that much every time anybody in the process asks for the time (system_clock and steady_clock alike)
            out = forked([&]() -> std::string {
                vh::g_clock_ns = 1000000000LL * 1700000000LL; vh::g_clock_tick_ns = std::stoll(f[0]);
                auto a = make_vm("full");
                std::string r = run_text(*a, unhex(f[1]));
                return r + "\tqueries=" + std::to_string(vh::g_clock_tick_ns ? (vh::g_clock_ns - 1000000000LL * 1700000000LL) / vh::g_clock_tick_ns : -1);
            }, 15000, API_MEM_MB);
        }
        else out = "BADLINE";
        for (auto& ch : out) if (ch == '\n') ch = ' ';
        std::cout << out << "\n";
    }
    return 0;
}
