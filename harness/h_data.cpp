// C07/C08 correspondence harness: runs SQF statements one by one on a single VM and reports,
// after each statement, the diagnostics, the value of r_ (canonical print) and the print of
// every observed variable (raw = to_string_sqf as `str` does it, canonical = HashMap entries sorted).
//
// stdin : <names, comma separated or -> \t <hex statement> \t <hex statement> ...
// stdout: one record per statement, TAB separated:
//           <level:code,...>;<hex canonical r_ | _>;<hex raw>:<hex canonical>;...      (one pair per name)
//         followed, when the child died, by a last field CRASH <sig> | TIMEOUT | OOM | EXCEPTION ... | EXIT n
// Every history runs in a forked child with a 16 MB stack, 1 GB address space and a watchdog
// (10 s + 0.1 s per statement; under the address sanitizer 90 s + 1 s per statement and no address space limit);
// progress is written to a shared page so that what happened before a crash is not lost.
#include "sqfrt.hpp"
#include "runtime/d_array.h"
#include "runtime/d_scalar.h"
#include "runtime/d_string.h"
#include "runtime/d_boolean.h"
#include "runtime/d_code.h"
#include "operators/ops_hashmap.h"
#include <sys/mman.h>
#include <algorithm>
using namespace vh;

static std::string canon(const sqf::runtime::value& v)
{
    if (v.empty()) return "nil";
    if (v.is<sqf::runtime::t_array>())
    {
        // read-only access: observing a value must not go through the mutable accessors of the container
        const sqf::types::d_array& arr = *v.data<sqf::types::d_array>();
        std::string r = "[";
        bool first = true;
        for (size_t i = 0; i < arr.size(); i++)
        {
            if (!first) r += ",";
            first = false;
            r += canon(arr.at(i));
        }
        return r + "]";
    }
    if (v.is<sqf::runtime::t_hashmap>())
    {
        auto m = v.data<sqf::types::d_hashmap>();
        std::vector<std::string> items;
        for (auto& it : m->map()) items.push_back("[" + canon(it.first) + "," + canon(it.second) + "]");
        std::sort(items.begin(), items.end(), [](const std::string& a, const std::string& b) {
            return std::lexicographical_compare(a.begin(), a.end(), b.begin(), b.end(),
                                                [](char x, char y) { return (unsigned char)x < (unsigned char)y; }); });
        std::string r = "{";
        for (size_t i = 0; i < items.size(); i++) { if (i) r += ","; r += items[i]; }
        return r + "}";
    }
    return v.to_string_sqf();
}

// the address sanitizer reserves its shadow memory as address space: no RLIMIT_AS under it
// and everything (the registration of ~3000 operators for every history first of all) is several times slower
#if defined(__SANITIZE_ADDRESS__)
static const size_t MEM_MB = 0;
static const int TIMEOUT_MS = 90000, PER_STMT_MS = 1000;
#else
static const size_t MEM_MB = 1024;
static const int TIMEOUT_MS = 10000, PER_STMT_MS = 100;
#endif
struct Shared { size_t len; char buf[1]; };
static const size_t SHARED_SIZE = 8u << 20;

int main(int, char**)
{
    Shared* sh = (Shared*)mmap(nullptr, SHARED_SIZE, PROT_READ | PROT_WRITE, MAP_SHARED | MAP_ANONYMOUS, -1, 0);
    if (sh == MAP_FAILED) { std::cerr << "mmap failed\n"; return 2; }
    std::string line;
    while (std::getline(std::cin, line))
    {
        auto f = split(line);
        if (f.size() < 1) { std::cout << "BADLINE\n"; continue; }
        std::vector<std::string> names;
        if (f[0] != "-") names = split(f[0], ',');
        sh->len = 0;
        auto put = [&](const std::string& s) {
            if (sh->len + s.size() + 1 >= SHARED_SIZE - sizeof(Shared)) return;
            memcpy(sh->buf + sh->len, s.data(), s.size());
            sh->len += s.size();
        };
        auto res = forked([&]() -> std::string {
            VM vm(0, true);
            auto scope = vm.rt->default_value_scope();
            size_t seen = 0;
            for (size_t i = 1; i < f.size(); i++)
            {
                std::string stmt = unhex(f[i]);
                std::string rec;
                scope->at("r_") = sqf::runtime::value();     // a statement aborted by an error leaves r_ nil
                if (!vm.load(stmt)) rec = "PARSEFAIL";
                else
                {
                    vm.start();
                    std::string codes;
                    for (; seen < vm.lg.msgs.size(); seen++)
                    {
                        auto& m = vm.lg.msgs[seen];
                        if (m.code == 60095) continue;
                        if (!codes.empty()) codes += ",";
                        codes += std::to_string(m.level) + ":" + std::to_string(m.code);
                    }
                    rec = codes;
                }
                // `vN = keys <map>`: the iteration order of the unordered_map is not an observable of the
                // model; the array handed out is put into canonical order here (and in the model)
                {
                    auto eq = stmt.find(" = keys ");
                    if (eq != std::string::npos && stmt[0] == 'v')
                    {
                        auto v = scope->at(stmt.substr(0, eq));
                        if (v.is<sqf::runtime::t_array>())
                        {
                            auto& vec = v.data<sqf::types::d_array>()->value();
                            std::stable_sort(vec.begin(), vec.end(), [](const sqf::runtime::value& a, const sqf::runtime::value& b) {
                                auto x = canon(a), y = canon(b);
                                return std::lexicographical_compare(x.begin(), x.end(), y.begin(), y.end(),
                                                                    [](char p, char q) { return (unsigned char)p < (unsigned char)q; }); });
                        }
                    }
                }
                rec += ";";
                if (stmt.rfind("r_ = ", 0) == 0) rec += hex(canon(scope->at("r_")));
                else rec += "_";
                for (auto& n : names)
                {
                    auto v = scope->at(n);
                    rec += ";" + hex(v.to_string_sqf()) + ":" + hex(canon(v));
                }
                if (i > 1) put("\t");
                put(rec);
            }
            return "DONE";
        }, TIMEOUT_MS + PER_STMT_MS * (int)f.size(), MEM_MB, 16);
        std::string out(sh->buf, sh->len);
        if (res != "DONE") { if (!out.empty()) out += "\t"; out += res; }
        for (auto& c : out) if (c == '\n') c = ' ';
        std::cout << out << "\n";
        std::cout.flush();
    }
    return 0;
}
