// Shared plumbing for the correspondence harnesses: hex/TAB line protocol and
// fork-per-case isolation so that a crash, hang or allocation blow-up of the
// implementation is an observation (CRASH/TIMEOUT/OOM), not the end of the batch.
#pragma once
#include <string>
#include <vector>
#include <functional>
#include <iostream>
#include <sstream>
#include <cstring>
#include <algorithm>
#include <cstdio>
#include <csignal>
#include <unistd.h>
#include <sys/wait.h>
#include <sys/resource.h>
#include <sys/time.h>
#include <poll.h>

namespace vh
{
    inline std::string hex(const std::string& s)
    {
        if (s.empty()) return "-";
        static const char* d = "0123456789abcdef";
        std::string o;
        o.reserve(s.size() * 2);
        for (unsigned char c : s) { o.push_back(d[c >> 4]); o.push_back(d[c & 15]); }
        return o;
    }
    inline std::string unhex(const std::string& s)
    {
        if (s == "-") return "";
        std::string o;
        auto v = [](char c) -> int { return c <= '9' ? c - '0' : (c | 32) - 'a' + 10; };
        for (size_t i = 0; i + 1 < s.size(); i += 2) o.push_back((char)(v(s[i]) * 16 + v(s[i + 1])));
        return o;
    }
    inline std::vector<std::string> split(const std::string& s, char sep = '\t')
    {
        std::vector<std::string> r;
        size_t st = 0;
        for (;;)
        {
            auto p = s.find(sep, st);
            if (p == std::string::npos) { r.push_back(s.substr(st)); break; }
            r.push_back(s.substr(st, p - st));
            st = p + 1;
        }
        return r;
    }

    // processor time (user + system, all threads) a live child has used so far, in ms; -1 when it cannot be read
    inline long child_cpu_ms(pid_t pid)
    {
        char path[64]; snprintf(path, sizeof path, "/proc/%d/stat", (int)pid);
        FILE* fp = fopen(path, "r");
        if (!fp) return -1;
        char buf[2048]; size_t n = fread(buf, 1, sizeof buf - 1, fp); fclose(fp); buf[n] = 0;
        const char* p = strrchr(buf, ')');           // the command name may contain spaces and parentheses
        if (!p) return -1;
        unsigned long ut = 0, st = 0; int field = 2;  // p+1 starts field 3 (state)
        for (const char* q = p + 1; *q; )
        {
            while (*q == ' ') ++q;
            ++field;
            if (field == 14) { if (sscanf(q, "%lu %lu", &ut, &st) != 2) return -1; break; }
            while (*q && *q != ' ') ++q;
        }
        long hz = sysconf(_SC_CLK_TCK); if (hz <= 0) hz = 100;
        return (long)((ut + st) * 1000 / (unsigned long)hz);
    }

    // Runs f in a forked child under a CPU/wall alarm and an address-space limit.
    // Returns the child's output line, or CRASH <sig> / TIMEOUT / OOM / EXIT <code>.
    inline std::string forked(const std::function<std::string()>& f, int timeout_ms = 5000, size_t mem_mb = 2048,
                              size_t stack_mb = 0)
    {
        int fds[2];
        if (pipe(fds) != 0) return "HARNESS pipe";
        fflush(stdout);
        pid_t pid = fork();
        if (pid < 0) return "HARNESS fork";
        if (pid == 0)
        {
            close(fds[0]);
            struct rlimit rl;
            // the sanitizers reserve their shadow memory as address space: no RLIMIT_AS under them (the watchdog stays)
#if defined(__SANITIZE_ADDRESS__) || defined(__SANITIZE_THREAD__)
            (void)mem_mb;
#else
            if (mem_mb) { rl.rlim_cur = rl.rlim_max = mem_mb * 1024 * 1024; setrlimit(RLIMIT_AS, &rl); }
#endif
            if (stack_mb) { rl.rlim_cur = rl.rlim_max = stack_mb * 1024 * 1024; setrlimit(RLIMIT_STACK, &rl); }
            rl.rlim_cur = rl.rlim_max = 0; setrlimit(RLIMIT_CORE, &rl);
            std::string out;
            try { out = f(); }
            catch (const std::bad_alloc&) { out = "OOM"; }
            catch (const std::exception& e) { out = std::string("EXCEPTION\t") + hex(e.what()); }
            catch (...) { out = "EXCEPTION\t-"; }
            size_t off = 0;
            while (off < out.size())
            {
                ssize_t w = write(fds[1], out.data() + off, out.size() - off);
                if (w <= 0) break;
                off += (size_t)w;
            }
            close(fds[1]);
            _exit(0);
        }
        close(fds[1]);
        std::string out;
        char buf[65536];
        struct timeval t0; gettimeofday(&t0, nullptr);
        bool timed_out = false;
        const long hard_ms = std::min<long>((long)timeout_ms * 8, (long)timeout_ms + 120000);
        for (;;)
        {
            struct timeval t1; gettimeofday(&t1, nullptr);
            long el = (t1.tv_sec - t0.tv_sec) * 1000 + (t1.tv_usec - t0.tv_usec) / 1000;
            long left = timeout_ms - el;
            if (left <= 0)
            {
                // past the deadline on the wall clock: the child is only given up when it has also had that much
                // processor time (a machine busy with other work starves it without it hanging), or at the hard limit
                if (el >= hard_ms || child_cpu_ms(pid) >= timeout_ms) { timed_out = true; break; }
                left = 100;
            }
            struct pollfd pfd = { fds[0], POLLIN, 0 };
            int pr = poll(&pfd, 1, (int)left);
            if (pr == 0) continue;
            if (pr < 0) { if (errno == EINTR) continue; break; }
            ssize_t r = read(fds[0], buf, sizeof buf);
            if (r <= 0) break;
            out.append(buf, (size_t)r);
        }
        close(fds[0]);
        int status = 0;
        if (timed_out) { kill(pid, SIGKILL); waitpid(pid, &status, 0); return "TIMEOUT"; }
        waitpid(pid, &status, 0);
        if (WIFSIGNALED(status))
        {
            int sig = WTERMSIG(status);
            return std::string("CRASH\t") + std::to_string(sig);
        }
        if (WIFEXITED(status) && WEXITSTATUS(status) != 0) return "EXIT\t" + std::to_string(WEXITSTATUS(status));
        for (auto& c : out) if (c == '\n') c = ' ';
        return out;
    }
}
