// C09 correspondence harness: runs operator calls on the implementation and reports the result class.
//
//   h_ops --registry          one line per registered signature: kind \t name \t left \t right   (kind N|U|B, "-" = none)
//   h_ops [--single]          stdin: one case per line, stdout: one result line per case, same order
//
// case lines (TAB separated, texts hex encoded, "-" = empty):
//   X <config text> <sqf text> [ms] fresh VM (all operators registered, max_runtime = ms when given), config parsed into the config host when
//                                   not empty, the SQF text loaded as one context and run to completion
//   F <file bytes>                  the bytes are written to a scratch file and read back with
//                                   sqf::runtime::fileio::read_file_from_disk (public static)
// result lines:
//   X: <runtime::result as int>;<level:code,... of every message at warning level or worse | ->;<hex value | NONE>
//        value = text of the 'Context dropped with return value' message, i.e. to_string_sqf of what the script left
//   F: OK;<hex content> | ABSENT
//   any: CRASH <sig> | TIMEOUT | OOM | EXCEPTION <hex what> | EXIT <n>   when the case killed its process
//
// Cases run in batches inside one forked child (results go through a shared page, so what finished before a crash
// is kept); when a child dies, every case of its batch that has no result yet is run again alone in its own child, so
// a crash is attributed to exactly the case that crashes on its own.  Process-wide state an operator can leave
// behind (d_scalar::s_decimals through toFixed, the C library's rand() state) is reset before every case.
#include "sqfrt.hpp"
#include "runtime/d_scalar.h"
#include "runtime/fileio.h"
#include <sys/mman.h>
#include <fstream>
#include <cstdlib>
#include <fcntl.h>
#include <glob.h>
using namespace vh;

static std::string g_tmp_prefix;

#if defined(__SANITIZE_ADDRESS__)
static const size_t MEM_MB = 0;             // the sanitizer's shadow is address space: no RLIMIT_AS under it
static const int CASE_MS = 20000;
#else
static const size_t MEM_MB = 2048;
static const int CASE_MS = 5000;
#endif
static const size_t BATCH = 40;

static std::string run_case(const std::string& line)
{
    auto f = split(line);
    if (f.empty()) return "BADLINE";
    sqf::types::d_scalar::set_decimals(-1);
    srand(1);
    if (f[0] == "X" && (f.size() == 3 || f.size() == 4))
    {
        // without a 4th field no run-time limit inside the VM: the watchdog of the parent decides
        VM vm(f.size() == 4 ? std::stol(f[3]) : 0);
        std::string cfg = unhex(f[1]);
        if (!cfg.empty())
        {
            sqf::runtime::fileio::pathinfo pi{ std::string("verif.cpp"), std::string() };
            if (!vm.rt->parser_config().parse(vm.rt->confighost(), cfg, pi)) return "BADCONFIG";
        }
        if (!vm.load(unhex(f[2]))) return "PARSEFAIL;" + vm.lg.codes() + ";NONE";
        int r = vm.start();
        auto v = vm.lg.context_value();
        return std::to_string(r) + ";" + vm.lg.codes() + ";" + (v.has_value() ? hex(*v) : std::string("NONE"));
    }
    if (f[0] == "F" && f.size() == 2)
    {
        std::string bytes = unhex(f[1]);
        // the scratch file carries the pid of the harness process, which removes what its children left behind
        std::string name = g_tmp_prefix + std::to_string((long)getpid());
        int fd = open(name.c_str(), O_CREAT | O_TRUNC | O_WRONLY, 0600);
        if (fd < 0) return "HARNESS open";
        size_t off = 0;
        while (off < bytes.size()) { ssize_t w = write(fd, bytes.data() + off, bytes.size() - off); if (w <= 0) break; off += (size_t)w; }
        close(fd);
        std::optional<std::string> res;
        try { res = sqf::runtime::fileio::read_file_from_disk(name); }
        catch (...) { unlink(name.c_str()); throw; }
        unlink(name.c_str());
        return res.has_value() ? "OK;" + hex(*res) : std::string("ABSENT");
    }
    return "BADLINE";
}

struct Shared { size_t done; size_t len; char buf[1]; };
static const size_t SHARED_SIZE = 32u << 20;

static void remove_scratch_files()
{
    glob_t g;
    if (glob((g_tmp_prefix + "*").c_str(), 0, nullptr, &g) == 0)
    {
        for (size_t i = 0; i < g.gl_pathc; i++) unlink(g.gl_pathv[i]);
        globfree(&g);
    }
}

int main(int argc, char** argv)
{
    g_tmp_prefix = "/tmp/h_ops_" + std::to_string((long)getpid()) + "_";
    if (argc > 1 && std::string(argv[1]) == "--registry")
    {
        VM vm(0);
        for (auto it = vm.rt->sqfop_nular_begin(); it != vm.rt->sqfop_nular_end(); ++it)
            std::cout << "N\t" << it->first.name << "\t-\t-\n";
        for (auto it = vm.rt->sqfop_unary_begin(); it != vm.rt->sqfop_unary_end(); ++it)
            std::cout << "U\t" << it->first.name << "\t-\t" << it->first.right_type.to_string() << "\n";
        for (auto it = vm.rt->sqfop_binary_begin(); it != vm.rt->sqfop_binary_end(); ++it)
            std::cout << "B\t" << it->first.name << "\t" << it->first.left_type.to_string() << "\t" << it->first.right_type.to_string() << "\n";
        return 0;
    }
    bool single = argc > 1 && std::string(argv[1]) == "--single";
    Shared* sh = (Shared*)mmap(nullptr, SHARED_SIZE, PROT_READ | PROT_WRITE, MAP_SHARED | MAP_ANONYMOUS, -1, 0);
    if (sh == MAP_FAILED) { std::cerr << "mmap failed\n"; return 2; }
    std::vector<std::string> lines;
    std::string line;
    while (std::getline(std::cin, line)) lines.push_back(line);
    size_t batch = single ? 1 : BATCH;
    for (size_t b = 0; b < lines.size(); b += batch)
    {
        size_t e = std::min(lines.size(), b + batch);
        sh->done = 0; sh->len = 0;
        auto death = forked([&]() -> std::string {
            for (size_t i = b; i < e; i++)
            {
                std::string r = run_case(lines[i]);
                for (auto& c : r) if (c == '\n') c = ' ';
                if (sh->len + r.size() + 2 >= SHARED_SIZE - sizeof(Shared)) r = "HARNESS result too long";
                memcpy(sh->buf + sh->len, r.data(), r.size());
                sh->buf[sh->len + r.size()] = '\n';
                sh->len += r.size() + 1;
                sh->done = i - b + 1;
            }
            return "DONE";
        }, CASE_MS * (int)(e - b), MEM_MB);
        std::vector<std::string> res = split(std::string(sh->buf, sh->len), '\n');
        res.resize(sh->done);
        for (size_t i = b + res.size(); i < e; i++)
        {
            // the child died before this case reported: run it alone
            if (e - b == 1) { res.push_back(death == "DONE" ? "HARNESS no result" : death); continue; }
            sh->done = 0; sh->len = 0;
            std::string r = forked([&]() -> std::string { return run_case(lines[i]); }, CASE_MS, MEM_MB);
            res.push_back(r);
        }
        for (auto& r : res) std::cout << r << "\n";
        std::cout.flush();
    }
    remove_scratch_files();
    return 0;
}
