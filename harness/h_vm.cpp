// VM correspondence harness (C02/C03/C04/C05/C11/C12): runs SQF text on the implementation and
// prints the instruction listing, a per-assembly_step trace of (result, state, stack height,
// frame positions/bases) and the final observation of a full run.
// stdin:  "<max_runtime_ms>;<tick_us>;<max_loop>\t<hex sqf text>"      stdout: listing \t trace \t final
// environment: VH_FILES=<directory> is mapped as the virtual directory /cv (files for execVM)
#define VH_VIRTUAL_CLOCK
#include "sqfrt.hpp"
#include "opcodes/common.h"
#include "runtime/d_code.h"
using namespace vh;

static std::string listing(const sqf::runtime::instruction_set& set)
{
    std::string o;
    bool first = true;
    for (auto& in : set)
    {
        if (!first) o += ";";
        first = false;
        if (auto p = dynamic_cast<const sqf::opcodes::push*>(in.get()))
        {
            if (p->value().is<sqf::runtime::t_code>())
            {
                o += "PUSHCODE[" + listing(p->value().data<sqf::types::d_code, sqf::runtime::instruction_set>()) + "]";
                continue;
            }
        }
        o += in->to_string();
    }
    return o;
}

static std::string observe(int res, VM& vm)
{
    std::string o = std::to_string(res) + ":" + std::to_string(vm.state()) + ":";
    if (vm.rt->context_begin() == vm.rt->context_end()) return o + "-";
    auto& ctx = **vm.rt->context_begin();
    o += std::to_string(ctx.values_size()) + ":";
    bool first = true;
    for (auto it = ctx.frames_rbegin(); it != ctx.frames_rend(); ++it)
    {
        if (!first) o += ",";
        first = false;
        o += std::to_string((unsigned long long)(it->position() + 1)) + "/" + std::to_string(it->value_stack_pos());
    }
    return o;
}

static std::string events(VM& vm)
{
    std::string o;
    for (auto& m : vm.lg.msgs)
    {
        if (m.level > 3) continue;
        o += std::to_string(m.level) + ":" + std::to_string(m.code) + ",";
        if (m.code == 60019)
        {
            auto p = m.text.find("[DIAG_LOG] ");
            o += "M<" + (p == std::string::npos ? m.text : m.text.substr(p + 11)) + ">,";
        }
        else if (m.code == 60095)
        {
            const std::string a = "Context dropped with return value `";
            auto p = m.text.find(a);
            auto e = m.text.rfind("`.");
            o += "M<VALUE " + ((p != std::string::npos && e != std::string::npos && e >= p + a.size()) ? m.text.substr(p + a.size(), e - p - a.size()) : std::string("?")) + ">,";
        }
    }
    return o;
}

static VM* make(long max_ms, long tick_us, size_t max_loop)
{
    vh::g_clock_ns = 0;
    vh::g_clock_tick_ns = tick_us * 1000;
    auto vm = new VM(max_ms, true);
    vm->rt->configuration().max_loop_iterations_in_unscheduled = max_loop;
    // scripts started from files (execVM): the directory named by VH_FILES is the virtual directory /cv
    if (const char* d = getenv("VH_FILES")) vm->rt->fileio().add_mapping(d, "/cv");
    return vm;
}

int main(int argc, char** argv)
{
    if (argc > 1 && std::string(argv[1]) == "--registry")
    {
        // every registered signature: kind \t name \t left \t right \t precedence
        std::unique_ptr<VM> vm(make(0, 0, 10000));
        for (auto it = vm->rt->sqfop_nular_begin(); it != vm->rt->sqfop_nular_end(); ++it)
            std::cout << "N\t" << it->first.name << "\t-\t-\t0\n";
        for (auto it = vm->rt->sqfop_unary_begin(); it != vm->rt->sqfop_unary_end(); ++it)
            std::cout << "U\t" << it->first.name << "\t-\t" << it->first.right_type.to_string() << "\t0\n";
        for (auto it = vm->rt->sqfop_binary_begin(); it != vm->rt->sqfop_binary_end(); ++it)
            std::cout << "B\t" << it->first.name << "\t" << it->first.left_type.to_string() << "\t" << it->first.right_type.to_string() << "\t" << it->second.precedence() << "\n";
        return 0;
    }
    std::string line;
    while (std::getline(std::cin, line))
    {
        auto f = split(line);
        if (f.size() != 2) { std::cout << "BADLINE\n"; continue; }
        auto cfg = split(f[0], ';');
        if (cfg.size() != 3) { std::cout << "BADCFG\n"; continue; }
        long max_ms = std::stol(cfg[0]), tick = std::stol(cfg[1]);
        size_t max_loop = (size_t)std::stoul(cfg[2]);
        std::string text = unhex(f[1]);
        // 1. listing
        auto lst = forked([&]() -> std::string {
            std::unique_ptr<VM> vm(make(max_ms, tick, max_loop));
            auto set = vm->rt->parser_sqf().parse(*vm->rt, text, sqf::runtime::fileio::pathinfo(std::string("verif.sqf"), std::string()));
            if (!set.has_value()) return "PARSEFAIL";
            return listing(*set);
        }, 10000);
        // 2. step trace
        auto trace = forked([&]() -> std::string {
            std::unique_ptr<VM> vm(make(max_ms, tick, max_loop));
            if (!vm->load(text)) return "PARSEFAIL";
            std::string o;
            for (int i = 0; i < 3000; i++)
            {
                int r = (int)vm->rt->execute(sqf::runtime::runtime::action::assembly_step);
                if (i) o += "|";
                o += observe(r, *vm);
                if (r != 0) return o;
            }
            return o + "|MORE";
        }, 20000);
        // 3. full run
        auto fin = forked([&]() -> std::string {
            std::unique_ptr<VM> vm(make(max_ms, tick, max_loop));
            if (!vm->load(text)) return "PARSEFAIL";
            int r = vm->start();
            return std::to_string(r) + ":" + std::to_string(vm->state()) + ":" + events(*vm);
        }, 20000);
        for (auto* x : { &lst, &trace, &fin }) for (auto& ch : *x) if (ch == '\t') ch = ' ';
        std::cout << lst << "\t" << trace << "\t" << fin << "\n";
    }
    return 0;
}
