// Shared helper for harnesses that run SQF text on the implementation: a VM instance
// assembled the way src/export/sqfvm.cpp does it (public members only), a recording
// logger, and a deterministic virtual clock (define VH_VIRTUAL_CLOCK before including
// in exactly one TU of the executable to interpose clock_gettime).
#pragma once
#include "common.hpp"
#include "runtime/logging.h"
#include "runtime/runtime.h"
#include "parser/config/config_parser.hpp"
#include "parser/sqf/sqf_parser.hpp"
#include "parser/preprocessor/default.h"
#include "operators/ops.h"
#include "fileio/default.h"
#include <optional>
#include <memory>
#include <time.h>

#ifdef VH_VIRTUAL_CLOCK
// std::chrono::system_clock::now() resolves to this definition: time advances only when the
// harness says so, plus 1 us per query so that busy-waiting code makes progress.
namespace vh { inline long long g_clock_ns = 1000000000LL * 1700000000LL; inline long long g_clock_tick_ns = 1000; }
extern "C" int clock_gettime(clockid_t, struct timespec* ts)
{
    vh::g_clock_ns += vh::g_clock_tick_ns;
    ts->tv_sec = (time_t)(vh::g_clock_ns / 1000000000LL);
    ts->tv_nsec = (long)(vh::g_clock_ns % 1000000000LL);
    return 0;
}
#endif

namespace vh
{
    struct Msg
    {
        int level;          // 0 fatal, 1 error, 2 warning, 3 info, 4 verbose, 5 trace
        size_t code;        // errorCode of the message class (stable, unlike the text)
        std::string text;   // formatMessage()
        bool has_loc;
        std::string file;
        size_t line, col;
    };
    class RecLogger : public Logger
    {
    public:
        std::vector<Msg> msgs;
        void log(const LogMessageBase& m) override
        {
            Msg x;
            x.level = (int)m.getLevel();
            x.code = m.getErrorCode();
            x.text = m.formatMessage();
            x.has_loc = false; x.line = 0; x.col = 0;
            if (auto r = dynamic_cast<const logmessage::RuntimeLogMessageBase*>(&m))
            {
                auto l = r->location();
                x.has_loc = true; x.file = l.path; x.line = l.line; x.col = l.col;
            }
            msgs.push_back(std::move(x));
        }
        // "level:code" of every message at warning level or worse, in order
        std::string codes(int max_level = 2) const
        {
            std::string r;
            for (auto& m : msgs) if (m.level <= max_level) { if (!r.empty()) r += ","; r += std::to_string(m.level) + ":" + std::to_string(m.code); }
            return r.empty() ? "-" : r;
        }
        // value printed when a finished context is dropped (errorCode 60095), last one
        std::optional<std::string> context_value() const
        {
            std::optional<std::string> r;
            const std::string a = "Context dropped with return value `";
            for (auto& m : msgs) if (m.code == 60095)
            {
                auto p = m.text.find(a);
                auto e = m.text.rfind("`.");
                if (p != std::string::npos && e != std::string::npos && e >= p + a.size()) r = m.text.substr(p + a.size(), e - p - a.size());
            }
            return r;
        }
        // texts of diag_log / systemChat style output (info level, code != 60095)
        std::vector<std::string> infos() const
        {
            std::vector<std::string> r;
            for (auto& m : msgs) if (m.level == 3 && m.code != 60095) r.push_back(m.text);
            return r;
        }
    };

    struct VM
    {
        RecLogger lg;
        std::unique_ptr<sqf::runtime::runtime> rt;
        explicit VM(long max_runtime_ms = 0, bool full_ops = true)
        {
            sqf::runtime::runtime::runtime_conf conf;
            conf.max_runtime = std::chrono::milliseconds(max_runtime_ms);
            conf.disable_sleep = false;
            conf.enable_classname_check = true;
            conf.disable_networking = true;
            conf.print_context_work_to_log_on_exit = true;
            rt = std::make_unique<sqf::runtime::runtime>(lg, conf);
            rt->fileio(std::make_unique<sqf::fileio::impl_default>(lg));
            rt->parser_config(std::make_unique<sqf::parser::config::parser>(lg));
            rt->parser_preprocessor(std::make_unique<sqf::parser::preprocessor::impl_default>(lg));
            rt->parser_sqf(std::make_unique<sqf::parser::sqf::parser>(lg));
            if (full_ops) sqf::operators::ops(*rt);
        }
        // parse (optionally preprocess first) and load as a new context; returns false on parse failure
        bool load(const std::string& text, bool preprocess = false, const std::string& file = "verif.sqf")
        {
            std::string src = text;
            sqf::runtime::fileio::pathinfo pi{ std::string(file), std::string() };
            if (preprocess)
            {
                auto pp = rt->parser_preprocessor().preprocess(*rt, src, pi);
                if (!pp.has_value()) return false;
                src = *pp;
            }
            auto set = rt->parser_sqf().parse(*rt, src, pi);
            if (!set.has_value()) return false;
            auto ctx = rt->context_create().lock();
            sqf::runtime::frame f(rt->default_value_scope(), set.value());
            ctx->push_frame(f);
            return true;
        }
        // run to completion (scheduler loop); result as the integer of runtime::result
        int start() { return (int)rt->execute(sqf::runtime::runtime::action::start); }
        int state() { return (int)rt->runtime_state(); }
    };
}
