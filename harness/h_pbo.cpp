// C17 correspondence harness: pbofile reader on the same bytes the model sees.
// stdin: "<hex file bytes>\t<hex name to read>" per line (special: "ABSENT\t-": path that does not exist)
// stdout: FAIL | OK \t attrs \t files \t attribute(prefix) \t read, or CRASH/TIMEOUT/OOM, plus
//         a trailing field "\tFS:<changed|same>" describing whether the directory changed.
#include "common.hpp"
#include "rvutils/pbofile.hpp"
#include "fileio/default.h"
#include <filesystem>
#include <fstream>
#include <algorithm>
#include <cctype>
using namespace vh;
namespace fs = std::filesystem;

static std::string snapshot(const fs::path& dir)
{
    std::vector<std::string> v;
    for (auto& e : fs::directory_iterator(dir))
    {
        std::ifstream f(e.path(), std::ios::binary);
        std::stringstream ss; ss << f.rdbuf();
        v.push_back(e.path().filename().string() + ":" + std::to_string(std::hash<std::string>{}(ss.str())) + ":" + std::to_string(ss.str().size()));
    }
    std::sort(v.begin(), v.end());
    std::string r; for (auto& s : v) r += s + "|";
    return r;
}

struct NullLogger : public Logger { void log(const LogMessageBase&) override {} };

static std::string meth(rvutils::pbo::packing_method m)
{
    switch (m)
    {
        case rvutils::pbo::packing_method::none: return "n";
        case rvutils::pbo::packing_method::encrypted: return "e";
        case rvutils::pbo::packing_method::compressed: return "c";
        case rvutils::pbo::packing_method::version: return "v";
    }
    return "?";
}

int main(int argc, char** argv)
{
    std::string tmpl = "/tmp/verif_pbo_XXXXXX";
    char* d = mkdtemp(tmpl.data());
    if (!d) { std::cerr << "mkdtemp failed\n"; return 2; }
    fs::path dir(d);
    std::string line;
    while (std::getline(std::cin, line))
    {
        auto f = split(line);
        if (f.size() != 2) { std::cout << "BADLINE\n"; continue; }
        for (auto& e : fs::directory_iterator(dir)) fs::remove_all(e.path());
        fs::path p = dir / "a.pbo";
        bool absent = f[0] == "ABSENT";
        std::string bytes = absent ? "" : unhex(f[0]);
        std::string name = unhex(f[1]);
        if (!absent) { std::ofstream o(p, std::ios::binary); o.write(bytes.data(), (std::streamsize)bytes.size()); }
        auto before = snapshot(dir);
        // memory cap: generous constant + a multiple of the file size; an allocation unrelated to the
        // file size (e.g. a 4 GB buffer from a corrupt length field) shows up as OOM
        size_t mem_mb = 256 + (bytes.size() * 8) / (1024 * 1024);
        auto res = forked([&]() -> std::string {
            rvutils::pbo::pbofile pbo;
            if (absent)
            {
                // the way the runtime loads an archive given by path
                NullLogger lg;
                sqf::fileio::impl_default io(lg);
                io.add_pbo_mapping(p);
                return io.get_directories().empty() ? "FAIL" : "OK\tmapped";
            }
            else pbo.open(p);
            if (!pbo.good()) return "FAIL";
            std::string ats, fls;
            for (auto& a : pbo.attributes()) { if (!ats.empty()) ats += ";"; ats += hex(a.first) + "=" + hex(a.second); }
            for (auto& d : pbo.files()) { if (!fls.empty()) fls += ";"; fls += hex(d.name) + ":" + meth(d.packing) + ":" + std::to_string(d.size); }
            auto pre = pbo.attribute("prefix");
            std::string pres = pre.has_value() ? "S" + hex(*pre) : "NONE";
            rvutils::pbo::pbofile::reader rd;
            std::string rds = "NONE";
            if (pbo.read(name, rd))
            {
                // as fileio::impl_default::read_file does
                std::string str;
                str.resize(rd.descriptor().size);
                auto n = rd.read(str.data(), (std::streamsize)rd.descriptor().size);
                (void)n;
                rds = "S" + hex(str);
            }
            // every listed entry, read the way read_file does
            std::string all;
            bool first = true;
            for (auto& d : pbo.files())
            {
                rvutils::pbo::pbofile::reader r2;
                if (!first) all += ";";
                first = false;
                if (pbo.read(d.name, r2))
                {
                    std::string str;
                    str.resize(r2.descriptor().size);
                    r2.read(str.data(), (std::streamsize)r2.descriptor().size);
                    all += "S" + hex(str);
                }
                else all += "NONE";
            }
            // every plainly named entry once more, this time through the virtual file system (add_pbo_mapping, get_info,
            // read_file): the route scripts take.  VFS:<hexname>=<hexbytes>|MISSING;...  ("-": no plain prefix)
            std::string vfs = "-";
            auto plain = [](const std::string& t) {
                if (t.empty() || t.front() == '\\' || t.back() == '\\') return false;
                size_t seg = 0;
                for (size_t i = 0; i <= t.size(); ++i)
                {
                    if (i == t.size() || t[i] == '\\')
                    {
                        auto sg = t.substr(seg, i - seg);
                        if (sg.empty() || sg == "." || sg == "..") return false;
                        seg = i + 1;
                        continue;
                    }
                    unsigned char ch = (unsigned char)t[i];
                    if (!(std::isalnum(ch) || ch == '_' || ch == '-' || ch == '.')) return false;
                }
                return true;
            };
            // every archive that opens is also mounted the way the runtime mounts it (with or without a prefix property): mounting
            // reads, it must not write (the directory is compared before and after the case)
            NullLogger lg;
            sqf::fileio::impl_default io(lg);
            io.add_pbo_mapping(p);
            if (pre.has_value() && plain(*pre))
            {
                vfs.clear();
                for (auto& d : pbo.files())
                {
                    if (!plain(d.name)) continue;
                    std::string req = "\\" + *pre + "\\" + d.name;
                    auto info = io.get_info(req, {});
                    vfs += hex(d.name) + "=" + (info.has_value() ? hex(io.read_file(*info)) : std::string("MISSING")) + ";";
                }
            }
            return "OK\t" + ats + "\t" + fls + "\t" + pres + "\t" + rds + "\t" + all + "\tVFS:" + vfs;
        }, 5000, mem_mb);
        auto after = snapshot(dir);
        std::cout << res << "\tFS:" << (before == after ? "same" : "changed") << "\n";
    }
    fs::remove_all(dir);
    return 0;
}
