// C20 harness, family K: histories of C API calls (src/export/sqfvm.h) on SEVERAL instances of one process, with calls on one
// instance issued while another instance is in the middle of a call of its own - from that instance's log callback on the same
// thread, or on a thread started (and joined) there.  The API functions are the ones of the tree under test (export/sqfvm.cpp is
// linked in through librepo.a; only the five exported functions and the header's typedef are used).
//
//   h_c20api hist
//     stdin : "<ns per clock query>\t<history>"
//       history := op (' ' op)*
//       op      := body ( '{' <k> ('s'|'t') ' ' history '}' )*
//                  the braces arm a nested history: when the k-th record (from 0) of THIS op is delivered to the callback, the nested
//                  ops are executed from inside the callback - s: on the same thread, t: on a new thread that is joined before the
//                  callback returns.  Several groups per op are allowed (distinct k).
//       body    := C<i>:<f|b|e>:<max_runtime_ms>      sqfvm_create_instance / _basic / _empty, user_data = i + 1
//                | D<i>                                sqfvm_destroy_instance
//                | S<i>                                sqfvm_status
//                | L<i>:<hex text>                     sqfvm_load_config
//                | K<i>:<calldata>:<hex type char>:<hex text>   sqfvm_call
//     stdout: "I<i>=<op result>|<op result>...\tI<j>=...\tnested=<groups executed>/<groups armed>"   instances in index order
//       op result = <letter of the op><return value>{<record>,<record>...}     in the order the ops on that instance were EXECUTED
//       record    = <calldata>:<severity>:M<text, separators replaced, at most 600 bytes>[+<total length>]
//       A record is attributed to the instance whose user_data it carries, and to the op of that instance which is executing; one
//       that arrives while no op of that instance executes is listed as "stray{..}", one with an unknown user_data under "I?".
//     The projection of a history on one instance (the ops on it, in execution order, as a flat history) run in a process of its
//     own gives the transcript that instance must show in every history, whatever the other instances do meanwhile (property C20).
#define VH_VIRTUAL_CLOCK
#include "sqfrt.hpp"
#include "export/sqfvm.h"
#include <thread>
#include <map>
using namespace vh;

namespace
{
    struct Op;
    struct Group { long k = 0; bool thread = false; std::vector<Op> ops; bool done = false; };
    struct Op
    {
        char kind = 0;
        std::vector<std::string> a;
        std::vector<Group> groups;
    };
    struct Inst
    {
        void* handle = nullptr;
        std::string transcript;          // finished op results
        std::vector<std::string*> open;  // record lists of the ops of this instance that are executing (innermost last)
        std::vector<long*> counters;     // number of records delivered so far to those ops
        std::vector<Op*> ops;            // the ops themselves
        std::string stray;
    };
    std::map<long, Inst> g_inst;
    std::string g_unknown;
    long g_armed = 0, g_done = 0;

    void canon(std::string& t)
    {
        for (auto& ch : t) if (ch == '\t' || ch == '\n' || ch == '\r' || ch == '|' || ch == ',' || ch == '{' || ch == '}' || ch == '=') ch = ' ';
    }
    void run_history(std::vector<Op>& ops);

    void on_log(void* user, void* call, int32_t sev, const char* msg, uint32_t len)
    {
        std::string text(msg ? msg : "", msg ? len : 0);
        size_t total = text.size();
        if (text.size() > 600) text.resize(600);
        canon(text);
        std::string rec = std::to_string((long)(intptr_t)call) + ":" + std::to_string(sev) + ":M<" + text + ">";
        if (total > 600) rec += "+" + std::to_string(total);
        long idx = (long)(intptr_t)user - 1;
        auto it = g_inst.find(idx);
        if (it == g_inst.end()) { if (!g_unknown.empty()) g_unknown += ","; g_unknown += rec; return; }
        Inst& in = it->second;
        if (in.open.empty()) { if (!in.stray.empty()) in.stray += ","; in.stray += rec; return; }
        std::string& list = *in.open.back();
        if (!list.empty()) list += ",";
        list += rec;
        long n = (*in.counters.back())++;
        Op* op = in.ops.back();
        for (auto& g : op->groups)
        {
            if (g.done || g.k != n) continue;
            g.done = true; g_done++;
            if (g.thread) { std::thread t([&g] { run_history(g.ops); }); t.join(); }
            else run_history(g.ops);
        }
    }

    void run_op(Op& op)
    {
        long i = std::stol(op.a.at(0));
        Inst& in = g_inst[i];              // std::map: references stay valid while other instances are added
        std::string records; long count = 0;
        in.open.push_back(&records); in.counters.push_back(&count); in.ops.push_back(&op);
        long ret = 0;
        switch (op.kind)
        {
        case 'C':
        {
            float lim = (float)std::stol(op.a.at(2)) / 1000.0f;
            void* user = (void*)(intptr_t)(i + 1);
            const std::string& set = op.a.at(1);
            in.handle = set == "b" ? sqfvm_create_instance_basic(user, on_log, lim) : set == "e" ? sqfvm_create_instance_empty(user, on_log, lim)
                                                                                                 : sqfvm_create_instance(user, on_log, lim);
            ret = in.handle ? 0 : -1;
        } break;
        case 'D': sqfvm_destroy_instance(in.handle); in.handle = nullptr; ret = 0; break;
        case 'S': ret = sqfvm_status(in.handle); break;
        case 'L':
        {
            std::string text = unhex(op.a.at(1));
            std::string buf = text; buf.push_back('\0');
            ret = sqfvm_load_config(in.handle, buf.data(), (uint32_t)text.size());
        } break;
        case 'K':
        {
            std::string ty = unhex(op.a.at(2)), text = unhex(op.a.at(3));
            std::string buf = text; buf.push_back('\0');
            ret = sqfvm_call(in.handle, (void*)(intptr_t)std::stol(op.a.at(1)), ty.empty() ? '\0' : ty[0], buf.data(), (uint32_t)text.size());
        } break;
        default: ret = -99; break;
        }
        in.open.pop_back(); in.counters.pop_back(); in.ops.pop_back();
        if (!in.transcript.empty()) in.transcript += "|";
        in.transcript += std::string(1, op.kind) + std::to_string(ret) + "{" + records + "}";
    }
    void run_history(std::vector<Op>& ops) { for (auto& op : ops) run_op(op); }

    // recursive descent over the history syntax
    bool parse_history(const std::string& s, size_t& p, std::vector<Op>& out)
    {
        for (;;)
        {
            while (p < s.size() && s[p] == ' ') p++;
            if (p >= s.size() || s[p] == '}') return true;
            Op op; op.kind = s[p++];
            size_t e = p;
            while (e < s.size() && s[e] != ' ' && s[e] != '{' && s[e] != '}') e++;
            op.a = split(s.substr(p, e - p), ':');
            p = e;
            while (p < s.size() && s[p] == '{')
            {
                p++;
                Group g;
                size_t d = p;
                while (d < s.size() && s[d] >= '0' && s[d] <= '9') d++;
                if (d == p || d >= s.size()) return false;
                g.k = std::stol(s.substr(p, d - p));
                if (s[d] != 's' && s[d] != 't') return false;
                g.thread = s[d] == 't';
                p = d + 1;
                if (!parse_history(s, p, g.ops)) return false;
                if (p >= s.size() || s[p] != '}') return false;
                p++;
                g_armed++;
                op.groups.push_back(std::move(g));
            }
            out.push_back(std::move(op));
        }
    }
}

int main(int argc, char** argv)
{
    std::string mode = argc > 1 ? argv[1] : "";
    std::string line;
    while (std::getline(std::cin, line))
    {
        auto f = split(line);
        std::string out;
        if (mode == "hist" && f.size() == 2)
        {
            out = forked([&]() -> std::string {
                vh::g_clock_ns = 0;
                vh::g_clock_tick_ns = std::stoll(f[0]);
                std::vector<Op> ops;
                size_t p = 0;
                g_armed = 0; g_done = 0;
                if (!parse_history(f[1], p, ops) || p != f[1].size()) return "BADHISTORY";
                alarm(60);
                run_history(ops);
                alarm(0);
                std::string o;
                for (auto& kv : g_inst)
                {
                    if (!o.empty()) o += "\t";
                    o += "I" + std::to_string(kv.first) + "=" + kv.second.transcript;
                    if (!kv.second.stray.empty()) o += "|stray{" + kv.second.stray + "}";
                }
                if (!g_unknown.empty()) o += "\tI?=" + g_unknown;
                o += "\tnested=" + std::to_string(g_done) + "/" + std::to_string(g_armed);
                return o;
            }, 60000, 4096);
        }
        else out = "BADLINE";
        for (auto& ch : out) if (ch == '\n') ch = ' ';
        std::cout << out << "\n";
    }
    return 0;
}
