// C10 correspondence harness: every textual front end of the implementation on one byte string.
// Public members only (the two tokenizers and the preprocessor's character reader are public classes).
//
// stdin, one case per line:   <routes> \t <hex text> \t <files>
//   routes : comma separated subset of the route names below, or ALL
//   files  : '-' or  <namehex>=<contenthex>;...   written to a fresh temp directory that is mapped as the
//            virtual root /v (an include is written  #include "/v/<name>" ); the text itself is the main
//            file /v/m.sqf
// stdout, one line per case:  <route>=<result> \t <route>=<result> ...
//   result = <class>|<codes>|<payload>|<ms>|<kb>[|NONDET:<class>|<codes>|<payload>]
//   a route written 2x<route> (2xSQF, 2xCOMPILE, ...) is run twice on the SAME runtime and once on the second, fresh one:
//            <first>|<ms>|<kb>[|RUN2:<class>|<codes>|<payload>][|FRESH:<class>|<codes>|<payload>]   (only what differs from the first)
//   ms     = wall time of the first of the two runs; kb = rise of the child's peak resident memory over both runs
//   class  = SOME | NONE        (result returned / no result)
//   codes  = comma separated level:code of every diagnostic of level warning or worse ('-' if none)
//   payload: see each route; <n>.<fnv64> is the length and FNV-1a hash of a canonical listing, the listing
//            itself follows after ':' when the harness was started with -v
// Each route is run twice in the same child, on two runtimes that were built before the fork: the second
// result is only printed when it differs (NONDET).  The whole case runs in one forked child first; when
// that child does not come back with a line (CRASH <sig> | TIMEOUT | OOM | EXCEPTION | EXIT), every route
// is run again in a child of its own so that the failure is attributed:  <route>=CRASH:<sig> etc.  (for the first 25
// such cases of a harness process; after that the case as a whole is reported:  ANY=TIMEOUT etc.)
//
// routes
//   TOK     sqf::parser::sqf::tokenizer::next() until eof / invalid        listing  type,offset,length;
//   CTOK    sqf::parser::config::tokenizer::next() likewise
//   RD      preprocessorfileinfo::next() until NUL                          listing  the characters returned
//           payload additionally .<off> of the reader at the end
//   GW      preprocessorfileinfo::get_word() then get_line(true)            listing  word NUL line
//   DEF     impl_default::preprocess with out_macros: the macros defined by the text, sorted by name
//           listing  <namehex>[(<arghex>,...)]=<contenthex>;     (class NONE when preprocessing fails)
//   PP      parser_preprocessor().preprocess                                listing  the output text
//   SQF     parser_sqf().parse                                              listing  instruction to_string()s
//   CFG     parser_config().parse into the runtime's confighost             listing  (empty)
//   COMPILE / ASSEMBLY / PREPROCESS / CONFIGPARSE
//           the script   <op> "<text with doubled quotes>"   run to completion; class NONE iff an
//           error-level diagnostic was logged
#include "sqfrt.hpp"
#include "parser/sqf/tokenizer.hpp"
#include "parser/config/tokenizer.hpp"
#include <filesystem>
#include <fstream>
#include <chrono>
#include <algorithm>
using namespace vh;
namespace fs = std::filesystem;
namespace rt = sqf::runtime;

#if defined(__SANITIZE_ADDRESS__)
#define VH_MEM_MB 0
#define VH_SLOW 4
#define VH_STACK_MUL 32
#else
#define VH_MEM_MB 3072
#define VH_SLOW 1
#define VH_STACK_MUL 1
#endif
// the stack a main thread gets by default on Linux (8 MB); deep-nesting cases are judged against it.
// AddressSanitizer inflates the frames of to_assembly and friends by more than ten times (red zones around
// every local): that build gets 32 times the stack so that the same nesting depths fit.
static const size_t kStackMb = 8 * VH_STACK_MUL;
static bool g_verbose = false;

static std::string fnv(const std::string& s)
{
    unsigned long long h = 14695981039346656037ULL;
    for (unsigned char c : s) { h ^= c; h *= 1099511628211ULL; }
    char buf[32]; snprintf(buf, sizeof buf, "%016llx", h);
    return buf;
}
static std::string pay(size_t n, const std::string& listing, bool hexed = false)
{
    std::string r = std::to_string(n) + "." + fnv(listing);
    if (g_verbose) r += ":" + (hexed ? hex(listing) : (listing.empty() ? std::string("-") : listing));
    return r;
}
static std::string replace_all(std::string s, const std::string& a, const std::string& b)
{
    if (a.empty()) return s;
    size_t p = 0;
    while ((p = s.find(a, p)) != std::string::npos) { s.replace(p, a.size(), b); p += b.size(); }
    return s;
}
static std::string codes(const RecLogger& lg)
{
    std::string r;
    for (auto& m : lg.msgs) if (m.level <= 2) { if (!r.empty()) r += ","; r += std::to_string(m.level) + ":" + std::to_string(m.code); }
    return r.empty() ? "-" : r;
}
static bool has_error(const RecLogger& lg)
{
    for (auto& m : lg.msgs) if (m.level <= 1) return true;
    return false;
}
static std::string sqf_quote(const std::string& t)
{
    std::string r = "\"";
    for (char c : t) { r.push_back(c); if (c == '"') r.push_back('"'); }
    r.push_back('"');
    return r;
}

struct Ctx { std::string dir; std::string mainphys; };

template<class Tokenizer>
static std::string tok_route(const std::string& text)
{
    std::string copy = text;
    Tokenizer t(copy.begin(), copy.end(), "verif.sqf");
    std::string l;
    size_t n = 0;
    using E = typename Tokenizer::etoken;
    for (size_t guard = 0; guard < copy.size() + 2; guard++)
    {
        auto tok = t.next();
        l += std::to_string((int)tok.type) + "," + std::to_string(tok.offset) + "," + std::to_string(tok.contents.length()) + ";";
        n++;
        if (tok.type == E::eof || tok.type == E::invalid) break;
    }
    return "SOME|-|" + pay(n, l);
}

// one route on one runtime; returns class|codes|payload
static std::string route(const std::string& r, const std::string& text, VM& vm, const Ctx& cx)
{
    using PFI = sqf::parser::preprocessor::impl_default::preprocessorfileinfo;
    vm.lg.msgs.clear();
    rt::fileio::pathinfo pi{ std::string(cx.mainphys), std::string("/v/m.sqf") };
    if (r == "TOK") return tok_route<sqf::parser::sqf::tokenizer>(text);
    if (r == "CTOK") return tok_route<sqf::parser::config::tokenizer>(text);
    if (r == "RD")
    {
        PFI f(pi);
        f.content = text;
        std::string l;
        for (size_t guard = 0; guard < text.size() + 2; guard++)
        {
            char c = f.next();
            if (c == '\0') break;
            l.push_back(c);
        }
        return "SOME|-|" + pay(l.size(), l, true) + "." + std::to_string(f.off);
    }
    if (r == "GW")
    {
        PFI f(pi);
        f.content = text;
        std::string w = f.get_word();
        std::string ln = f.get_line(true);
        std::string l = w; l.push_back('\0'); l += ln;
        return "SOME|-|" + pay(l.size(), l, true) + "." + std::to_string(f.off);
    }
    if (r == "DEF")
    {
        auto& impl = dynamic_cast<sqf::parser::preprocessor::impl_default&>(vm.rt->parser_preprocessor());
        std::vector<rt::parser::macro> before, after;
        impl.preprocess(*vm.rt, std::string_view(""), pi, nullptr, &before);
        vm.lg.msgs.clear();
        auto pp = impl.preprocess(*vm.rt, text, pi, nullptr, &after);
        std::vector<std::string> items;
        for (auto& m : after)
        {
            bool builtin = false;
            for (auto& b : before) if (b.name() == m.name()) builtin = true;
            if (builtin) continue;
            std::string it = hex(std::string(m.name()));
            if (m.is_callable())
            {
                it += "(";
                for (size_t i = 0; i < m.args().size(); i++) { if (i) it += ","; it += hex(m.args()[i]); }
                it += ")";
            }
            it += "=" + hex(std::string(m.content())) + ";";
            items.push_back(it);
        }
        std::sort(items.begin(), items.end());
        std::string l;
        for (auto& it : items) l += it;
        return std::string(pp.has_value() ? "SOME|" : "NONE|") + codes(vm.lg) + "|" + pay(items.size(), l);
    }
    if (r == "PP")
    {
        auto pp = vm.rt->parser_preprocessor().preprocess(*vm.rt, text, pi);
        if (!pp.has_value()) return "NONE|" + codes(vm.lg) + "|0." + fnv("");
        auto out = replace_all(*pp, cx.dir, "/T");
        return "SOME|" + codes(vm.lg) + "|" + pay(out.size(), out, true);
    }
    if (r == "SQF")
    {
        auto set = vm.rt->parser_sqf().parse(*vm.rt, text, pi);
        if (!set.has_value()) return "NONE|" + codes(vm.lg) + "|0." + fnv("");
        std::string l; size_t n = 0;
        for (auto it = set->begin(); it != set->end(); ++it) { l += (*it)->to_string(); l += "\n"; n++; }
        return "SOME|" + codes(vm.lg) + "|" + pay(n, l, true);
    }
    if (r == "CFG")
    {
        bool ok = vm.rt->parser_config().parse(vm.rt->confighost(), text, pi);
        return std::string(ok ? "SOME|" : "NONE|") + codes(vm.lg) + "|0." + fnv("");
    }
    const char* op = r == "COMPILE" ? "compile" : r == "ASSEMBLY" ? "assembly__" : r == "PREPROCESS" ? "preprocess__" : r == "CONFIGPARSE" ? "configparse__" : nullptr;
    if (op)
    {
        std::string script = std::string("vf_res = ") + op + " " + sqf_quote(text);
        if (!vm.load(script, false, "verif.sqf")) return "NONE|" + codes(vm.lg) + "|LOADFAIL";
        int res = vm.start();
        // a run that ended in a runtime error leaves its context behind: drop it for the next route
        if (vm.state() != (int)rt::runtime::state::empty) vm.rt->execute(rt::runtime::action::abort);
        return std::string(has_error(vm.lg) ? "NONE|" : "SOME|") + codes(vm.lg) + "|" + std::to_string(res);
    }
    return "BADROUTE|-|-";
}

static const char* kAll[] = { "TOK", "CTOK", "RD", "GW", "DEF", "PP", "SQF", "CFG", "COMPILE", "ASSEMBLY", "PREPROCESS", "CONFIGPARSE" };

int main(int argc, char** argv)
{
    for (int i = 1; i < argc; i++) if (std::string(argv[i]) == "-v") g_verbose = true;
    std::string tmpl = "/tmp/verif_front_XXXXXX";
    char* d = mkdtemp(tmpl.data());
    if (!d) { std::cerr << "mkdtemp failed\n"; return 2; }
    fs::path dir(d);
    Ctx cx{ dir.string(), (dir / "m.sqf").string() };
    // two runtimes, built before the fork: every child starts from the same two fresh instances
    VM vm1(0, true), vm2(0, true);
    vm1.rt->fileio().add_mapping(cx.dir, "/v");
    vm2.rt->fileio().add_mapping(cx.dir, "/v");
    std::string line;
    while (std::getline(std::cin, line))
    {
        auto f = split(line);
        if (f.size() != 3) { std::cout << "BADLINE\n"; continue; }
        std::vector<std::string> routes;
        if (f[0] == "ALL") for (auto r : kAll) routes.push_back(r); else routes = split(f[0], ',');
        std::string text = unhex(f[1]);
        for (auto& e : fs::directory_iterator(dir)) fs::remove_all(e.path());
        if (f[2] != "-")
            for (auto& kv : split(f[2], ';'))
            {
                auto p = kv.find('=');
                if (p == std::string::npos) continue;
                fs::path fp = dir / unhex(kv.substr(0, p));
                fs::create_directories(fp.parent_path());
                std::ofstream o(fp, std::ios::binary);
                std::string content = unhex(kv.substr(p + 1));
                o.write(content.data(), (std::streamsize)content.size());
            }
        { std::ofstream o(dir / "m.sqf", std::ios::binary); o.write(text.data(), (std::streamsize)text.size()); }
        auto one = [&](const std::string& r) -> std::string {
            // peak resident memory of this child before and after the route: the high-water mark only rises, so the
            // difference is what this route needed beyond everything that ran before it in the child (a case of the
            // scaling family has one route, its difference is the route's own peak)
            struct rusage ru0, ru1;
            getrusage(RUSAGE_SELF, &ru0);
            if (r.rfind("2x", 0) == 0)
            {   // determinism inside ONE runtime: the route twice on vm1 (same parser objects, same path), then on the fresh vm2
                std::string base = r.substr(2);
                auto t0 = std::chrono::steady_clock::now();
                std::string a = route(base, text, vm1, cx);
                auto t1 = std::chrono::steady_clock::now();
                std::string a2 = route(base, text, vm1, cx);
                std::string b = route(base, text, vm2, cx);
                getrusage(RUSAGE_SELF, &ru1);
                long ms = (long)std::chrono::duration_cast<std::chrono::milliseconds>(t1 - t0).count();
                std::string res = r + "=" + a + "|" + std::to_string(ms) + "|" + std::to_string(ru1.ru_maxrss - ru0.ru_maxrss);
                if (a2 != a) res += "|RUN2:" + a2;
                if (b != a) res += "|FRESH:" + b;
                return res;
            }
            auto t0 = std::chrono::steady_clock::now();
            std::string a = route(r, text, vm1, cx);
            auto t1 = std::chrono::steady_clock::now();
            std::string b = route(r, text, vm2, cx);
            getrusage(RUSAGE_SELF, &ru1);
            long ms = (long)std::chrono::duration_cast<std::chrono::milliseconds>(t1 - t0).count();
            long kb = ru1.ru_maxrss - ru0.ru_maxrss;
            std::string res = r + "=" + a + "|" + std::to_string(ms) + "|" + std::to_string(kb);
            if (a != b) res += "|NONDET:" + b;
            return res;
        };
        // time per route (both runs): 1.5 s plus 5 s per 64 KB of input - the property's "5 s per 64 KB" with a floor that
        // keeps a run on a badly broken tree short; sanitizer builds get VH_SLOW times that
        int per_route = VH_SLOW * (int)(1500 + 5000.0 * (double)text.size() / 65536.0);
        auto res = forked([&]() -> std::string {
            std::string out;
            for (auto& r : routes) { if (!out.empty()) out += "\t"; out += one(r); }
            return out;
        }, per_route, VH_MEM_MB, kStackMb);
        bool lost = res.rfind("CRASH", 0) == 0 || res.rfind("TIMEOUT", 0) == 0 || res.rfind("OOM", 0) == 0 ||
                    res.rfind("EXCEPTION", 0) == 0 || res.rfind("EXIT", 0) == 0 || res.rfind("HARNESS", 0) == 0 || res.empty();
        static int lost_cases = 0;
        if (lost && routes.size() > 1 && ++lost_cases > 25)
        {   // a badly broken tree: after 25 attributed failures of this process the failure is reported for the case as a whole
            for (auto& c : res) if (c == '\t') c = ':';
            res = "ANY=" + (res.empty() ? std::string("LOST") : res);
        }
        else if (lost && routes.size() > 1)
        {
            std::string out;
            for (auto& r : routes)
            {
                auto x = forked([&]() -> std::string { return one(r); }, per_route, VH_MEM_MB, kStackMb);
                bool l2 = x.rfind(r + "=", 0) != 0;
                if (l2) { for (auto& c : x) if (c == '\t') c = ':'; x = r + "=" + (x.empty() ? std::string("LOST") : x); }
                if (!out.empty()) out += "\t";
                out += x;
            }
            res = out;
        }
        else if (lost)
        {
            for (auto& c : res) if (c == '\t') c = ':';
            res = routes[0] + "=" + (res.empty() ? std::string("LOST") : res);
        }
        std::cout << res << "\n";
        std::cout.flush();
    }
    fs::remove_all(dir);
    return 0;
}
