// C06 (value half) correspondence harness: the real d_scalar / d_string / d_array printers, the
// real tokenizer + parser + VM on the text they print, and a libc sweep.
// stdin, one case per line (same protocol as ocaml/num_driver.ml):
//   FMT \t <8 hex>        d_scalar(float).to_string_sqf()                      -> hex text
//   RT  \t <value>        value built through the public data classes, stored in a global, then the VM runs
//                         c06_s = str c06_v; c06_c = call compile c06_s; c06_e = c06_c isEqualTo c06_v;
//                                                                             -> hex c06_s \t result c06_c \t c06_e \t diag
//   LIT \t <hex text>     c06_c = call compile c06_t  (c06_t = the text)       -> result c06_c \t warn(20022) \t diag
//   SWEEP \t e0 \t e1 \t m0 \t m1 \t step   pure libc: every decimal d = m * 10^e (m0 <= m < m1, m += step; e0 <= e <= e1)
//                         strtof(d) = y, (float)strtod(d) = y, snprintf("%g", y) parsed again = y and spells m*10^e
//                                                                             -> SWEEP \t n \t fails \t first failure
//   HIST \t <pool> \t <K> \t <hex script>   a history: the pool values (';' separated <value>s, built through the public
//                         data classes) are stored in the globals c06_p0, c06_p1, ..; the VM runs the script, which
//                         leaves, for each of its K observations k, c06_t<k> = str <operand> (taken at that point of the
//                         history), c06_v<k> = a snapshot of the operand at that point (deep copy), c06_c<k> = the text
//                         compiled and evaluated, c06_e<k> = c06_c<k> isEqualTo c06_v<k>
//                                                  -> K groups  hex c06_t<k> \t result c06_v<k> \t result c06_c<k> \t c06_e<k>,  then diag
//                         (a code value is reported as OK K)
// <value> = B0 | B1 | S<hex> | N<8 hex> | A<n> v1 .. vn (blank separated); result = OK <value> | FAIL <why>
// NaN results are printed Nnan. Every VM case runs in a forked child of a process that holds a ready VM.
#include "sqfrt.hpp"
#include "runtime/d_scalar.h"
#include "runtime/d_string.h"
#include "runtime/d_boolean.h"
#include "runtime/d_array.h"
#include "runtime/d_code.h"
#include <cmath>
#include <cstdint>
#include <cstdlib>
using namespace vh;
using sqf::runtime::value;
using namespace sqf::types;

// an address-space limit cannot be combined with AddressSanitizer's shadow mappings
#if defined(__SANITIZE_ADDRESS__)
static const size_t MEM_MB = 0;
#else
static const size_t MEM_MB = 2048;
#endif

static float f_of_bits(uint32_t b) { float f; std::memcpy(&f, &b, 4); return f; }
static uint32_t bits_of_f(float f) { uint32_t b; std::memcpy(&b, &f, 4); return b; }

static value build(const std::vector<std::string>& t, size_t& i)
{
    if (i >= t.size()) throw std::runtime_error("value");
    std::string s = t[i++];
    std::string body = s.substr(1);
    switch (s[0])
    {
    case 'B': return value(std::make_shared<d_boolean>(body == "1"));
    case 'S': return value(std::make_shared<d_string>(unhex(body)));
    case 'N': return value(std::make_shared<d_scalar>(f_of_bits((uint32_t)std::stoul(body, nullptr, 16))));
    case 'A':
    {
        size_t n = std::stoul(body);
        std::vector<value> v;
        for (size_t k = 0; k < n; k++) v.push_back(build(t, i));
        return value(std::make_shared<d_array>(v));
    }
    }
    throw std::runtime_error("value");
}

static bool enc(const value& v, std::string& out)
{
    if (v.empty()) { out = "nil"; return false; }
    if (auto b = v.data_try<d_boolean>()) { out += b->value() ? "B1" : "B0"; return true; }
    if (auto s = v.data_try<d_string>()) { out += "S" + hex(s->value()); return true; }
    if (auto n = v.data_try<d_scalar>())
    {
        float f = n->value();
        if (std::isnan(f)) { out += "Nnan"; return true; }
        char buf[16]; std::snprintf(buf, sizeof buf, "N%08x", bits_of_f(f)); out += buf; return true;
    }
    if (auto a = v.data_try<d_array>())
    {
        out += "A" + std::to_string(a->value().size());
        for (auto& e : a->value()) { out += " "; if (!enc(e, out)) return false; }
        return true;
    }
    out = "type " + std::string(v.type().to_string());
    return false;
}
static std::string result(const value& v)
{
    std::string o;
    if (enc(v, o)) return "OK " + o;
    return "FAIL " + o;
}

static std::string result_h(const value& v)
{
    if (!v.empty() && v.data_try<d_code>()) return "OK K";
    return result(v);
}

static std::string sweep(long e0, long e1, long m0, long m1, long step)
{
    long n = 0, fails = 0; std::string first = "-";
    char txt[64], out[64], want[64];
    for (long e = e0; e <= e1; e++)
        for (long m = m0; m < m1; m += step)
        {
            std::snprintf(txt, sizeof txt, "%lde%ld", m, e);
            float y = std::strtof(txt, nullptr);
            float y2 = (float)std::strtod(txt, nullptr);
            std::snprintf(out, sizeof out, "%g", y);
            float z = std::strtof(out, nullptr);
            float z2 = (float)std::strtod(out, nullptr);
            // the printed text must spell the same decimal: compare with %g of the decimal itself in long double
            std::snprintf(want, sizeof want, "%.6Lg", std::strtold(txt, nullptr));
            n++;
            bool normal = std::fabs(y) >= 1.17549435e-38f && !std::isinf(y);
            bool ok = bits_of_f(y) == bits_of_f(y2) && bits_of_f(z) == bits_of_f(y) && bits_of_f(z2) == bits_of_f(y)
                      && (!normal || std::string(out) == want);
            if (!ok) { fails++; if (first == "-") first = std::string(txt) + " -> " + out; }
        }
    return "SWEEP\t" + std::to_string(n) + "\t" + std::to_string(fails) + "\t" + hex(first);
}

int main()
{
    VM vm;   // built once; every case works on its own copy-on-write image
    std::string line;
    while (std::getline(std::cin, line))
    {
        auto f = split(line);
        std::string res;
        if (f.size() == 2 && f[0] == "FMT")
        {
            uint32_t bits = (uint32_t)std::stoul(f[1], nullptr, 16);
            res = forked([&]() -> std::string { d_scalar d(f_of_bits(bits)); return hex(d.to_string_sqf()); }, 5000, MEM_MB);
        }
        else if (f.size() == 2 && f[0] == "RT")
        {
            res = forked([&]() -> std::string {
                auto toks = split(f[1], ' ');
                size_t i = 0;
                value v = build(toks, i);
                auto ns = vm.rt->default_value_scope();
                ns->at("c06_v") = v;
                if (!vm.load("c06_s = str c06_v; c06_c = call compile c06_s; c06_e = c06_c isEqualTo c06_v;")) return "LOADFAIL";
                vm.start();
                auto s = ns->at("c06_s"); auto c = ns->at("c06_c"); auto e = ns->at("c06_e");
                std::string o = s.data_try<d_string>() ? hex(s.data_try<d_string>()->value()) : "NOSTR";
                o += "\t" + result(c);
                o += "\t" + std::string(e.data_try<d_boolean>() ? (e.data_try<d_boolean>()->value() ? "true" : "false") : "noval");
                o += "\t" + vm.lg.codes();
                // toFixed is a process-wide setting (d_scalar::s_decimals): must still be the default here
                return o;
            }, 10000, MEM_MB);
        }
        else if (f.size() == 2 && f[0] == "LIT")
        {
            res = forked([&]() -> std::string {
                auto ns = vm.rt->default_value_scope();
                ns->at("c06_t") = value(std::make_shared<d_string>(unhex(f[1])));
                if (!vm.load("c06_c = call compile c06_t;")) return "LOADFAIL";
                vm.start();
                auto c = ns->at("c06_c");
                bool warn = false;
                for (auto& m : vm.lg.msgs) if (m.code == 20022) warn = true;
                return result(c) + "\t" + (warn ? "1" : "0") + "\t" + vm.lg.codes();
            }, 10000, MEM_MB);
        }
        else if (f.size() == 4 && f[0] == "HIST")
        {
            res = forked([&]() -> std::string {
                auto ns = vm.rt->default_value_scope();
                auto pool = split(f[1], ';');
                for (size_t j = 0; j < pool.size(); j++)
                {
                    auto toks = split(pool[j], ' ');
                    size_t i = 0;
                    ns->at("c06_p" + std::to_string(j)) = build(toks, i);
                }
                size_t K = std::stoul(f[2]);
                if (!vm.load(unhex(f[3]))) return "LOADFAIL";
                vm.start();
                std::string o;
                for (size_t k = 0; k < K; k++)
                {
                    auto n = std::to_string(k);
                    auto s = ns->at("c06_t" + n); auto v = ns->at("c06_v" + n); auto c = ns->at("c06_c" + n); auto e = ns->at("c06_e" + n);
                    o += (!s.empty() && s.data_try<d_string>()) ? hex(s.data_try<d_string>()->value()) : std::string("NOSTR");
                    o += "\t" + result_h(v) + "\t" + result_h(c);
                    o += "\t" + std::string((!e.empty() && e.data_try<d_boolean>()) ? (e.data_try<d_boolean>()->value() ? "true" : "false") : "noval");
                    o += "\t";
                }
                return o + vm.lg.codes();
            }, 20000, MEM_MB);
        }
        else if (f.size() == 6 && f[0] == "SWEEP")
        {
            res = forked([&]() -> std::string {
                return sweep(std::stol(f[1]), std::stol(f[2]), std::stol(f[3]), std::stol(f[4]), std::stol(f[5]));
            }, 3000000, MEM_MB);
        }
        else res = "BADLINE";
        std::cout << res << "\n";
        std::cout.flush();
    }
    return 0;
}
