// C15 correspondence harness: loads config texts into a real runtime (the way
// src/export/sqfvm.cpp sqfvm_load_config does, without the preprocessor) and evaluates
// SQF observation chunks on it.  The harness knows nothing about the model: it loads
// text, runs text, and reports what diag_log printed plus the diagnostics' level:code.
//
// stdin, one case per line:   <cfgs> \t <chunks>
//     cfgs   = hex config texts joined by ','   ("-" = empty text is still one load; "" = no load)
//     chunks = <parent>:<hex sqf> joined by ','  (parent = index of the chunk whose lookup path is a
//              prefix of this one's, or -1; used only to skip chunks below a lookup that hung)
//              histories (values kept across loads) use two more kinds of item in the same list, run in order on the one VM:
//                L:<hex cfg>  a further config text is loaded NOW (between two scripts, the way a second
//                             sqfvm_load_config arrives between two sqfvm_call); its result stands in the chunk's place
//                K:<hex sqf>  a script whose effects on the VM (global variables, configparse__) the later items rely on
// stdout, one line per case:  R \t <loads> \t <chunk results joined by \t>
//     loads  = per load  ok:<codes> | fail:<codes> | HANG | CRASH:<sig>   joined by ','
//              (after HANG/CRASH nothing else is run: the state of the host is unknown)
//     chunk  = <hex of diag_log lines joined by \n>:<codes>  |  TIMEOUT | CRASH:<sig> | SKIP | NORUN
//              (an L item: ok:<codes> | fail:<codes> | HANG | CRASH:<sig>)
//
// Every case runs in a forked child with a watchdog.  When that child hangs or dies the
// case is re-run in "careful" mode: every load and every chunk in its own grandchild, so
// that the one non-terminating lookup is identified (TIMEOUT) and the others still report.
#include "sqfrt.hpp"
#include <cstdlib>
using namespace vh;

struct Chunk { int parent; std::string sqf; char kind = 'C'; };   // kind: C lookup chunk, L config text, K script with effects
// address-space cap per child (MB); none under AddressSanitizer, whose shadow mappings need the room
#ifdef __SANITIZE_ADDRESS__
static const size_t MEM_MB = 0;
#else
static const size_t MEM_MB = 1024;
#endif

static std::string codes_from(const RecLogger& lg, size_t from, size_t to, int max_level = 2)
{
    std::string r;
    for (size_t i = from; i < to && i < lg.msgs.size(); i++)
    {
        auto& m = lg.msgs[i];
        if (m.level <= max_level) { if (!r.empty()) r += ";"; r += std::to_string(m.level) + "." + std::to_string(m.code); }
    }
    return r.empty() ? "-" : r;
}

static std::string do_load(VM& vm, const std::string& text, size_t k)
{
    size_t before = vm.lg.msgs.size();
    sqf::runtime::fileio::pathinfo pi{ std::string("cfg") + std::to_string(k) + ".cpp", std::string() };
    bool ok = vm.rt->parser_config().parse(vm.rt->confighost(), text, pi);
    return std::string(ok ? "ok:" : "fail:") + codes_from(vm.lg, before, vm.lg.msgs.size());
}

// runs one script, returns "<hex infos>:<codes>"
static std::string run_script(VM& vm, const std::string& sqf)
{
    size_t before = vm.lg.msgs.size();
    if (!vm.load(sqf)) return "PARSEFAIL:" + codes_from(vm.lg, before, vm.lg.msgs.size());
    vm.start();
    // an error-level diagnostic halts the script (state halted_error); drop what is left of it
    if (vm.rt->runtime_state() != sqf::runtime::runtime::state::empty) vm.rt->execute(sqf::runtime::runtime::action::abort);
    std::string out;
    bool first = true;
    for (size_t i = before; i < vm.lg.msgs.size(); i++)
    {
        auto& m = vm.lg.msgs[i];
        if (m.level == 3 && m.code != 60095) { if (!first) out += "\n"; first = false;
            // text is "<location>\t[DIAG_LOG] <printed value>"
            auto p = m.text.find("[DIAG_LOG] ");
            out += p == std::string::npos ? m.text : m.text.substr(p + 11); }
    }
    return hex(out) + ":" + codes_from(vm.lg, before, vm.lg.msgs.size());
}

static std::string fast(const std::vector<std::string>& cfgs, const std::vector<Chunk>& chunks)
{
    VM vm(0);
    std::string loads;
    for (size_t k = 0; k < cfgs.size(); k++) { if (k) loads += ","; loads += do_load(vm, cfgs[k], k); }
    std::string res = "R\t" + loads;
    // one VM, one script per chunk (each script is its own context; the config host persists)
    size_t k = cfgs.size();
    for (auto& c : chunks) res += "\t" + (c.kind == 'L' ? do_load(vm, c.sqf, k++) : run_script(vm, c.sqf));
    return res;
}

static std::string careful(const std::vector<std::string>& cfgs, const std::vector<Chunk>& chunks, int step_ms)
{
    VM vm(0);
    std::string loads;
    bool dead = false;
    for (size_t k = 0; k < cfgs.size() && !dead; k++)
    {
        if (k) loads += ",";
        // try the load in a grandchild first; only a load that returned is repeated here
        auto probe = forked([&]() -> std::string { return do_load(vm, cfgs[k], k); }, step_ms, MEM_MB);
        if (probe == "TIMEOUT") { loads += "HANG"; dead = true; }
        else if (probe.rfind("CRASH", 0) == 0 || probe.rfind("EXIT", 0) == 0 || probe == "OOM" || probe.rfind("EXCEPTION", 0) == 0)
        {
            std::string p = probe; for (auto& ch : p) if (ch == '\t') ch = ':';
            loads += p; dead = true;
        }
        else loads += do_load(vm, cfgs[k], k);
    }
    std::string res = "R\t" + loads;
    std::vector<int> hung(chunks.size(), 0);
    size_t nload = cfgs.size();
    for (size_t i = 0; i < chunks.size(); i++)
    {
        if (dead) { res += "\tNORUN"; continue; }
        if (chunks[i].kind != 'C')
        {
            // an item with effects: tried in a grandchild first, repeated here only when it returned there
            bool isload = chunks[i].kind == 'L';
            auto probe = forked([&]() -> std::string { return isload ? do_load(vm, chunks[i].sqf, nload) : run_script(vm, chunks[i].sqf); }, step_ms * 10, MEM_MB);
            bool bad = probe == "TIMEOUT" || probe.rfind("CRASH", 0) == 0 || probe.rfind("EXIT", 0) == 0 || probe == "OOM" || probe.rfind("EXCEPTION", 0) == 0;
            if (bad)
            {
                for (auto& ch : probe) if (ch == '\t') ch = ':';
                res += "\t" + (isload && probe == "TIMEOUT" ? std::string("HANG") : probe); dead = true; continue;
            }
            res += "\t" + (isload ? do_load(vm, chunks[i].sqf, nload) : run_script(vm, chunks[i].sqf));
            if (isload) nload++;
            continue;
        }
        int p = chunks[i].parent;
        if (p >= 0 && (size_t)p < i && hung[(size_t)p]) { hung[i] = 1; res += "\tSKIP"; continue; }
        auto r = forked([&]() -> std::string { return run_script(vm, chunks[i].sqf); }, step_ms, MEM_MB);
        if (r == "TIMEOUT") hung[i] = 1;
        for (auto& ch : r) if (ch == '\t') ch = ':';
        res += "\t" + r;
    }
    return res;
}

int main(int argc, char** argv)
{
    int case_ms = 20000, step_ms = 400;
    if (const char* e = getenv("VH_STEP_MS")) step_ms = atoi(e);
    if (const char* e = getenv("VH_CASE_MS")) case_ms = atoi(e);
    std::string line;
    while (std::getline(std::cin, line))
    {
        auto f = split(line);
        if (f.size() != 2) { std::cout << "BADLINE\n"; continue; }
        std::vector<std::string> cfgs;
        if (!f[0].empty()) for (auto& h : split(f[0], ',')) cfgs.push_back(unhex(h));
        std::vector<Chunk> chunks;
        if (!f[1].empty()) for (auto& c : split(f[1], ','))
        {
            auto p = c.find(':');
            if (p == std::string::npos) { chunks.push_back({ -1, unhex(c) }); continue; }
            if (p == 1 && (c[0] == 'L' || c[0] == 'K')) { chunks.push_back({ -1, unhex(c.substr(2)), c[0] }); continue; }
            chunks.push_back({ atoi(c.substr(0, p).c_str()), unhex(c.substr(p + 1)) });
        }
        auto r = forked([&]() -> std::string { return fast(cfgs, chunks); }, case_ms, MEM_MB);
        if (r.rfind("R\t", 0) != 0)
        {
            // hang, crash, abort: find out where
            auto r2 = forked([&]() -> std::string { return careful(cfgs, chunks, step_ms); }, 600000, MEM_MB);
            if (r2.rfind("R\t", 0) != 0) { for (auto& ch : r) if (ch == '\t') ch = ':'; for (auto& ch : r2) if (ch == '\t') ch = ':'; r2 = "LOST\t" + r + "\t" + r2; }
            r = r2;
        }
        std::cout << r << "\n";
        std::cout.flush();
    }
    return 0;
}
