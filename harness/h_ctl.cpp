// C19 harness: sequences of control actions (runtime::execute(action)) on one runtime, sequentially and
// with a second thread, through public members only.
//
//   h_ctl tree   stdin: "<base>\t<hex sqf text>\t<depth>\t<alphabet>"
//                stdout: "<obs of the base state>;<path>=<obs>;<path>=<obs>;..."   (DFS pre-order over every action
//                sequence of length <= depth over the alphabet; every node runs in its own forked child of the
//                node before it, so a crash or hang is the observation of that node only: "<path>=CRASH <sig>")
//   h_ctl seq    stdin: "<base>\t<hex sqf text>\t<actions>"      stdout: "<obs base>;<obs 1>;<obs 2>;..."  (every action in a forked child of the previous one)
//   h_ctl lines  stdin: "<hex sqf text>"   stdout: listing \t diag table  (line.column.offset per instruction, nested like the listing)
//   h_ctl conc   stdin: "<hex sqf text>\t<park point k>\t<controller actions>\t<release: r|n>"
//                stdout: "P<parked?>;<obs of controller action 1>;...;R<start result>:<state>:<marks before park>:<marks after the accepted request>:<nctx>"
//                The script calls the nular operators verif_park__ / verif_mark__ which this harness registers through the
//                public register_sqfop: the executor thread (execute(start)) blocks inside the k-th verif_park__ until the
//                controller thread has issued its actions.
//
//   h_ctl race   stdin: "<hex sqf text>\t<controller actions>"   the executor runs freely (no handshake); for ThreadSanitizer
//                stdout: "<result>;...R<start result>:<state>:<marks executed after the controller was done>"
//
//   h_ctl sleepers stdin: "<hex sqf text>\t<controller actions>"   the main script ends with verif_mark__, every other script sleeps
//                far into the future; the controller acts while the executor spins over sleeping scripts only
//                stdout: "<result>:<state>;...R<start result or -99>:<state>:<1 if start() returned>:<CPU ms of the executor thread since the actions>[;N<result>:<state>]"
//
//   h_ctl steps  stdin: "<hex sqf text>\t<actions>"   the script may call the nular operators verif_m0__ .. verif_m9__ (registered here):
//                each appends its digit to the marks, so that the execution of that ONE instruction is visible from outside.
//                stdout: "<sobs of the loaded script>;<sobs after action 1>;..."   (the whole sequence in one forked child)
//                sobs = <result>:<state>:<marks so far or ->:<number of frames of context 0>:<hex of the instruction the top frame
//                       of context 0 executes next, or - at the end of its code>:<its line>:<its file offset>:<pos of every frame>
//
//   base:    E = nothing loaded, L = script loaded (never started), F = loaded and run to the end by start,
//            X = loaded and started (the script is expected to fail: halted_error)
//   actions: s start, t stop, a abort, p assembly_step, l line_step, v leave_scope
//   obs:     <result>:<state>:<number of contexts>:<active context index or ->:<values of context 0>:<pos/base of every frame of context 0, top first>
// no virtual clock here: nothing in these scenarios depends on time (max_runtime = 0, no sleeping script), and the
// interposed clock of sqfrt.hpp is a plain variable that two threads would race on
#include "sqfrt.hpp"
#include "opcodes/common.h"
#include "runtime/d_code.h"
#include <thread>
#include <pthread.h>
#include <time.h>
#include <mutex>
#include <condition_variable>
#include <atomic>
using namespace vh;
using rt_t = sqf::runtime::runtime;

#if defined(__SANITIZE_ADDRESS__) || defined(__SANITIZE_THREAD__)
#define CTL_MEM_MB 0
#else
#define CTL_MEM_MB 4096
#endif

static rt_t::action action_of(char c)
{
    switch (c)
    {
    case 's': return rt_t::action::start;
    case 't': return rt_t::action::stop;
    case 'a': return rt_t::action::abort;
    case 'p': return rt_t::action::assembly_step;
    case 'l': return rt_t::action::line_step;
    case 'v': return rt_t::action::leave_scope;
    default: return rt_t::action::invalid;
    }
}

static std::string observe(int res, VM& vm)
{
    std::string o = std::to_string(res) + ":" + std::to_string(vm.state()) + ":";
    size_t n = 0, idx = 0;
    std::string active = "-";
    auto act = vm.rt->context_active_as_shared();
    for (auto it = vm.rt->context_begin(); it != vm.rt->context_end(); ++it, ++idx)
    {
        n++;
        if (act && it->get() == act.get()) active = std::to_string(idx);
    }
    o += std::to_string(n) + ":" + active + ":";
    if (n == 0) return o + "-";
    auto& ctx = **vm.rt->context_begin();
    o += std::to_string(ctx.values_size()) + ":";
    bool first = true;
    for (auto it = ctx.frames_rbegin(); it != ctx.frames_rend(); ++it)
    {
        if (!first) o += ",";
        first = false;
        o += std::to_string((unsigned long long)(it->position() + 1)) + "/" + std::to_string(it->value_stack_pos());
    }
    return o;
}

static std::string listing(const sqf::runtime::instruction_set& set)
{
    std::string o;
    bool first = true;
    for (auto& in : set)
    {
        if (!first) o += ";";
        first = false;
        if (auto p = dynamic_cast<const sqf::opcodes::push*>(in.get()))
        {
            if (p->value().is<sqf::runtime::t_code>())
            {
                o += "PUSHCODE[" + listing(p->value().data<sqf::types::d_code, sqf::runtime::instruction_set>()) + "]";
                continue;
            }
        }
        o += in->to_string();
    }
    return o;
}
// files of the instructions, numbered in order of first appearance in the dump
static std::vector<std::string> g_files;
static size_t file_index(const std::string& physical)
{
    for (size_t i = 0; i < g_files.size(); i++) if (g_files[i] == physical) return i;
    g_files.push_back(physical);
    return g_files.size() - 1;
}
static std::string diagtable(const sqf::runtime::instruction_set& set)
{
    std::string o;
    bool first = true;
    for (auto& in : set)
    {
        if (!first) o += ",";
        first = false;
        auto d = in->diag_info();
        o += std::to_string(d.line) + "." + std::to_string(d.column) + "." + std::to_string(d.file_offset) + "." + std::to_string(file_index(d.path.physical));
        if (auto p = dynamic_cast<const sqf::opcodes::push*>(in.get()))
            if (p->value().is<sqf::runtime::t_code>())
                o += "[" + diagtable(p->value().data<sqf::types::d_code, sqf::runtime::instruction_set>()) + "]";
    }
    return o;
}

// A script field is "<hex text>" or "<hex main text>;<hex name>=<hex content>;..." : with files, they are written to a scratch
// directory mapped as /v, the main text (which includes them as "/v/<name>") is preprocessed as /v/main.sqf and then parsed,
// so that the instructions carry the path of the file they come from.
static std::string g_scratch;
static std::optional<sqf::runtime::instruction_set> parse_script(VM& vm, const std::string& field)
{
    auto parts = split(field, ';');
    if (parts.size() == 1)
        return vm.rt->parser_sqf().parse(*vm.rt, unhex(parts[0]), sqf::runtime::fileio::pathinfo(std::string("verif.sqf"), std::string()));
    if (g_scratch.empty()) return {};      // made by main() before the fork, removed when the harness ends
    auto put = [&](const std::string& name, const std::string& content) {
        FILE* fp = fopen((g_scratch + "/" + name).c_str(), "wb");
        if (fp) { fwrite(content.data(), 1, content.size(), fp); fclose(fp); }
    };
    std::string maintext = unhex(parts[0]);
    put("main.sqf", maintext);
    for (size_t k = 1; k < parts.size(); k++)
    {
        auto e = parts[k].find('=');
        if (e == std::string::npos) return {};
        put(unhex(parts[k].substr(0, e)), unhex(parts[k].substr(e + 1)));
    }
    vm.rt->fileio().add_mapping(g_scratch, "/v");
    sqf::runtime::fileio::pathinfo pi{ std::string(g_scratch + "/main.sqf"), std::string("/v/main.sqf") };
    auto pp = vm.rt->parser_preprocessor().preprocess(*vm.rt, maintext, pi);
    if (!pp.has_value()) return {};
    return vm.rt->parser_sqf().parse(*vm.rt, *pp, pi);
}
static bool load_script(VM& vm, const std::string& field)
{
    auto set = parse_script(vm, field);
    if (!set.has_value()) return false;
    auto ctx = vm.rt->context_create().lock();
    sqf::runtime::frame f(vm.rt->default_value_scope(), set.value());
    ctx->push_frame(f);
    return true;
}
static void drop_scratch()
{
    if (g_scratch.empty()) return;
    std::string cmd = "rm -rf '" + g_scratch + "'";
    if (system(cmd.c_str()) != 0) {}
    g_scratch.clear();
}

// brings a fresh VM into the base state; returns the observation of that state ("BASEFAIL" if the script does not parse)
static std::string to_base(VM& vm, char base, const std::string& field)
{
    if (base != 'E')
    {
        if (!load_script(vm, field)) return "PARSEFAIL";
    }
    int r = 0;
    if (base == 'F' || base == 'X') r = vm.start();
    return observe(r, vm);
}

static int do_action(VM& vm, char c)
{
    // a hanging action ends this child: the parent reports CRASH 14
    alarm(10);
    int r = (int)vm.rt->execute(action_of(c));
    alarm(0);
    return r;
}

static void tree(VM& vm, const std::string& path, size_t depth, const std::string& alphabet, std::string& out)
{
    if (path.size() >= depth) return;
    for (char c : alphabet)
    {
        std::string p = path + c;
        // the child continues from the parent's machine (copy-on-write), acts, reports, and explores its own subtree
        auto sub = forked([&]() -> std::string {
            int r = do_action(vm, c);
            std::string o = ";" + p + "=" + observe(r, vm);
            tree(vm, p, depth, alphabet, o);
            return o;
        }, 600000, CTL_MEM_MB);
        if (sub.empty() || sub[0] != ';')
        {
            for (auto& ch : sub) if (ch == '\t' || ch == ';') ch = ' ';
            out += ";" + p + "=" + sub;
        }
        else out += sub;
    }
}

// one action sequence, every action in a forked child of the one before it (a crash is the observation of that action only)
static void follow(VM& vm, const std::string& acts, size_t i, std::string& out)
{
    while (i < acts.size() && acts[i] == '-') i++;
    if (i >= acts.size()) return;
    auto sub = forked([&]() -> std::string {
        int r = do_action(vm, acts[i]);
        std::string o = ";" + observe(r, vm);
        follow(vm, acts, i + 1, o);
        return o;
    }, 600000, CTL_MEM_MB);
    if (sub.empty() || sub[0] != ';')
    {
        for (auto& ch : sub) if (ch == '\t' || ch == ';') ch = ' ';
        out += ";" + sub;
    }
    else out += sub;
}

// ------------------------------------------------------------------ single steps with visible instructions
static std::string g_marks;
template<int K> static sqf::runtime::value op_digit(rt_t&) { g_marks.push_back((char)('0' + K)); return {}; }
static sqf::runtime::sqfop_nular::callback g_digit_ops[10] = { op_digit<0>, op_digit<1>, op_digit<2>, op_digit<3>, op_digit<4>, op_digit<5>, op_digit<6>, op_digit<7>, op_digit<8>, op_digit<9> };
static std::string step_observe(int res, VM& vm)
{
    std::string o = std::to_string(res) + ":" + std::to_string(vm.state()) + ":" + (g_marks.empty() ? "-" : g_marks) + ":";
    if (vm.rt->context_begin() == vm.rt->context_end()) return o + "0:-:0:0:";
    auto& ctx = **vm.rt->context_begin();
    o += std::to_string(ctx.frames_size()) + ":";
    bool ok = false;
    if (!ctx.empty())
    {
        auto it = ctx.current_frame().peek(ok);
        if (ok)
        {
            auto d = (*it)->diag_info();
            o += hex((*it)->to_string()) + ":" + std::to_string(d.line) + ":" + std::to_string(d.file_offset) + ":";
        }
    }
    if (!ok) o += "-:0:0:";
    bool first = true;
    for (auto it = ctx.frames_rbegin(); it != ctx.frames_rend(); ++it)
    {
        if (!first) o += ",";
        first = false;
        o += std::to_string((unsigned long long)(it->position() + 1));
    }
    return o;
}

// ------------------------------------------------------------------ concurrent mode
namespace park
{
    std::mutex mx;
    std::condition_variable cv;
    int target = -1;         // which call of verif_park__ blocks
    int calls = 0;
    bool parked = false, released = false;
    std::atomic<int> marks{ 0 };
    std::atomic<int> marks_at_request{ -1 };
    sqf::runtime::value op_park(rt_t&)
    {
        std::unique_lock<std::mutex> l(mx);
        if (calls++ == target)
        {
            parked = true;
            cv.notify_all();
            cv.wait(l, [] { return released; });
        }
        return {};
    }
    sqf::runtime::value op_mark(rt_t&) { marks++; return {}; }
}

int main(int argc, char** argv)
{
    std::string mode = argc > 1 ? argv[1] : "seq";
    std::string line;
    while (std::getline(std::cin, line))
    {
        auto f = split(line);
        std::string out;
        if (line.find(';') != std::string::npos && g_scratch.empty())
        {
            std::string tmpl = "/tmp/verif_ctl_XXXXXX";
            char* d = mkdtemp(tmpl.data());
            if (d) g_scratch = d;
        }
        if (mode == "lines" && f.size() == 1)
        {
            out = forked([&]() -> std::string {
                VM vm(0, true);
                g_files.clear();
                auto set = parse_script(vm, f[0]);
                if (!set.has_value()) return "PARSEFAIL";
                return listing(*set) + "\t" + diagtable(*set);
            }, 20000, CTL_MEM_MB);
        }
        else if (mode == "tree" && f.size() == 4 && f[0].size() == 1)
        {
            out = forked([&]() -> std::string {
                VM vm(0, true);
                std::string o = to_base(vm, f[0][0], f[1]);
                if (o == "PARSEFAIL") return o;
                tree(vm, "", (size_t)std::stoul(f[2]), f[3], o);
                return o;
            }, 900000, CTL_MEM_MB);
        }
        else if (mode == "seq" && f.size() == 3 && f[0].size() == 1)
        {
            out = forked([&]() -> std::string {
                VM vm(0, true);
                std::string o = to_base(vm, f[0][0], f[1]);
                if (o == "PARSEFAIL") return o;
                follow(vm, f[2], 0, o);
                return o;
            }, 60000, CTL_MEM_MB);
        }
        else if (mode == "steps" && f.size() == 2)
        {
            out = forked([&]() -> std::string {
                VM vm(0, true);
                for (int k = 0; k < 10; k++)
                {
                    vm.rt->register_sqfop(sqf::runtime::sqfop::nular("verif_m" + std::to_string(k) + "__", "appends its digit to the marks", g_digit_ops[k]));
                }
                if (!load_script(vm, f[0])) return "PARSEFAIL";
                std::string o = step_observe(0, vm);
                for (char c : f[1])
                {
                    int r = do_action(vm, c);
                    o += ";" + step_observe(r, vm);
                }
                return o;
            }, 60000, CTL_MEM_MB);
        }
        else if (mode == "conc" && f.size() == 4)
        {
            out = forked([&]() -> std::string {
                VM vm(0, true);
                vm.rt->register_sqfop(sqf::runtime::sqfop::nular("verif_park__", "blocks the executing thread", park::op_park));
                vm.rt->register_sqfop(sqf::runtime::sqfop::nular("verif_mark__", "counts an executed instruction", park::op_mark));
                if (!vm.load(unhex(f[0]))) return "PARSEFAIL";
                park::target = std::stoi(f[1]);
                int start_result = -99;
                std::thread executor([&] { start_result = (int)vm.rt->execute(rt_t::action::start); });
                bool parked;
                {
                    std::unique_lock<std::mutex> l(park::mx);
                    parked = park::cv.wait_for(l, std::chrono::seconds(5), [] { return park::parked; });
                }
                std::string o = std::string("P") + (parked ? "1" : "0");
                int before = park::marks.load();
                for (char c : f[2])
                {
                    if (c == '-') continue;
                    int r = (int)vm.rt->execute(action_of(c));
                    // state and result only: the context list belongs to the executing thread
                    o += ";" + std::to_string(r) + ":" + std::to_string(vm.state());
                }
                int at_request = park::marks.load();
                {
                    std::unique_lock<std::mutex> l(park::mx);
                    park::released = true;
                    park::cv.notify_all();
                }
                executor.join();
                size_t n = 0;
                for (auto it = vm.rt->context_begin(); it != vm.rt->context_end(); ++it) n++;
                o += ";R" + std::to_string(start_result) + ":" + std::to_string(vm.state()) + ":" + std::to_string(before) + ":" +
                     std::to_string(park::marks.load() - at_request) + ":" + std::to_string(n);
                // the VM must still accept actions afterwards
                int again = (int)vm.rt->execute(rt_t::action::assembly_step);
                o += ";N" + std::to_string(again) + ":" + std::to_string(vm.state());
                return o;
            }, 30000, CTL_MEM_MB);
        }
        else if (mode == "sleepers" && f.size() == 2)
        {
            // every script of the run is asleep (far in the future) when the controller acts: the main script ends with verif_mark__,
            // the spawned ones sleep.  The executor thread spins in the scheduler loop; an accepted stop / abort must end its start()
            // at once.  "At once" is measured in processor time of the executor THREAD (a starved thread does not count as hanging):
            // it is given up as not stopping after 1500 ms of its own CPU time, or 90 s on the wall clock.
            out = forked([&]() -> std::string {
                VM& vm = *new VM(0, true);
                vm.rt->register_sqfop(sqf::runtime::sqfop::nular("verif_mark__", "counts an executed instruction", park::op_mark));
                if (!vm.load(unhex(f[0]))) return "PARSEFAIL";
                static std::atomic<int> start_result{ -99 };
                static std::atomic<bool> have_clock{ false };
                static clockid_t cid;
                std::thread executor([&] {
                    have_clock = pthread_getcpuclockid(pthread_self(), &cid) == 0;
                    start_result = (int)vm.rt->execute(rt_t::action::start);
                });
                auto wall_ms = [] { struct timespec t; clock_gettime(CLOCK_MONOTONIC, &t); return (long long)t.tv_sec * 1000 + t.tv_nsec / 1000000; };
                auto cpu_ms = [&]() -> long long { struct timespec t; if (!have_clock || clock_gettime(cid, &t) != 0) return -1; return (long long)t.tv_sec * 1000 + t.tv_nsec / 1000000; };
                long long t0 = wall_ms();
                while (park::marks.load() < 1 && start_result == -99 && wall_ms() - t0 < 60000) usleep(1000);
                // let the main script run out (a few instructions) so that only sleepers are left
                long long c0 = cpu_ms();
                while (start_result == -99 && cpu_ms() - c0 < 30 && wall_ms() - t0 < 60000) usleep(1000);
                std::string o;
                if (start_result != -99) return "EARLY" + std::to_string(start_result.load());
                for (char c : f[1])
                {
                    int r = (int)vm.rt->execute(action_of(c));
                    o += std::to_string(r) + ":" + std::to_string(vm.state()) + ";";
                }
                long long c1 = cpu_ms(), w1 = wall_ms(), used = 0;
                while (start_result == -99 && wall_ms() - w1 < 90000)
                {
                    long long c = cpu_ms();
                    if (c >= 0) used = c - c1;
                    if (used >= 1500) break;
                    usleep(2000);
                }
                if (start_result == -99)
                {   // the executor keeps spinning: report and leave (the forked child ends with the thread still running)
                    executor.detach();     // it still uses the VM and the flags below: they are never freed (this child ends right away)
                    return o + "R-99:" + std::to_string(vm.state()) + ":0:" + std::to_string(used);
                }
                executor.join();
                o += "R" + std::to_string(start_result.load()) + ":" + std::to_string(vm.state()) + ":1:" + std::to_string(used);
                int again = (int)vm.rt->execute(rt_t::action::assembly_step);
                return o + ";N" + std::to_string(again) + ":" + std::to_string(vm.state());
            }, 120000, CTL_MEM_MB);
        }
        else if (mode == "race" && f.size() == 2)
        {
            // no handshake: the executor runs freely, the controller issues its action once some instructions were executed
            out = forked([&]() -> std::string {
                VM vm(0, true);
                vm.rt->register_sqfop(sqf::runtime::sqfop::nular("verif_mark__", "counts an executed instruction", park::op_mark));
                if (!vm.load(unhex(f[0]))) return "PARSEFAIL";
                int start_result = -99;
                std::thread executor([&] { start_result = (int)vm.rt->execute(rt_t::action::start); });
                while (park::marks.load(std::memory_order_relaxed) < 100 && start_result == -99) {}
                std::string o;
                for (char c : f[1])
                {
                    int r = (int)vm.rt->execute(action_of(c));
                    o += std::to_string(r) + ";";
                }
                int at = park::marks.load();
                executor.join();
                return o + "R" + std::to_string(start_result) + ":" + std::to_string(vm.state()) + ":" + std::to_string(park::marks.load() - at);
            }, 60000, CTL_MEM_MB);
        }
        else out = "BADLINE";
        for (auto& ch : out) if (ch == '\n') ch = ' ';
        std::cout << out << "\n";
    }
    drop_scratch();
    return 0;
}
