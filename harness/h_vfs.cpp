// C16 correspondence harness: sqf::fileio::impl_default on a real directory tree.
// stdin, one case per line (TAB separated):   kind  tree  setup  request  curp  curv
//   kind    fs | info | infoseq | loadFile | preprocessFile | preprocessFileLineNumbers | execVM | include
//           | <operator>@file|line|execVM|compile|include  (the operator run by code lying in the file curp; curv: how it is reached)
//   tree    ';'-separated  F:<hexpath>:<hexcontent> | D:<hexpath>
//   setup   ';'-separated  M:<hexphys>:<hexvirt> | P:<hexpbopath>:<ignored>:<ignored>
//   request hex (for `include`: the text given to the preprocessor; for `fs`: a path string, curp = operand of operator/)
// Every path and every file content may contain the token /tmp/@@ (or \tmp\@@): it stands for the
// scratch directory of this process and is substituted on the way in and on the way out,
// so that the lines are comparable with the model's (which works under the literal /tmp/@@; both have two components).
// Each case runs in a forked child (crash/hang/oom are observations).
#include "sqfrt.hpp"
#include "rvutils/pbofile.hpp"
#include <filesystem>
#include <fstream>
#include <algorithm>
using namespace vh;
namespace fs = std::filesystem;

static std::string g_base;
// AddressSanitizer maps its shadow memory lazily: an address-space limit makes every child exit
#if defined(__SANITIZE_ADDRESS__)
static const size_t VFS_MEM_MB = 0;
#else
static const size_t VFS_MEM_MB = 2048;
#endif

static std::string replace_all(std::string s, const std::string& a, const std::string& b)
{
    if (a.empty()) return s;
    size_t pos = 0;
    while ((pos = s.find(a, pos)) != std::string::npos) { s.replace(pos, a.size(), b); pos += b.size(); }
    return s;
}
static std::string sub_in(std::string s)
{
    std::string bs = g_base;
    std::replace(bs.begin(), bs.end(), '/', '\\');
    s = replace_all(s, "/tmp/@@", g_base);
    s = replace_all(s, "\\tmp\\@@", bs);
    return s;
}
static std::string sub_out(std::string s) { return replace_all(s, g_base, "/tmp/@@"); }
static std::string hexo(const std::string& s) { return hex(sub_out(s)); }

static std::string sqf_string(const std::string& s)
{
    std::string r = "\"";
    for (char c : s) { if (c == '"') r += "\"\""; else r.push_back(c); }
    return r + "\"";
}
// `"..."` as printed by str of a string -> the string
static std::string unsqf(const std::string& v)
{
    if (v.size() < 2 || v.front() != '"' || v.back() != '"') return v;
    std::string r;
    for (size_t i = 1; i + 1 < v.size(); i++) { r.push_back(v[i]); if (v[i] == '"' && i + 2 < v.size() && v[i + 1] == '"') i++; }
    return r;
}
static bool has_code(const RecLogger& lg, size_t code)
{
    for (auto& m : lg.msgs) if (m.code == code) return true;
    return false;
}
// the lines of a preprocessor output that are neither #line directives nor blank
static std::string payload(const std::string& text)
{
    std::string out = "OK:";
    bool first = true;
    for (auto& l : split(text, '\n'))
    {
        auto a = l.find_first_not_of(" \t\r");
        if (a == std::string::npos) continue;
        if (l.compare(a, 5, "#line") == 0) continue;
        if (!first) out += ",";
        first = false;
        out += hexo(l);
    }
    return out;
}

static void setup(sqf::runtime::fileio& io, const std::string& steps)
{
    if (steps.empty() || steps == "-") return;
    for (auto& st : split(steps, ';'))
    {
        auto f = split(st, ':');
        if (f.size() >= 3 && f[0] == "M") io.add_mapping(sub_in(unhex(f[1])), sub_in(unhex(f[2])));
        else if (f.size() >= 2 && f[0] == "P") static_cast<sqf::fileio::impl_default&>(io).add_pbo_mapping(fs::path(sub_in(unhex(f[1]))));
    }
}

int main(int argc, char** argv)
{
    std::string tmpl = "/tmp/vvfsXXXXXX";
    char* d = mkdtemp(tmpl.data());
    if (!d) { std::cerr << "mkdtemp failed\n"; return 2; }
    g_base = d;
    std::string line, last_tree = "?";
    while (std::getline(std::cin, line))
    {
        auto f = split(line);
        if (f.size() != 6) { std::cout << "BADLINE\n"; continue; }
        const std::string kind = f[0];
        if (kind == "fs")
        {
            fs::path p(unhex(f[3])), b(unhex(f[4]));
            auto n = p.lexically_normal();
            auto comps = [](const fs::path& x) { std::string r; bool first = true; for (auto& c : x) { if (!first) r += ","; first = false;
                // a root directory written with several slashes compares equal to "/": print it canonically
                std::string s = c.string(); if (!s.empty() && s.find_first_not_of('/') == std::string::npos) s = "/"; r += hex(s); } return r; };
            std::string gs; { std::istringstream ss(p.string()); std::string piece; bool first = true;
                while (std::getline(ss, piece, '/')) { if (!first) gs += ","; first = false; gs += hex(piece); } }
            std::cout << hex(n.string()) << "\t" << comps(p) << "\t" << comps(n) << "\t" << hex(p.parent_path().string()) << "\t"
                      << hex(p.extension().string()) << "\t" << hex(n.relative_path().string()) << "\t" << (p.is_relative() ? "1" : "0") << "\t"
                      << hex((p / b).string()) << "\t" << gs << "\n";
            continue;
        }
        // the directory tree of this case (kept when the next case names the same tree: nothing writes to it)
        std::error_code ec;
        if (f[1] != last_tree)
        {
            fs::current_path("/tmp", ec);
            for (auto& e : fs::directory_iterator(g_base)) fs::remove_all(e.path(), ec);
            if (!f[1].empty() && f[1] != "-")
            {
                for (auto& e : split(f[1], ';'))
                {
                    auto g = split(e, ':');
                    if (g.size() == 2 && g[0] == "D") fs::create_directories(sub_in(unhex(g[1])), ec);
                    else if (g.size() == 3 && g[0] == "F")
                    {
                        fs::path p(sub_in(unhex(g[1])));
                        fs::create_directories(p.parent_path(), ec);
                        std::ofstream o(p, std::ios::binary);
                        auto c = sub_in(unhex(g[2]));
                        o.write(c.data(), (std::streamsize)c.size());
                    }
                }
            }
            last_tree = f[1];
        }
        fs::current_path(g_base, ec);
        const std::string req = sub_in(unhex(f[3])), curp = sub_in(unhex(f[4])), curv = unhex(f[5]);
        auto res = forked([&]() -> std::string {
            if (kind == "infoseq")
            {
                // several requests, one after the other, on ONE file system object: hexreq,hexcurp,hexcurv | ...
                RecLogger lg;
                sqf::fileio::impl_default io(lg);
                setup(io, f[2]);
                std::string out;
                bool first = true;
                for (auto& item : split(unhex(f[3]), '|'))
                {
                    auto g = split(item, ',');
                    while (g.size() < 3) g.push_back("");
                    auto rq = sub_in(unhex(g[0])), cp = sub_in(unhex(g[1])), cv = unhex(g[2]);
                    std::string one;
                    auto i = io.get_info(rq, sqf::runtime::fileio::pathinfo{ cp, cv });
                    if (!i.has_value()) one = "NONE";
                    else
                    {
                        std::string rd;
                        try { rd = "C" + hexo(io.read_file(*i)); }
                        catch (...) { rd = fs::is_directory(i->physical) ? "DIRTHROW" : "THROWN"; }
                        one = "OK " + hexo(i->physical) + " " + hexo(i->virtual_) + " " + rd;
                    }
                    if (!first) out += " || ";
                    first = false;
                    out += one;
                }
                return out;
            }
            if (kind == "info")
            {
                RecLogger lg;
                sqf::fileio::impl_default io(lg);
                setup(io, f[2]);
                auto i = io.get_info(req, sqf::runtime::fileio::pathinfo{ std::string(curp), std::string(curv) });
                if (!i.has_value()) return "NONE";
                std::string rd;
                try { rd = "C" + hexo(io.read_file(*i)); }
                catch (...) { rd = fs::is_directory(i->physical) ? "DIRTHROW" : "THROWN"; }
                return "OK\t" + hexo(i->physical) + "\t" + hexo(i->virtual_) + "\t" + rd;
            }
            VM vm(20000);
            setup(vm.rt->fileio(), f[2]);
            if (kind == "include")
            {
                auto out = vm.rt->parser_preprocessor().preprocess(*vm.rt, req, sqf::runtime::fileio::pathinfo{ std::string(curp), std::string(curv) });
                if (!out.has_value()) return "FAIL";
                return payload(*out);
            }
            std::string op = kind;
            if (auto at = kind.find('@'); at != std::string::npos)
            {
                // <op>@<route>: the operator is executed by code that lies in a file (curp), reached the way `route` says.
                //   file     the text `VRES = <op> <request>` parsed as file curp (a file named on the command line)
                //   line     the same text behind `#line 1 "curp"`, parsed as verif.sqf (what preprocessed text carries)
                //   execVM   `execVM <curv>` from verif.sqf; curv is a request that names the worker file curp of the tree,
                //            `|`-separated requests before it name workers that pass on (each started by the one before)
                //   compile  `call compile preprocessFileLineNumbers <curv>` from verif.sqf
                //   include  `#include "<curv>"` in the text of verif.sqf
                // Workers (files of the tree, written by the check) read VOP / VREQ / VHOPS and leave the answer in VRES.
                op = kind.substr(0, at);
                const std::string route = kind.substr(at + 1);
                const bool is_exec = op == "execVM";
                const std::string direct = is_exec ? ("VRES = \"ran\"; execVM " + sqf_string(req)) : ("VRES = " + op + " " + sqf_string(req));
                bool loaded = false;
                if (route == "file") loaded = vm.load(direct, false, curp);
                else if (route == "line") loaded = vm.load("#line 1 \"" + curp + "\"\n" + direct, false, "verif.sqf");
                else
                {
                    auto hops = split(sub_in(curv), '|');
                    if (hops.empty()) return "BADKIND";
                    std::string launch = hops.front(), rest;
                    for (size_t i = 1; i < hops.size(); i++) rest += (i > 1 ? "," : "") + sqf_string(hops[i]);
                    const std::string globals = "VOP = " + sqf_string(op) + "; VREQ = " + sqf_string(req) + "; VHOPS = [" + rest + "]; ";
                    if (route == "execVM") loaded = vm.load(globals + "execVM " + sqf_string(launch), false, "verif.sqf");
                    else if (route == "compile") loaded = vm.load(globals + "call compile preprocessFileLineNumbers " + sqf_string(launch), false, "verif.sqf");
                    else if (route == "include")
                    {
                        if (!vm.load(globals, false, "verif0.sqf")) return "LOADFAIL";
                        vm.start();
                        loaded = vm.load("#include \"" + launch + "\"\n", true, "verif.sqf");
                    }
                    else return "BADKIND";
                }
                if (loaded) vm.start();
                const bool nf = has_code(vm.lg, 60036);
                const bool ppfail = has_code(vm.lg, 10003) || has_code(vm.lg, 10004);
                const std::string codes = vm.lg.codes(1);
                auto global = [&](const char* name) -> std::optional<std::string> {
                    vm.lg.msgs.clear();
                    if (!vm.load(std::string("if (isNil \"") + name + "\") then {0} else {" + name + "}", false, "verif2.sqf")) return {};
                    vm.start();
                    auto v = vm.lg.context_value();
                    if (!v.has_value() || v->empty() || v->front() != '"') return {};
                    return unsqf(*v);
                };
                auto vres = global("VRES");
                if (!vres.has_value()) return "NOLAUNCH\t" + codes;         // the code in curp did not get to the operator
                if (op == "loadFile") return nf ? std::string("NF") : "TEXT\t" + hexo(*vres);
                if (op == "preprocessFile" || op == "preprocessFileLineNumbers")
                    return nf ? std::string("NF") : (ppfail ? std::string("PRE\tFAIL") : "PRE\t" + payload(*vres));
                if (is_exec)
                {
                    auto res = global("RES");
                    return std::string(nf ? "NF" : (ppfail ? "RAN-PPFAIL" : "RAN")) + "\t" + hexo(res.has_value() ? *res : std::string("<unset>")) + "\t" + codes;
                }
                return "BADKIND";
            }
            if (!vm.load(op + " " + sqf_string(req), false, "verif.sqf")) return "LOADFAIL";
            vm.start();
            bool nf = has_code(vm.lg, 60036);
            if (kind == "loadFile")
            {
                if (nf) return "NF";
                auto v = vm.lg.context_value();
                return "TEXT\t" + (v.has_value() ? hexo(unsqf(*v)) : std::string("?"));
            }
            if (kind == "preprocessFile" || kind == "preprocessFileLineNumbers")
            {
                if (nf) return "NF";
                if (has_code(vm.lg, 10003) || has_code(vm.lg, 10004)) return "PRE\tFAIL";
                auto v = vm.lg.context_value();
                return "PRE\t" + (v.has_value() ? payload(unsqf(*v)) : std::string("?"));
            }
            if (kind == "execVM")
            {
                std::string codes = vm.lg.codes(1);
                bool ppfail = has_code(vm.lg, 10003) || has_code(vm.lg, 10004);
                vm.lg.msgs.clear();
                std::string resv = "?";
                if (vm.load("if (isNil \"RES\") then {\"<unset>\"} else {RES}", false, "verif2.sqf")) { vm.start(); auto v = vm.lg.context_value(); if (v.has_value()) resv = unsqf(*v); }
                return std::string(nf ? "NF" : (ppfail ? "RAN-PPFAIL" : "RAN")) + "\t" + hexo(resv) + "\t" + codes;
            }
            return "BADKIND";
        }, 20000, VFS_MEM_MB);
        std::cout << res << "\n";
    }
    std::error_code ec;
    fs::current_path("/tmp", ec);
    fs::remove_all(g_base, ec);
    return 0;
}
