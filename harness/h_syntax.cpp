// C01 / C06-code correspondence harness: the real SQF tokenizer, parser, compiler (to_assembly),
// code printer (d_code::to_string_sqf = what `str` returns) and pretty printer on the same text
// the model sees.  Public members only.
//
//   h_syntax dump-registry      one line per registered signature:
//                                 B <hexname> <precedence> <index in by-name vector> [D]
//                                 U <hexname> [D]      N <hexname> [D]
//                               (D marks the extra operators this harness registers itself)
//   h_syntax                    stdin: "<mode>\t<hex text>" per line
//     T  raw tokens             OK \t <type>:<hex contents> ...        (tokenizer::next until eof/invalid)
//     A  assembly listing       OK \t <listing>      | PARSEERROR
//     M  preprocess, then A     OK \t <listing> \t <hex preprocessed text> | PPERROR | PARSEERROR \t <hex preprocessed text>
//     S  str/compile round trip OK \t <listing of code> \t <hex str text> \t <listing of compile(str)> \t <equal 0/1>
//     P  pretty printer         OK \t <hex pretty text> \t <listing of compile(pretty text)>
// A listing is structural: instructions separated by ' ', code values expanded recursively:
//   PN:<hex %g text> PS:<hex value> PB:<0|1> PX:<hex to_string_sqf> PC[ ... ] N:<hex> U:<hex> B:<hex>:<prec>
//   G:<hex> A:<hex> L:<hex> M:<n> E
#include "sqfrt.hpp"
#include "parser/sqf/tokenizer.hpp"
#include "parser/sqf/sqf_formatter.h"
#include "opcodes/common.h"
#include "runtime/d_code.h"
#include "runtime/d_string.h"
#include "runtime/d_scalar.h"
#include "runtime/d_boolean.h"
#include <sstream>
#include <algorithm>
using namespace vh;
namespace rt = sqf::runtime;
namespace op = sqf::opcodes;

// the address-space limit of forked() cannot be combined with AddressSanitizer's shadow memory
#if defined(__SANITIZE_ADDRESS__)
static const size_t kMemMb = 0;
#else
static const size_t kMemMb = 1024;
#endif

static rt::value dummy_n(rt::runtime&) { return {}; }
static rt::value dummy_u(rt::runtime&, rt::value::cref) { return {}; }
static rt::value dummy_b(rt::runtime&, rt::value::cref, rt::value::cref) { return {}; }

// Extra operators so that every precedence level and every lexer class (B, BU, BN, BUN, U, N, UN)
// has a member; registered through the public register_sqfop like --command-dummy-* does.
static std::vector<std::string> g_dummies;
static void register_dummies(rt::runtime& r)
{
    using namespace sqf::runtime::sqfop;
    for (int p = 1; p <= 10; p++)
    {
        std::string s = std::to_string(p);
        auto b = [&](const std::string& n) { r.register_sqfop(binary((short)p, n, sqf::types::t_any(), sqf::types::t_any(), "verif dummy", dummy_b)); g_dummies.push_back(n); };
        auto u = [&](const std::string& n) { r.register_sqfop(unary(n, sqf::types::t_any(), "verif dummy", dummy_u)); g_dummies.push_back(n); };
        auto n = [&](const std::string& nm) { r.register_sqfop(nular(nm, "verif dummy", dummy_n)); g_dummies.push_back(nm); };
        b("vfb" + s + "__");
        b("vfbu" + s + "__"); u("vfbu" + s + "__");
        b("vfbn" + s + "__"); n("vfbn" + s + "__");
        b("vfbun" + s + "__"); u("vfbun" + s + "__"); n("vfbun" + s + "__");
    }
    r.register_sqfop(unary("vfu__", sqf::types::t_any(), "verif dummy", dummy_u)); g_dummies.push_back("vfu__");
    r.register_sqfop(nular("vfn__", "verif dummy", dummy_n)); g_dummies.push_back("vfn__");
    r.register_sqfop(unary("vfun__", sqf::types::t_any(), "verif dummy", dummy_u));
    r.register_sqfop(nular("vfun__", "verif dummy", dummy_n)); g_dummies.push_back("vfun__");
}
static bool is_dummy(const std::string& n) { return std::find(g_dummies.begin(), g_dummies.end(), n) != g_dummies.end(); }

static std::string listing(const rt::instruction_set& set);
static std::string one(const rt::instruction::sptr& i)
{
    if (auto p = std::dynamic_pointer_cast<op::push>(i))
    {
        auto v = p->value();
        if (v.empty()) return "PX:" + hex("nil");
        if (v.is<sqf::runtime::t_code>()) return "PC[ " + listing(v.data<sqf::types::d_code>()->value()) + "]";
        if (v.is<sqf::runtime::t_scalar>()) return "PN:" + hex(v.data<sqf::types::d_scalar>()->to_string_sqf());
        if (v.is<sqf::runtime::t_string>()) return "PS:" + hex(v.data<sqf::types::d_string>()->value());
        if (v.is<sqf::runtime::t_boolean>()) return std::string("PB:") + (v.data<sqf::types::d_boolean>()->value() ? "1" : "0");
        return "PX:" + hex(v.to_string_sqf());
    }
    if (auto c = std::dynamic_pointer_cast<op::call_binary>(i)) return "B:" + hex(std::string(c->operator_name())) + ":" + std::to_string(c->precedence());
    if (auto c = std::dynamic_pointer_cast<op::call_unary>(i)) return "U:" + hex(std::string(c->operator_name()));
    if (auto c = std::dynamic_pointer_cast<op::call_nular>(i)) return "N:" + hex(std::string(c->operator_name()));
    if (auto c = std::dynamic_pointer_cast<op::get_variable>(i)) return "G:" + hex(c->variable_name());
    if (auto c = std::dynamic_pointer_cast<op::assign_to_local>(i)) return "L:" + hex(std::string(c->variable_name()));
    if (auto c = std::dynamic_pointer_cast<op::assign_to>(i)) return "A:" + hex(std::string(c->variable_name()));
    if (auto c = std::dynamic_pointer_cast<op::make_array>(i)) return "M:" + std::to_string(c->array_size());
    if (std::dynamic_pointer_cast<op::end_statement>(i)) return "E";
    return "?:" + hex(i->to_string());
}
static std::string listing(const rt::instruction_set& set)
{
    std::string r;
    for (auto it = set.begin(); it != set.end(); ++it) { r += one(*it); r += " "; }
    return r;
}

static const char* tokname(sqf::parser::sqf::tokenizer::etoken t)
{
    using E = sqf::parser::sqf::tokenizer::etoken;
    switch (t)
    {
    case E::eof: return "eof"; case E::invalid: return "invalid"; case E::m_line: return "line";
    case E::i_comment_line: return "cl"; case E::i_comment_block: return "cb"; case E::i_whitespace: return "ws";
    case E::t_true: return "true"; case E::t_false: return "false"; case E::t_private: return "private";
    case E::s_curlyo: return "{"; case E::s_curlyc: return "}"; case E::s_roundo: return "("; case E::s_roundc: return ")";
    case E::s_edgeo: return "["; case E::s_edgec: return "]"; case E::s_semicolon: return ";"; case E::s_comma: return ",";
    case E::s_equal: return "="; case E::t_operator: return "op"; case E::t_string_double: return "str"; case E::t_string_single: return "str";
    case E::t_ident: return "id"; case E::t_number: return "num"; case E::t_hexadecimal: return "hex";
    }
    return "?";
}

int main(int argc, char** argv)
{
    bool dump = argc > 1 && std::string(argv[1]) == "dump-registry";
    VM vm;
    register_dummies(*vm.rt);
    if (dump)
    {
        std::vector<std::string> out;
        for (auto it = vm.rt->sqfop_binary_begin(); it != vm.rt->sqfop_binary_end(); ++it)
        {
            std::string n(it->second.name());
            // position of this overload in the by-name vector the lexer glue reads (begin() = index 0)
            auto& vec = vm.rt->sqfop_binary_by_name(n);
            size_t idx = 0;
            for (size_t i = 0; i < vec.size(); i++) if (&vec[i].get() == &it->second) idx = i;
            char buf[32]; snprintf(buf, sizeof buf, "%06zu", idx);
            out.push_back("B " + hex(n) + " " + std::to_string(it->second.precedence()) + " " + buf + (is_dummy(n) ? " D" : ""));
        }
        for (auto it = vm.rt->sqfop_unary_begin(); it != vm.rt->sqfop_unary_end(); ++it)
        {
            std::string n(it->second.name());
            out.push_back("U " + hex(n) + (is_dummy(n) ? " D" : ""));
        }
        for (auto it = vm.rt->sqfop_nular_begin(); it != vm.rt->sqfop_nular_end(); ++it)
        {
            std::string n(it->second.name());
            out.push_back("N " + hex(n) + (is_dummy(n) ? " D" : ""));
        }
        std::sort(out.begin(), out.end());
        for (auto& l : out) std::cout << l << "\n";
        return 0;
    }
    std::string line;
    rt::fileio::pathinfo pi{ std::string("verif.sqf"), std::string() };
    while (std::getline(std::cin, line))
    {
        auto f = split(line);
        if (f.size() != 2) { std::cout << "BADLINE\n"; continue; }
        std::string mode = f[0];
        std::string text = unhex(f[1]);
        auto res = forked([&]() -> std::string {
            if (mode == "T")
            {
                std::string copy = text;
                sqf::parser::sqf::tokenizer t(copy.begin(), copy.end(), "verif.sqf");
                std::string r = "OK\t";
                for (size_t guard = 0; guard < copy.size() + 2; guard++)
                {
                    auto tok = t.next();
                    using E = sqf::parser::sqf::tokenizer::etoken;
                    if (tok.type == E::i_whitespace) continue;
                    r += std::string(tokname(tok.type)) + ":" + hex(std::string(tok.contents)) + " ";
                    if (tok.type == E::eof || tok.type == E::invalid) break;
                }
                return r;
            }
            if (mode == "A")
            {
                auto set = vm.rt->parser_sqf().parse(*vm.rt, text, pi);
                if (!set.has_value()) return "PARSEERROR";
                return "OK\t" + listing(*set);
            }
            if (mode == "M")
            {
                // the text goes through the preprocessor first (macro expansion), the parser sees the expansion
                auto pp = vm.rt->parser_preprocessor().preprocess(*vm.rt, text, pi);
                if (!pp.has_value()) return "PPERROR";
                auto set = vm.rt->parser_sqf().parse(*vm.rt, *pp, pi);
                if (!set.has_value()) return "PARSEERROR\t" + hex(*pp);
                return "OK\t" + listing(*set) + "\t" + hex(*pp);
            }
            if (mode == "S")
            {
                auto set = vm.rt->parser_sqf().parse(*vm.rt, text, pi);               // compile
                if (!set.has_value()) return "PARSEERROR";
                auto code = std::make_shared<sqf::types::d_code>(*set);
                std::string s = code->to_string_sqf();                                   // str
                auto set2 = vm.rt->parser_sqf().parse(*vm.rt, s, pi);                    // compile again
                if (!set2.has_value()) return "OK\t" + listing(*set) + "\t" + hex(s) + "\tPARSEERROR\t0";
                // the printed text is `{ ... }`: one PUSH of a code value
                std::string l2 = "NOTCODE " + listing(*set2);
                bool eq = false;
                if (set2->size() == 1)
                    if (auto p = std::dynamic_pointer_cast<op::push>(*set2->begin()))
                        if (p->value().is<sqf::runtime::t_code>())
                        {
                            l2 = listing(p->value().data<sqf::types::d_code>()->value());
                            eq = rt::value(code) == p->value();                           // isEqualTo on code
                        }
                return "OK\t" + listing(*set) + "\t" + hex(s) + "\t" + l2 + "\t" + (eq ? "1" : "0");
            }
            if (mode == "P")
            {
                if (!vm.rt->parser_sqf().check_syntax(*vm.rt, text, pi)) return "PARSEERROR";
                std::ostringstream buf;
                sqf::parser::sqf::formatter fmt(*vm.rt, text, pi);
                fmt.prettify(fmt.getRes(), 0, buf);
                std::string s = buf.str();
                auto set2 = vm.rt->parser_sqf().parse(*vm.rt, s, pi);
                return "OK\t" + hex(s) + "\t" + (set2.has_value() ? listing(*set2) : std::string("PARSEERROR"));
            }
            return "BADMODE";
        }, 5000, kMemMb);
        std::cout << res << "\n";
    }
    return 0;
}
