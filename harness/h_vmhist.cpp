// C04 history harness: several runs on ONE runtime instance, driven the way the embedders do it
// (src/export/sqfvm.cpp sqfvm_call: load, execute(start), abort after a failure; src/cli/cli.cpp: abort unless ok).
// stdin:  "<max_runtime_ms>;<tick_us>;<max_loop>\t<mode>:<hex sqf text>\t<mode>:<hex sqf text>..."   mode a|c|k
// stdout: obs1|obs2|...  \t  locations of the stack-trace diagnostics per run  "line.col,line.col|..."
//         obs = result:state:events[:abortresult:state]   (events as harness/h_vm.cpp prints them)
#define VH_VIRTUAL_CLOCK
#include "sqfrt.hpp"
using namespace vh;
// the address-space limit of the forked child cannot be combined with AddressSanitizer's shadow memory
#if defined(__SANITIZE_ADDRESS__)
#define VMHIST_MEM_MB 0
#else
#define VMHIST_MEM_MB 2048
#endif

static std::string events(VM& vm, size_t from, std::string& locs)
{
    std::string o;
    for (size_t k = from; k < vm.lg.msgs.size(); k++)
    {
        auto& m = vm.lg.msgs[k];
        if (m.level > 3) continue;
        o += std::to_string(m.level) + ":" + std::to_string(m.code) + ",";
        if (m.code == 60019)
        {
            auto p = m.text.find("[DIAG_LOG] ");
            std::string t = p == std::string::npos ? m.text : m.text.substr(p + 11);
            for (auto& ch : t) if (ch == '\t' || ch == '\n' || ch == '\r' || ch == '|') ch = ' ';   // keep the line protocol intact
            o += "M<" + t + ">,";
        }
        else if (m.code == 60095)
        {
            const std::string a = "Context dropped with return value `";
            auto p = m.text.find(a);
            auto e = m.text.rfind("`.");
            o += "M<VALUE " + ((p != std::string::npos && e != std::string::npos && e >= p + a.size()) ? m.text.substr(p + a.size(), e - p - a.size()) : std::string("?")) + ">,";
        }
        else if (m.code == 60001 || m.level <= 1)
        {
            if (!locs.empty()) locs += ",";
            locs += std::to_string(m.code) + "@" + (m.has_loc ? std::to_string(m.line) + "." + std::to_string(m.col) : std::string("-"));
        }
    }
    return o;
}

int main(int, char**)
{
    std::string line;
    while (std::getline(std::cin, line))
    {
        auto f = split(line);
        if (f.size() < 2) { std::cout << "BADLINE\n"; continue; }
        auto cfg = split(f[0], ';');
        if (cfg.size() != 3) { std::cout << "BADCFG\n"; continue; }
        long max_ms = std::stol(cfg[0]), tick = std::stol(cfg[1]);
        size_t max_loop = (size_t)std::stoul(cfg[2]);
        auto out = forked([&]() -> std::string {
            vh::g_clock_ns = 0;
            vh::g_clock_tick_ns = tick * 1000;
            std::unique_ptr<VM> vm(new VM(max_ms, true));
            vm->rt->configuration().max_loop_iterations_in_unscheduled = max_loop;
            std::string obs, locs;
            for (size_t k = 1; k < f.size(); k++)
            {
                if (f[k].size() < 2 || f[k][1] != ':') return "BADRUN";
                char mode = f[k][0];
                std::string text = unhex(f[k].substr(2));
                if (k > 1) { obs += "|"; locs += "|"; }
                size_t from = vm->lg.msgs.size();
                if (!vm->load(text)) { obs += "PARSEFAIL"; return obs + "\t" + locs; }
                int r = vm->start();
                std::string l;
                obs += std::to_string(r) + ":" + std::to_string(vm->state()) + ":" + events(*vm, from, l);
                locs += l;
                bool abort = mode == 'a' ? !(r == 0 || r == -1) : mode == 'c' ? r != 0 : false;
                if (abort)
                {
                    int ra = (int)vm->rt->execute(sqf::runtime::runtime::action::abort);
                    obs += ":" + std::to_string(ra) + ":" + std::to_string(vm->state());
                }
            }
            return obs + "\t" + locs;
        }, 30000, VMHIST_MEM_MB);
        for (auto& ch : out) if (ch == '\n') ch = ' ';
        std::cout << out << "\n";
    }
    return 0;
}
