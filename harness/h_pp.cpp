// C13/C14 correspondence harness: the real preprocessor (and, for RUN, the real SQF parser and VM)
// on a small file tree.
// stdin, one case per line:   <cmd> \t <hex name of main file> \t <name1hex>=<content1hex>;<name2hex>=...
//   every file is written to a fresh temp directory which is mapped as virtual root "/v"
//   (fileio().add_mapping(tmp, "/v")); an include is written  #include "/v/<name>"  by the generators.
//   The main file is one of the listed files.
// cmd PP : preprocess only.
//   stdout:  OK \t <hex of output, temp dir replaced by /T> \t <codes>     |  FAIL \t <codes>
//   codes = comma separated "level:code" of every message with level <= warning that is not a fileio trace
// cmd RUN: preprocess, parse, run to completion.
//   stdout:  <stage> \t <msgs>     stage = PPFAIL | PARSEFAIL | RAN:<result int>
//   msgs = ';' separated  level:code:filehex:line:col:texthex   of every message that carries a location or is info level
//   (file with the temp dir replaced by /T)
// cmd FRAME: FRAME \t <hex of SQF text> \t <max>: the text is parsed, a frame over its instructions is moved by frame::next() only.
//   stdout:  OK \t <line:col:offset of every instruction, ','> \t <for m = 0..max calls of next(): position|inv:line:col:offset of
//            diag_info_from_position(), ','>       |  PARSEFAIL
// any case: CRASH <sig> | TIMEOUT | OOM | EXCEPTION ... from vh::forked.
#include "sqfrt.hpp"
#include <filesystem>
#include <fstream>
using namespace vh;
namespace fs = std::filesystem;

// AddressSanitizer reserves terabytes of address space: no RLIMIT_AS there, and more time per case
#if defined(__SANITIZE_ADDRESS__)
#define VH_MEM_MB 0
#define VH_SLOW 4
#else
#define VH_MEM_MB 2048
#define VH_SLOW 1
#endif

static std::string replace_all(std::string s, const std::string& a, const std::string& b)
{
    if (a.empty()) return s;
    size_t p = 0;
    while ((p = s.find(a, p)) != std::string::npos) { s.replace(p, a.size(), b); p += b.size(); }
    return s;
}

int main(int argc, char** argv)
{
    std::string tmpl = "/tmp/verif_pp_XXXXXX";
    char* d = mkdtemp(tmpl.data());
    if (!d) { std::cerr << "mkdtemp failed\n"; return 2; }
    fs::path dir(d);
    std::string sdir = dir.string();
    std::string line;
    while (std::getline(std::cin, line))
    {
        auto f = split(line);
        if (f.size() != 3) { std::cout << "BADLINE\n"; continue; }
        for (auto& e : fs::directory_iterator(dir)) fs::remove_all(e.path());
        std::string cmd = f[0];
        if (cmd == "FRAME")
        {
            std::string code = unhex(f[1]);
            long maxm = std::stol(f[2]);
            auto res = forked([&]() -> std::string {
                VM vm(2500, true);
                sqf::runtime::fileio::pathinfo pi{ std::string(sdir + "/f.sqf"), std::string("/v/f.sqf") };
                auto set = vm.rt->parser_sqf().parse(*vm.rt, code, pi);
                if (!set.has_value()) return "PARSEFAIL";
                auto show = [](const sqf::runtime::diagnostics::diag_info& d) {
                    return std::to_string(d.line) + ":" + std::to_string(d.column) + ":" + std::to_string(d.file_offset);
                };
                std::string out = "OK\t";
                bool first = true;
                for (auto it = set->begin(); it != set->end(); ++it) { out += (first ? "" : ",") + show((*it)->diag_info()); first = false; }
                if (first) out += "-";
                out += "\t";
                sqf::runtime::frame fr(vm.rt->default_value_scope(), set.value());
                for (long m = 0; m <= maxm; m++)
                {
                    if (m > 0) { fr.next(); out += ","; }
                    out += (fr.position() == sqf::runtime::frame::position_invalid ? std::string("inv") : std::to_string(fr.position())) + ":" + show(fr.diag_info_from_position());
                }
                return out;
            }, 3000 * VH_SLOW, VH_MEM_MB, 64);
            std::cout << res << "\n";
            continue;
        }
        std::string mainname = unhex(f[1]);
        std::string maintext;
        bool have_main = false;
        for (auto& kv : split(f[2], ';'))
        {
            auto p = kv.find('=');
            if (p == std::string::npos) continue;
            std::string name = unhex(kv.substr(0, p));
            std::string content = unhex(kv.substr(p + 1));
            fs::path fp = dir / name;
            fs::create_directories(fp.parent_path());
            std::ofstream o(fp, std::ios::binary);
            o.write(content.data(), (std::streamsize)content.size());
            if (name == mainname) { maintext = content; have_main = true; }
        }
        if (!have_main) { std::cout << "BADLINE nomain\n"; continue; }
        std::string mainphys = (dir / mainname).string();
        auto res = forked([&]() -> std::string {
            VM vm(2500, cmd != "PP");
            vm.rt->fileio().add_mapping(sdir, "/v");
            sqf::runtime::fileio::pathinfo pi{ std::string(mainphys), std::string("/v/" + mainname) };
            auto codes = [&]() {
                std::string r;
                for (auto& m : vm.lg.msgs)
                    if (m.level <= 2 && !(m.code >= 60000 && m.code < 60100 && false))
                    { if (!r.empty()) r += ","; r += std::to_string(m.level) + ":" + std::to_string(m.code); }
                return r.empty() ? std::string("-") : r;
            };
            if (cmd == "PP2" || cmd == "PPX")
            {
                // the same VM has preprocessed something before: PP2 the same file, PPX another text that defines macros of common
                // names.  What is reported is the LATER result only (and the messages of that run only).
                if (cmd == "PP2") { auto first = vm.rt->parser_preprocessor().preprocess(*vm.rt, maintext, pi); (void)first; }
                else
                {
                    sqf::runtime::fileio::pathinfo other{ std::string(sdir + "/other__.sqf"), std::string("/v/other__.sqf") };
                    auto first = vm.rt->parser_preprocessor().preprocess(*vm.rt,
                        "#define FOO 1\n#define T_(x) [x]\n#define A B\n#define M1 2\n#define e(X,Y) X\nFOO T_(2) A M1 e(3,4) __COUNTER__ __LINE__\n", other);
                    (void)first;
                }
                vm.lg.msgs.clear();
                auto pp = vm.rt->parser_preprocessor().preprocess(*vm.rt, maintext, pi);
                if (!pp.has_value()) return "FAIL\t" + codes();
                return "OK\t" + hex(replace_all(*pp, sdir, "/T")) + "\t" + codes();
            }
            if (cmd == "PP")
            {
                auto pp = vm.rt->parser_preprocessor().preprocess(*vm.rt, maintext, pi);
                if (!pp.has_value()) return "FAIL\t" + codes();
                return "OK\t" + hex(replace_all(*pp, sdir, "/T")) + "\t" + codes();
            }
            else if (cmd == "RUN")
            {
                std::string stage;
                auto pp = vm.rt->parser_preprocessor().preprocess(*vm.rt, maintext, pi);
                if (!pp.has_value()) stage = "PPFAIL";
                else
                {
                    std::string src = *pp;
                    auto set = vm.rt->parser_sqf().parse(*vm.rt, src, pi);
                    if (!set.has_value()) stage = "PARSEFAIL";
                    else
                    {
                        auto ctx = vm.rt->context_create().lock();
                        sqf::runtime::frame fr(vm.rt->default_value_scope(), set.value());
                        ctx->push_frame(fr);
                        int r = vm.start();
                        stage = "RAN:" + std::to_string(r);
                    }
                }
                std::string ms;
                for (auto& m : vm.lg.msgs)
                {
                    if (!(m.level <= 3)) continue;
                    if (m.code == 60095) continue; // context dropped
                    if (!ms.empty()) ms += ";";
                    ms += std::to_string(m.level) + ":" + std::to_string(m.code) + ":" +
                          (m.has_loc ? hex(replace_all(m.file, sdir, "/T")) + ":" + std::to_string(m.line) + ":" + std::to_string(m.col) : std::string("-:-:-")) +
                          ":" + hex(replace_all(m.text, sdir, "/T"));
                }
                return stage + "\t" + (ms.empty() ? "-" : ms);
            }
            return std::string("BADCMD");
        }, (cmd == "PP" ? 1500 : (cmd == "RUN" ? 5000 : 3000)) * VH_SLOW, VH_MEM_MB, 64);
        std::cout << res << "\n";
    }
    fs::remove_all(dir);
    return 0;
}
