// Scheduler / run-history harness (C11, C12): one VM, a sequence of embedder commands, the virtual
// clock advanced between them; every diagnostic is stamped with the virtual time at which it was logged.
// stdin:  "<max_runtime_ms>;<tick_us>;<max_loop>\t<cmd>@<cmd>@..."   cmd: L<hex sqf text> | S | T<n> | A | J<us>
// stdout: obs|obs|...  \t  for every S/T command the virtual time (us) of each diag_log marker: t,t,..|t,..
//   obs:  L | LPARSEFAIL | J | S<result>:<state>:<clock before>-<clock after>:<events> | T<step>+<step>..:<events> | A<result>:<state>
//   events as in h_vm.cpp (level:code of everything at info level or worse, M<text> after diag_log / dropped value)
//
// C API histories (C11): one instance of the C API of src/export/sqfvm.cpp created WITH the time limit, the same virtual clock.
// stdin:  "api;<max_runtime_ms>;<tick_us>;<full|basic>\t<cmd>@<cmd>@..."
//   cmd: K<hex type char>:<hex text>   sqfvm_call(instance, call data = number of the command, type, text, size of the text)
//        G<hex text>                   sqfvm_load_config
//        Q                             sqfvm_status
//        J<us>                         the host lets that much time pass
// stdout: obs|obs|...\t
//   obs:  K<return value>:<sqfvm_status after the call>:<clock before>-<clock after>:<events>  (G alike)  |  Q<status>  |  J
//   events: one item per callback, each followed by a comma: <severity>:M<text> for a diag_log line, <severity>:TL for the
//           'maximum runtime reached' message (recognised by the text logmessage::runtime::MaximumRuntimeReached formats for this
//           limit, whatever the location in front of it), -1:R for the result text of type 'p', <severity>:- for everything else
//
// C API histories over SEVERAL instances in one process (C11): every instance created with its OWN time limit (0 = none).
// stdin:  "mapi;<tick_us>;<max_runtime_ms>:<full|basic>,<max_runtime_ms>:<full|basic>,...\t<cmd>@<cmd>@..."
//   cmd: C<i> create instance i | D<i> destroy it | K<i>:<hex type char>:<hex text> | G<i>:<hex text> | Q<i> | J<us>
// stdout: obs|obs|...\t      obs: C | D | K.. / G.. / Q.. / J as above; the 'maximum runtime reached' message is recognised for the
//   limit of EVERY instance of the line (the property is about when a run ends, not about the number the message prints)
#define VH_VIRTUAL_CLOCK
#include "sqfrt.hpp"
#include "export/sqfvm.h"
using namespace vh;

// an address-space limit cannot be combined with AddressSanitizer's shadow mappings
#if defined(__SANITIZE_ADDRESS__)
static const size_t MEM_MB = 0;
#else
static const size_t MEM_MB = 2048;
#endif

struct TMsg { int level; size_t code; std::string text; long long t_ns; };
class TimedLogger : public Logger
{
public:
    std::vector<TMsg> msgs;
    void log(const LogMessageBase& m) override
    {
        msgs.push_back(TMsg{ (int)m.getLevel(), m.getErrorCode(), m.formatMessage(), vh::g_clock_ns });
    }
};

struct SVM
{
    TimedLogger lg;
    std::unique_ptr<sqf::runtime::runtime> rt;
    SVM(long max_runtime_ms, size_t max_loop)
    {
        sqf::runtime::runtime::runtime_conf conf;
        conf.max_runtime = std::chrono::milliseconds(max_runtime_ms);
        conf.disable_sleep = false;
        conf.enable_classname_check = true;
        conf.disable_networking = true;
        conf.print_context_work_to_log_on_exit = true;
        rt = std::make_unique<sqf::runtime::runtime>(lg, conf);
        rt->fileio(std::make_unique<sqf::fileio::impl_default>(lg));
        rt->parser_config(std::make_unique<sqf::parser::config::parser>(lg));
        rt->parser_preprocessor(std::make_unique<sqf::parser::preprocessor::impl_default>(lg));
        rt->parser_sqf(std::make_unique<sqf::parser::sqf::parser>(lg));
        sqf::operators::ops(*rt);
        rt->configuration().max_loop_iterations_in_unscheduled = max_loop;
    }
    bool load(const std::string& text)
    {
        sqf::runtime::fileio::pathinfo pi{ std::string("verif.sqf"), std::string() };
        auto set = rt->parser_sqf().parse(*rt, text, pi);
        if (!set.has_value()) return false;
        auto ctx = rt->context_create().lock();
        sqf::runtime::frame f(rt->default_value_scope(), set.value());
        ctx->push_frame(f);
        return true;
    }
    int state() { return (int)rt->runtime_state(); }
};

static std::string observe(int res, SVM& vm)
{
    std::string o = std::to_string(res) + ":" + std::to_string(vm.state()) + ":";
    if (vm.rt->context_begin() == vm.rt->context_end()) return o + "-";
    auto& ctx = **vm.rt->context_begin();
    o += std::to_string(ctx.values_size()) + ":";
    bool first = true;
    for (auto it = ctx.frames_rbegin(); it != ctx.frames_rend(); ++it)
    {
        if (!first) o += ",";
        first = false;
        o += std::to_string((unsigned long long)(it->position() + 1)) + "/" + std::to_string(it->value_stack_pos());
    }
    return o;
}

// events since the last command (and their times), then forget them
static std::string events(SVM& vm, std::string& times)
{
    std::string o;
    bool first = true;
    for (auto& m : vm.lg.msgs)
    {
        if (m.level > 3) continue;
        o += std::to_string(m.level) + ":" + std::to_string(m.code) + ",";
        if (m.code == 60019)
        {
            auto p = m.text.find("[DIAG_LOG] ");
            o += "M<" + (p == std::string::npos ? m.text : m.text.substr(p + 11)) + ">,";
            if (!first) times += ",";
            first = false;
            times += std::to_string(m.t_ns / 1000);
        }
        else if (m.code == 60095)
        {
            const std::string a = "Context dropped with return value `";
            auto p = m.text.find(a);
            auto e = m.text.rfind("`.");
            o += "M<VALUE " + ((p != std::string::npos && e != std::string::npos && e >= p + a.size()) ? m.text.substr(p + a.size(), e - p - a.size()) : std::string("?")) + ">,";
        }
    }
    vm.lg.msgs.clear();
    return o;
}

// ---- C API histories
static std::string g_api_events;
static std::vector<std::string> g_api_tl_tails;
static void api_log(void*, void*, int32_t sev, const char* msg, uint32_t len)
{
    std::string text(msg ? msg : "", msg ? len : 0);
    g_api_events += std::to_string(sev) + ":";
    bool tl = false;
    for (auto& t : g_api_tl_tails) if (text.size() >= t.size() && text.compare(text.size() - t.size(), t.size(), t) == 0) tl = true;
    auto p = text.find("[DIAG_LOG] ");
    if (sev == -1) g_api_events += "R";
    else if (tl) g_api_events += "TL";
    else if (p != std::string::npos)
    {
        std::string t = text.substr(p + 11);
        for (auto& ch : t) if (ch == '\t' || ch == '\n' || ch == '\r' || ch == '|' || ch == ',' || ch == '<' || ch == '>') ch = ' ';
        g_api_events += "M<" + t + ">";
    }
    else g_api_events += "-";
    g_api_events += ",";
}
// what the message of the limit looks like behind its location, for the limit an instance is created with (the conversion
// from float seconds may round to a neighbouring millisecond)
static void api_add_tl_tails(long max_ms)
{
    for (long ms = std::max(0L, max_ms - 1); ms <= max_ms + 1; ms++)
    {
        LogLocationInfo loc(std::string(), 0, 0);
        std::string ref = logmessage::runtime::MaximumRuntimeReached(loc, std::chrono::milliseconds(ms)).formatMessage();
        std::string pre = loc.format();
        g_api_tl_tails.push_back(ref.size() > pre.size() ? ref.substr(pre.size()) : ref);
    }
}
// one sqfvm_call (K) / sqfvm_load_config (G) on an instance: <K|G><return>:<status after>:<clock before>-<after>:<events>
static std::string api_one_call(void* inst, char kind, const std::string& ty, const std::string& text, long k)
{
    std::string buf = text; buf.push_back('\0');
    g_api_events.clear();
    long long t0 = vh::g_clock_ns / 1000;
    long r = kind == 'K' ? (long)sqfvm_call(inst, (void*)(intptr_t)k, ty.empty() ? '\0' : ty[0], buf.data(), (uint32_t)text.size())
                         : (long)sqfvm_load_config(inst, buf.data(), (uint32_t)text.size());
    long long t1 = vh::g_clock_ns / 1000;
    int st = (int)sqfvm_status(inst);
    return std::string(1, kind) + std::to_string(r) + ":" + std::to_string(st) + ":" + std::to_string(t0) + "-" + std::to_string(t1) + ":" + g_api_events;
}
// several instances in one process, each with its own limit
static std::string mapi_history(long tick, const std::vector<std::pair<long, std::string>>& insts, const std::vector<std::string>& cmds)
{
    vh::g_clock_ns = 0;
    vh::g_clock_tick_ns = tick * 1000;
    g_api_tl_tails.clear();
    for (auto& in : insts) api_add_tl_tails(in.first);     // also for 'no limit': an abort on such an instance prints 0 ms
    std::vector<void*> live(insts.size(), nullptr);
    std::string obs;
    bool first = true;
    long k = 0;
    for (auto& c : cmds)
    {
        if (c.empty()) continue;
        if (!first) obs += "|";
        first = false;
        k++;
        if (c[0] == 'J') { vh::g_clock_ns += std::stoll(c.substr(1)) * 1000LL; obs += "J"; continue; }
        auto a = split(c.substr(1), ':');
        size_t i = a.empty() || a[0].empty() ? insts.size() : (size_t)std::stoul(a[0]);
        if (i >= insts.size()) { obs += "BADCMD"; continue; }
        if (c[0] == 'C')
        {
            if (live[i]) { obs += "BADCMD"; continue; }
            float secs = (float)insts[i].first / 1000.0f;
            live[i] = insts[i].second == "basic" ? sqfvm_create_instance_basic((void*)(intptr_t)(100 + i), api_log, secs)
                                                 : sqfvm_create_instance((void*)(intptr_t)(100 + i), api_log, secs);
            obs += live[i] ? "C" : "CFAILED";
            continue;
        }
        if (!live[i]) { obs += "BADCMD"; continue; }
        if (c[0] == 'D') { sqfvm_destroy_instance(live[i]); live[i] = nullptr; obs += "D"; }
        else if (c[0] == 'Q') { obs += "Q" + std::to_string(sqfvm_status(live[i])); }
        else if ((c[0] == 'K' && a.size() == 3) || (c[0] == 'G' && a.size() == 2))
            obs += api_one_call(live[i], c[0], c[0] == 'K' ? unhex(a[1]) : std::string(), unhex(a.back()), k);
        else obs += "BADCMD";
    }
    for (auto& p : live) if (p) sqfvm_destroy_instance(p);
    for (auto& ch : obs) if (ch == '\t') ch = ' ';
    return obs + "\t";
}
static std::string api_history(long max_ms, long tick, const std::string& set, const std::vector<std::string>& cmds)
{
    vh::g_clock_ns = 0;
    vh::g_clock_tick_ns = tick * 1000;
    g_api_tl_tails.clear();
    api_add_tl_tails(max_ms);
    float secs = (float)max_ms / 1000.0f;
    void* inst = set == "basic" ? sqfvm_create_instance_basic((void*)7, api_log, secs) : sqfvm_create_instance((void*)7, api_log, secs);
    if (!inst) return "NOINSTANCE\t";
    std::string obs;
    bool first = true;
    long k = 0;
    for (auto& c : cmds)
    {
        if (c.empty()) continue;
        if (!first) obs += "|";
        first = false;
        k++;
        if (c[0] == 'J') { vh::g_clock_ns += std::stoll(c.substr(1)) * 1000LL; obs += "J"; }
        else if (c[0] == 'Q') { obs += "Q" + std::to_string(sqfvm_status(inst)); }
        else if (c[0] == 'K' || c[0] == 'G')
        {
            auto a = split(c.substr(1), ':');
            if (a.size() != (c[0] == 'K' ? 2u : 1u)) { obs += "BADCMD"; continue; }
            obs += api_one_call(inst, c[0], c[0] == 'K' ? unhex(a[0]) : std::string(), unhex(a.back()), k);
        }
        else obs += "BADCMD";
    }
    sqfvm_destroy_instance(inst);
    for (auto& ch : obs) if (ch == '\t') ch = ' ';
    return obs + "\t";
}

int main()
{
    std::string line;
    while (std::getline(std::cin, line))
    {
        auto f = split(line);
        if (f.size() != 2) { std::cout << "BADLINE\n"; continue; }
        auto cfg = split(f[0], ';');
        if (cfg.size() == 4 && cfg[0] == "api")
        {
            long max_ms = std::stol(cfg[1]), tick = std::stol(cfg[2]);
            std::string set = cfg[3];
            auto cmds = split(f[1], '@');
            auto out = forked([&]() -> std::string { return api_history(max_ms, tick, set, cmds); }, 20000, MEM_MB);
            if (out.find('\t') == std::string::npos) out += "\t";
            std::cout << out << "\n";
            continue;
        }
        if (cfg.size() == 3 && cfg[0] == "mapi")
        {
            long tick = std::stol(cfg[1]);
            std::vector<std::pair<long, std::string>> insts;
            for (auto& e : split(cfg[2], ','))
            {
                auto lv = split(e, ':');
                if (lv.size() == 2) insts.push_back({ std::stol(lv[0]), lv[1] });
            }
            auto cmds = split(f[1], '@');
            auto out = forked([&]() -> std::string { return mapi_history(tick, insts, cmds); }, 12000, MEM_MB);
            if (out.find('\t') == std::string::npos) out += "\t";
            std::cout << out << "\n";
            continue;
        }
        if (cfg.size() != 3) { std::cout << "BADCFG\n"; continue; }
        long max_ms = std::stol(cfg[0]), tick = std::stol(cfg[1]);
        size_t max_loop = (size_t)std::stoul(cfg[2]);
        auto cmds = split(f[1], '@');
        auto out = forked([&]() -> std::string {
            vh::g_clock_ns = 0;
            vh::g_clock_tick_ns = tick * 1000;
            SVM vm(max_ms, max_loop);
            vm.lg.msgs.clear();
            std::string obs, times;
            bool first = true, firstt = true;
            for (auto& c : cmds)
            {
                if (c.empty()) continue;
                if (!first) obs += "|";
                first = false;
                if (c[0] == 'L') { obs += vm.load(unhex(c.substr(1))) ? "L" : "LPARSEFAIL"; }
                else if (c[0] == 'J') { vh::g_clock_ns += std::stoll(c.substr(1)) * 1000LL; obs += "J"; }
                else if (c[0] == 'S')
                {
                    long long t0 = vh::g_clock_ns / 1000;
                    int r = (int)vm.rt->execute(sqf::runtime::runtime::action::start);
                    long long t1 = vh::g_clock_ns / 1000;
                    std::string t;
                    obs += "S" + std::to_string(r) + ":" + std::to_string(vm.state()) + ":" + std::to_string(t0) + "-" + std::to_string(t1) + ":" + events(vm, t);
                    if (!firstt) times += "|";
                    firstt = false;
                    times += t;
                }
                else if (c[0] == 'T')
                {
                    long n = std::stol(c.substr(1));
                    std::string s;
                    for (long i = 0; i < n; i++)
                    {
                        int r = (int)vm.rt->execute(sqf::runtime::runtime::action::assembly_step);
                        if (i) s += "+";
                        s += observe(r, vm);
                        if (r != 0) break;
                    }
                    std::string t;
                    obs += "T" + s + ":" + events(vm, t);
                    if (!firstt) times += "|";
                    firstt = false;
                    times += t;
                }
                else if (c[0] == 'E')
                {
                    // an expression evaluated the way the preprocessor evaluates __EVAL(..): E<ok>:<hex value>:<state>:<t0>-<t1>:<events>
                    long long t0 = vh::g_clock_ns / 1000;
                    bool ok = false;
                    auto v = vm.rt->evaluate_expression(unhex(c.substr(1)), ok);
                    long long t1 = vh::g_clock_ns / 1000;
                    std::string t;
                    obs += std::string("E") + (ok ? "1" : "0") + ":" + hex(ok && !v.empty() ? v.to_string_sqf() : std::string()) + ":" + std::to_string(vm.state()) + ":"
                         + std::to_string(t0) + "-" + std::to_string(t1) + ":" + events(vm, t);
                }
                else if (c[0] == 'A')
                {
                    int r = (int)vm.rt->execute(sqf::runtime::runtime::action::abort);
                    obs += "A" + std::to_string(r) + ":" + std::to_string(vm.state());
                    vm.lg.msgs.clear();
                }
                else obs += "BADCMD";
            }
            for (auto& ch : obs) if (ch == '\t') ch = ' ';
            return obs + "\t" + times;
        }, 8000, MEM_MB);
        if (out.find('\t') == std::string::npos) out += "\t";
        std::cout << out << "\n";
    }
    return 0;
}
