// Scheduler / run-history harness (C11, C12): one VM, a sequence of embedder commands, the virtual
// clock advanced between them; every diagnostic is stamped with the virtual time at which it was logged.
// stdin:  "<max_runtime_ms>;<tick_us>;<max_loop>\t<cmd>@<cmd>@..."   cmd: L<hex sqf text> | S | T<n> | A | J<us>
// stdout: obs|obs|...  \t  for every S/T command the virtual time (us) of each diag_log marker: t,t,..|t,..
//   obs:  L | LPARSEFAIL | J | S<result>:<state>:<clock before>-<clock after>:<events> | T<step>+<step>..:<events> | A<result>:<state>
//   events as in h_vm.cpp (level:code of everything at info level or worse, M<text> after diag_log / dropped value)
#define VH_VIRTUAL_CLOCK
#include "sqfrt.hpp"
using namespace vh;

// an address-space limit cannot be combined with AddressSanitizer's shadow mappings
#if defined(__SANITIZE_ADDRESS__)
static const size_t MEM_MB = 0;
#else
static const size_t MEM_MB = 2048;
#endif

struct TMsg { int level; size_t code; std::string text; long long t_ns; };
class TimedLogger : public Logger
{
public:
    std::vector<TMsg> msgs;
    void log(const LogMessageBase& m) override
    {
        msgs.push_back(TMsg{ (int)m.getLevel(), m.getErrorCode(), m.formatMessage(), vh::g_clock_ns });
    }
};

struct SVM
{
    TimedLogger lg;
    std::unique_ptr<sqf::runtime::runtime> rt;
    SVM(long max_runtime_ms, size_t max_loop)
    {
        sqf::runtime::runtime::runtime_conf conf;
        conf.max_runtime = std::chrono::milliseconds(max_runtime_ms);
        conf.disable_sleep = false;
        conf.enable_classname_check = true;
        conf.disable_networking = true;
        conf.print_context_work_to_log_on_exit = true;
        rt = std::make_unique<sqf::runtime::runtime>(lg, conf);
        rt->fileio(std::make_unique<sqf::fileio::impl_default>(lg));
        rt->parser_config(std::make_unique<sqf::parser::config::parser>(lg));
        rt->parser_preprocessor(std::make_unique<sqf::parser::preprocessor::impl_default>(lg));
        rt->parser_sqf(std::make_unique<sqf::parser::sqf::parser>(lg));
        sqf::operators::ops(*rt);
        rt->configuration().max_loop_iterations_in_unscheduled = max_loop;
    }
    bool load(const std::string& text)
    {
        sqf::runtime::fileio::pathinfo pi{ std::string("verif.sqf"), std::string() };
        auto set = rt->parser_sqf().parse(*rt, text, pi);
        if (!set.has_value()) return false;
        auto ctx = rt->context_create().lock();
        sqf::runtime::frame f(rt->default_value_scope(), set.value());
        ctx->push_frame(f);
        return true;
    }
    int state() { return (int)rt->runtime_state(); }
};

static std::string observe(int res, SVM& vm)
{
    std::string o = std::to_string(res) + ":" + std::to_string(vm.state()) + ":";
    if (vm.rt->context_begin() == vm.rt->context_end()) return o + "-";
    auto& ctx = **vm.rt->context_begin();
    o += std::to_string(ctx.values_size()) + ":";
    bool first = true;
    for (auto it = ctx.frames_rbegin(); it != ctx.frames_rend(); ++it)
    {
        if (!first) o += ",";
        first = false;
        o += std::to_string((unsigned long long)(it->position() + 1)) + "/" + std::to_string(it->value_stack_pos());
    }
    return o;
}

// events since the last command (and their times), then forget them
static std::string events(SVM& vm, std::string& times)
{
    std::string o;
    bool first = true;
    for (auto& m : vm.lg.msgs)
    {
        if (m.level > 3) continue;
        o += std::to_string(m.level) + ":" + std::to_string(m.code) + ",";
        if (m.code == 60019)
        {
            auto p = m.text.find("[DIAG_LOG] ");
            o += "M<" + (p == std::string::npos ? m.text : m.text.substr(p + 11)) + ">,";
            if (!first) times += ",";
            first = false;
            times += std::to_string(m.t_ns / 1000);
        }
        else if (m.code == 60095)
        {
            const std::string a = "Context dropped with return value `";
            auto p = m.text.find(a);
            auto e = m.text.rfind("`.");
            o += "M<VALUE " + ((p != std::string::npos && e != std::string::npos && e >= p + a.size()) ? m.text.substr(p + a.size(), e - p - a.size()) : std::string("?")) + ">,";
        }
    }
    vm.lg.msgs.clear();
    return o;
}

int main()
{
    std::string line;
    while (std::getline(std::cin, line))
    {
        auto f = split(line);
        if (f.size() != 2) { std::cout << "BADLINE\n"; continue; }
        auto cfg = split(f[0], ';');
        if (cfg.size() != 3) { std::cout << "BADCFG\n"; continue; }
        long max_ms = std::stol(cfg[0]), tick = std::stol(cfg[1]);
        size_t max_loop = (size_t)std::stoul(cfg[2]);
        auto cmds = split(f[1], '@');
        auto out = forked([&]() -> std::string {
            vh::g_clock_ns = 0;
            vh::g_clock_tick_ns = tick * 1000;
            SVM vm(max_ms, max_loop);
            vm.lg.msgs.clear();
            std::string obs, times;
            bool first = true, firstt = true;
            for (auto& c : cmds)
            {
                if (c.empty()) continue;
                if (!first) obs += "|";
                first = false;
                if (c[0] == 'L') { obs += vm.load(unhex(c.substr(1))) ? "L" : "LPARSEFAIL"; }
                else if (c[0] == 'J') { vh::g_clock_ns += std::stoll(c.substr(1)) * 1000LL; obs += "J"; }
                else if (c[0] == 'S')
                {
                    long long t0 = vh::g_clock_ns / 1000;
                    int r = (int)vm.rt->execute(sqf::runtime::runtime::action::start);
                    long long t1 = vh::g_clock_ns / 1000;
                    std::string t;
                    obs += "S" + std::to_string(r) + ":" + std::to_string(vm.state()) + ":" + std::to_string(t0) + "-" + std::to_string(t1) + ":" + events(vm, t);
                    if (!firstt) times += "|";
                    firstt = false;
                    times += t;
                }
                else if (c[0] == 'T')
                {
                    long n = std::stol(c.substr(1));
                    std::string s;
                    for (long i = 0; i < n; i++)
                    {
                        int r = (int)vm.rt->execute(sqf::runtime::runtime::action::assembly_step);
                        if (i) s += "+";
                        s += observe(r, vm);
                        if (r != 0) break;
                    }
                    std::string t;
                    obs += "T" + s + ":" + events(vm, t);
                    if (!firstt) times += "|";
                    firstt = false;
                    times += t;
                }
                else if (c[0] == 'E')
                {
                    // an expression evaluated the way the preprocessor evaluates __EVAL(..): E<ok>:<hex value>:<state>:<t0>-<t1>:<events>
                    long long t0 = vh::g_clock_ns / 1000;
                    bool ok = false;
                    auto v = vm.rt->evaluate_expression(unhex(c.substr(1)), ok);
                    long long t1 = vh::g_clock_ns / 1000;
                    std::string t;
                    obs += std::string("E") + (ok ? "1" : "0") + ":" + hex(ok && !v.empty() ? v.to_string_sqf() : std::string()) + ":" + std::to_string(vm.state()) + ":"
                         + std::to_string(t0) + "-" + std::to_string(t1) + ":" + events(vm, t);
                }
                else if (c[0] == 'A')
                {
                    int r = (int)vm.rt->execute(sqf::runtime::runtime::action::abort);
                    obs += "A" + std::to_string(r) + ":" + std::to_string(vm.state());
                    vm.lg.msgs.clear();
                }
                else obs += "BADCMD";
            }
            for (auto& ch : obs) if (ch == '\t') ch = ' ';
            return obs + "\t" + times;
        }, 8000, MEM_MB);
        if (out.find('\t') == std::string::npos) out += "\t";
        std::cout << out << "\n";
    }
    return 0;
}
