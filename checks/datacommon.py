"""Shared machinery of the C07 / C08 checks (area `data`): value trees and operations in the
token syntax of ocaml/data_driver.ml, seeded generators, the two-phase run (model first: it
renders the SQF text and says which operations it has semantics for; then the implementation)
and the record-by-record comparison."""
import json, os, re
import vcommon as V

# ------------------------------------------------------------------------------- values
# trees: ('n',) nil | ('i', t) t/2 | ('z',) -0 | ('N', id) NaN | ('P',) +inf | ('Q',) -inf | ('b', bool)
#        ('s', bytes) | ('C', [instr]) | ('A', [tree]) | ('M', [(key, value)])
# instr: ('pn', scalar tree) | ('ps', bytes) | ('o', kind, bytes)


def tok(t):
    k = t[0]
    if k == 'n': return "n"
    if k == 'i': return "i%d" % t[1]
    if k == 'z': return "z"
    if k == 'N': return "N%d" % t[1]
    if k == 'P': return "P"
    if k == 'Q': return "Q"
    if k == 'b': return "t" if t[1] else "f"
    if k == 's': return "s" + V.hx(t[1])
    if k == 'C': return "( C " + " ".join(itok(i) for i in t[1]) + (" " if t[1] else "") + ")"
    if k == 'A': return "( A " + " ".join(tok(x) for x in t[1]) + (" " if t[1] else "") + ")"
    if k == 'M': return "( M " + " ".join(tok(a) + " " + tok(b) for a, b in t[1]) + (" " if t[1] else "") + ")"
    raise ValueError(t)


def itok(i):
    if i[0] == 'pn': return "p" + tok(i[1])
    if i[0] == 'ps': return "ps" + V.hx(i[1])
    return "o%d:%s" % (i[1], V.hx(i[2]))


def shift_nan(t, off):
    """the same expression evaluated a second time: every NaN is a different object"""
    k = t[0]
    if k == 'N': return ('N', t[1] + off)
    if k == 'A': return ('A', [shift_nan(x, off) for x in t[1]])
    if k == 'M': return ('M', [(shift_nan(a, off), shift_nan(b, off)) for a, b in t[1]])
    return t


def num(x):
    """x a multiple of one half"""
    return ('i', int(round(x * 2)))


def s(b):
    return ('s', b if isinstance(b, bytes) else b.encode())


def arr(*xs):
    return ('A', list(xs))


def hmap(*kv):
    return ('M', list(kv))


NIL = ('n',)
NEGZERO = ('z',)
TRUE, FALSE = ('b', True), ('b', False)

# code values: instruction lists (the model prints them; the implementation parses that text)
CODE = {
    "{}": [],
    "{0}": [('pn', num(0))],
    "{-0}": [('pn', NEGZERO)],
    "{1}": [('pn', num(1))],
    "{0.5}": [('pn', num(0.5))],
    '{"a"}': [('ps', b"a")],
    '{"A"}': [('ps', b"A")],
    "{a}": [('o', 3, b"a")],
    "{A}": [('o', 3, b"A")],
    "{foo}": [('o', 3, b"foo")],
    "{1 + 1}": [('pn', num(1)), ('pn', num(1)), ('o', 1, b"+")],
    "{0; 1}": [('pn', num(0)), ('o', 6, b""), ('pn', num(1))],
    "{-0; 1}": [('pn', NEGZERO), ('o', 6, b""), ('pn', num(1))],
    "{x = 1}": [('pn', num(1)), ('o', 4, b"x")],
    # variable names of which one is a prefix of the other
    "{_i + 1}": [('o', 3, b"_i"), ('pn', num(1)), ('o', 1, b"+")],
    "{_idx + 1}": [('o', 3, b"_idx"), ('pn', num(1)), ('o', 1, b"+")],
    "{hits}": [('o', 3, b"hits")],
    "{hitsTotal}": [('o', 3, b"hitsTotal")],
    "{n = 1}": [('pn', num(1)), ('o', 4, b"n")],
    "{num = 1}": [('pn', num(1)), ('o', 4, b"num")],
}


def code(name):
    return ('C', CODE[name])


def assembly(instrs):
    """what assembly__ reports for an instruction list (checked against the implementation)"""
    out = []
    for i in instrs:
        if i[0] == 'pn':
            out.append("PUSH " + scalar_text(i[1]))
        elif i[0] == 'ps':
            out.append('PUSH "' + i[1].decode().replace('"', '""') + '"')
        else:
            nm = i[2].decode()
            out.append({0: "CALLUNARY " + nm, 1: "CALLBINARY " + nm, 2: "CALLNULAR " + nm, 3: "GETVARIABLE " + nm,
                        4: "ASSIGNTO " + nm, 5: "ASSIGNTOLOCAL " + nm, 6: "ENDSTATEMENT", 7: "MAKEARRAY " + nm}[i[1]])
    return out


def scalar_text(t):
    if t[0] == 'z': return "-0"
    v = t[1]
    sgn = "-" if v < 0 else ""
    return sgn + str(abs(v) // 2) + (".5" if v % 2 else "")


# ------------------------------------------------------------------------------- operands / operations

def V_(n): return "v%d" % n
_NAN = [1000000]


def fresh_nan(t):
    """every evaluation of a literal makes new objects: each NaN occurrence gets its own identity"""
    k = t[0]
    if k == 'N':
        _NAN[0] += 1
        return ('N', _NAN[0])
    if k == 'A': return ('A', [fresh_nan(x) for x in t[1]])
    if k == 'M': return ('M', [(fresh_nan(a), fresh_nan(b)) for a, b in t[1]])
    return t


def L_(t): return "( L %s )" % tok(fresh_nan(t))
def S_(n, i): return "( S %d %d )" % (n, i)
def W_(n): return "( W %d )" % n


def op(name, *args):
    return "( " + name + " " + " ".join(str(a) for a in args) + " )"


# ------------------------------------------------------------------------------- diagnostics table (translator)

LEVELS = {"fatal": 0, "error": 1, "warning": 2, "info": 3, "verbose": 4, "trace": 5}


def diag_table():
    """message class -> (level, errorCode), read from the working tree's logging.h"""
    src = open(os.path.join(V.REPO, "src", "runtime", "logging.h"), encoding="latin-1").read()
    tab = {}
    for m in re.finditer(r"class\s+(\w+)\s*(?:final\s*)?:\s*public\s+\w+\s*\{", src):
        d, k = 0, m.end() - 1
        for k in range(m.end() - 1, len(src)):
            if src[k] == "{": d += 1
            elif src[k] == "}":
                d -= 1
                if d == 0: break
        cls = src[m.end():k]
        lv = re.search(r"\blevel\s*=\s*(?:\w+::)*loglevel::(\w+)\s*;", cls)
        cd = re.search(r"\berrorCode\s*=\s*(\d+)\s*;", cls)
        if lv and cd:
            tab.setdefault(m.group(1), (LEVELS[lv.group(1)], int(cd.group(1))))
    return tab


# ------------------------------------------------------------------------------- running

CRASHY = ("CRASH", "TIMEOUT", "OOM", "EXCEPTION", "EXIT", "HARNESS", "HARNESS-LOST")


def text(h):
    if h in ("_", "U", "V"):
        return h
    try:
        return V.unhx(h).decode("latin-1")
    except Exception:
        return "?" + h


class Case:
    def __init__(self, kind, nvars, ops, what=None, oracle=None):
        self.kind, self.nvars, self.ops, self.what, self.oracle = kind, nvars, ops, what, oracle or []

    def replay(self):
        return {"kind": self.kind, "nvars": self.nvars, "ops": self.ops, "what": self.what, "oracle": self.oracle}


def run_cases(run, cases, drv, himpl, dflags="000000"):
    """Two-phase run. Returns list of dict(case, model=[records], impl=[records], sqf=[texts])."""
    lines = ["\t".join(["H", dflags, str(c.nvars)] + c.ops) for c in cases]
    rc, mout, err = V.run_lines_parallel([drv], lines, timeout=3000)
    hl = []
    parsed = []
    for c, ml in zip(cases, mout):
        recs = [r.split(";") for r in ml.split("\t")] if ml else []
        if ml.startswith("PARSE") or ml.startswith("BADLINE") or ml.startswith("MODEL-"):
            raise RuntimeError("driver rejected a generated history: %s / %s" % (ml, c.ops))
        sent = []
        for r in recs:
            if r[0] == "I":
                continue
            if r[0] == "U":
                break          # undefined behaviour predicted: not run, the model has no prediction beyond this point
            sent.append(r)
        names = ",".join("v%d" % i for i in range(c.nvars)) or "-"
        hl.append("\t".join([names] + [r[1] for r in sent]))
        parsed.append((recs, sent))
    rc2, iout, err2 = V.run_lines_parallel([himpl], hl, timeout=3000)
    res = []
    for c, (recs, sent), il in zip(cases, parsed, iout):
        irecs = il.split("\t") if il else []
        # CRASH <sig> / EXCEPTION <what> / EXIT <code> come as two TAB separated fields
        if len(irecs) >= 2 and irecs[-2] in ("CRASH", "EXCEPTION", "EXIT"):
            irecs = irecs[:-2] + [irecs[-2] + " " + irecs[-1]]
        res.append({"case": c, "model_all": recs, "model": sent, "impl": irecs})
    return res


def expected_codes(names, tab):
    out = []
    err = False
    for n in names:
        if n not in tab:
            out.append("?" + n)
            continue
        lv, code = tab[n]
        out.append("%d:%d" % (lv, code))
        if lv <= 1:
            err = True
    return out, err


def compare(r, tab, stack_code):
    """Compare one history record by record.
    Returns None or dict(index, why, crash=bool, model=..., impl=..., sqf=...)."""
    c = r["case"]
    model, impl = r["model"], r["impl"]
    for i, m in enumerate(model):
        sqf = text(m[1])
        it = impl[i] if i < len(impl) else None
        crashed = it is None or it.split(";")[0].split("\t")[0] in CRASHY or (it.split(" ")[0] in CRASHY)
        if m[0] == "V":
            # the model says the C++ recursion does not end here
            if crashed:
                return None
            return {"index": i, "why": "model predicts non-termination, implementation answered", "crash": False, "sqf": sqf,
                    "model": "DIVERGES", "impl": it}
        mv = m[4:]
        mdiverge = any(x in ("V", "U") for x in mv) or (len(m) > 3 and m[3] in ("V", "U"))
        if crashed:
            if mdiverge:
                return None
            return {"index": i, "why": "implementation crashed / hung / threw (%s)" % (it or "no record"), "crash": True, "sqf": sqf,
                    "model": ";".join(text(x.split(":")[1]) if ":" in x else x for x in mv), "impl": it}
        if mdiverge:
            return {"index": i, "why": "model predicts a print that does not terminate, implementation answered", "crash": False,
                    "sqf": sqf, "model": "DIVERGES", "impl": it}
        f = it.split(";")
        names = [x for x in m[2].split(",") if x]
        exp, iserr = expected_codes(names, tab)
        if iserr:
            exp.append("0:%d" % stack_code)
        got = [x for x in f[0].split(",") if x]
        if got != exp:
            return {"index": i, "why": "diagnostics differ: expected %s got %s" % (exp, got), "crash": False, "sqf": sqf,
                    "model": m[2], "impl": f[0]}
        mr = m[3]
        # an error aborts the statement; whether r_ was assigned before the abort is the VM's error
        # bookkeeping (not this property): both are accepted
        if f[1] != mr and not (iserr and mr != "_" and f[1] == V.hx(b"nil")):
            return {"index": i, "why": "result differs: expected %s got %s" % (text(mr), text(f[1])), "crash": False, "sqf": sqf,
                    "model": text(mr), "impl": text(f[1])}
        for vi, (a, b) in enumerate(zip(mv, f[2:])):
            ms, mc, mo = a.split(":")
            is_, ic = b.split(":")
            same_raw = (ms == is_) if mo == "0" else (sorted(V.unhx(ms)) == sorted(V.unhx(is_)))
            if mc != ic or not same_raw:
                return {"index": i, "why": "v%d differs: expected %s got %s (raw %s)" % (vi, text(mc), text(ic), text(is_)), "crash": False,
                        "sqf": sqf, "model": text(mc), "impl": text(ic)}
    if len(impl) > len(model):
        extra = impl[len(model)]
        if extra.split(" ")[0] in CRASHY or extra.split("\t")[0] in CRASHY:
            return {"index": len(model), "why": "implementation crashed after the last statement (%s)" % extra, "crash": True,
                    "sqf": "", "model": "", "impl": extra}
    return None


def check_oracle(r):
    """assertions of a corpus case that come from the property text itself:
    [op index (among the ops the model keeps), 'R' | 'vN', expected canonical print]"""
    bad = []
    impl = r["impl"]
    for idx, what, exp in r["case"].oracle:
        if idx >= len(impl) or impl[idx].split(" ")[0] in CRASHY or impl[idx].split("\t")[0] in CRASHY:
            bad.append("statement %d did not complete (%s)" % (idx, impl[idx] if idx < len(impl) else "missing"))
            continue
        f = impl[idx].split(";")
        got = text(f[1]) if what == "R" else text(f[2 + int(what[1:])].split(":")[1])
        if got != exp:
            bad.append("after statement %d %s is %s, the property demands %s" % (idx, what, got, exp))
    return bad


def equal_keys_agree(r):
    """C07, judged on the implementation's own answers: where `x isEqualTo y` is true, looking x up in a HashMap and
    looking y up give the same answer (`get`, `in`).  Applies to the probe block of Gen.nested_key_history:
    five consecutive statements  x isEqualTo y | m get x | m get y | x in m | y in m."""
    bad = []
    st = sqf_of(r)
    impl = r["impl"]
    def val(i):
        if i >= len(impl) or impl[i].split(" ")[0] in CRASHY or impl[i].split("\t")[0] in CRASHY:
            return None
        return text(impl[i].split(";")[1])
    for i in range(len(st) - 4):
        m = re.match(r"r_ = \[(v\d+) isEqualTo (.*)\]$", st[i])
        if not m:
            continue
        x, y = m.group(1), m.group(2)
        g = re.match(r"r_ = \[(v\d+) get " + re.escape(x) + r"\]$", st[i + 1])
        if not g or st[i + 2] != "r_ = [%s get %s]" % (g.group(1), y):
            continue
        if st[i + 3] != "r_ = [%s in %s]" % (x, g.group(1)) or st[i + 4] != "r_ = [%s in %s]" % (y, g.group(1)):
            continue
        vals = [val(i + k) for k in range(5)]
        if None in vals or vals[0] != "[true]":
            continue
        if vals[1] != vals[2]:
            bad.append("%s isEqualTo %s is true, but %s get %s is %s and %s get %s is %s (statements %d-%d)"
                       % (x, y, g.group(1), x, vals[1], g.group(1), y, vals[2], i, i + 2))
        if vals[3] != vals[4]:
            bad.append("%s isEqualTo %s is true, but %s in %s is %s and %s in %s is %s (statements %d-%d)"
                       % (x, y, x, g.group(1), vals[3], y, g.group(1), vals[4], i, i + 4))
    return bad


def sqf_of(r):
    return [text(m[1]) for m in r["model"]]


def load_corpus(pid):
    out = []
    cdir = os.path.join(V.VERIF, "corpus", pid)
    if os.path.isdir(cdir):
        for fn in sorted(os.listdir(cdir)):
            j = json.load(open(os.path.join(cdir, fn)))
            if "ops" in j:
                out.append(Case("corpus:" + fn, j["nvars"], j["ops"], j.get("what"), j.get("oracle")))
    return out


# ------------------------------------------------------------------------------- generators

class Gen:
    def __init__(self, rng):
        self.rng = rng
        self.nan = 0

    def scalar(self, special=0.25):
        r = self.rng
        if r.random() < special:
            k = r.choice(["z", "N", "P", "Q", "zero"])
            if k == "z": return NEGZERO
            if k == "N":
                self.nan += 1
                return ('N', self.nan)
            if k == "P": return ('P',)
            if k == "Q": return ('Q',)
            return num(0)
        return ('i', r.choice([0, 1, 2, 2, 3, 4, 5, 6, -1, -2, -3, 7, 20, 199]))

    def leaf(self):
        r = self.rng
        k = r.random()
        if k < 0.45: return self.scalar()
        if k < 0.65: return s(r.choice([b"a", b"A", b"ab", b"aB", b"", b'q"', b"b"]))
        if k < 0.75: return ('b', r.random() < 0.5)
        if k < 0.9: return code(r.choice(list(CODE)))
        return NIL

    def value(self, depth=2, maps=True):
        r = self.rng
        k = r.random()
        if depth <= 0 or k < 0.45:
            return self.leaf()
        if k < 0.85 or not maps:
            return ('A', [self.value(depth - 1, maps) for _ in range(r.choice([0, 1, 1, 2, 2, 3]))])
        return ('M', [(self.key(depth - 1), self.value(depth - 1, maps)) for _ in range(r.choice([0, 1, 2, 3]))])

    def key(self, depth=1):
        r = self.rng
        k = r.random()
        if depth <= 0 or k < 0.6:
            t = self.leaf()
            return t
        return ('A', [self.key(depth - 1) for _ in range(r.choice([0, 1, 2]))])

    def array(self, depth=2, maps=True):
        return ('A', [self.value(depth - 1, maps) for _ in range(self.rng.choice([0, 1, 2, 3, 4]))])

    def idx(self):
        return self.rng.choice([0, 0, 1, 2, 2, 3, 4, 5, 6, 8, 11, -1, -2, -3, 20, 40])

    def operand(self, nv, lit=0.35, arrays_only=False, kinds=None):
        r = self.rng
        k = r.random()
        if k < lit:
            return L_(self.array() if arrays_only else self.value())
        pool = list(range(nv))
        if kinds is not None and arrays_only:
            pool = [i for i in pool if kinds[i] == 'A'] or pool
        if k < lit + 0.12 and not arrays_only:
            return S_(r.choice([i for i in pool if kinds is None or kinds[i] == 'A'] or pool), r.choice([0, 0, 1, 2, 3]))
        if k < lit + 0.2:
            return W_(r.choice(pool))
        return V_(r.choice(pool))

    def target(self, nv, kinds=None, want='A'):
        r = self.rng
        pool = [i for i in range(nv) if kinds is None or kinds[i] == want] or list(range(nv))
        arrs = [i for i in range(nv) if kinds is None or kinds[i] == 'A'] or list(range(nv))
        return S_(r.choice(arrs), r.choice([0, 1, 2])) if r.random() < 0.12 else V_(r.choice(pool))

    # ---- C08: aliasing histories over arrays (and a few HashMaps)
    def alias_history(self, nv=6, nops=40):
        r = self.rng
        ops = []
        kinds = ['A'] * nv
        for i in range(nv):
            if i < 4 or r.random() < 0.5:
                ops.append(op("asg", i, L_(self.array())))
            else:
                ops.append(op("newmap", i)); kinds[i] = 'M'
        while len(ops) < nops:
            k = r.random()
            T, X = self.target(nv, kinds), self.operand(nv, kinds=kinds)
            d = r.randrange(nv)
            A = lambda lit=0.3: self.operand(nv, lit=lit, arrays_only=True, kinds=kinds)
            if k < 0.07:
                src = r.randrange(nv)
                ops.append(op("asg", d, V_(src))); kinds[d] = kinds[src]
            elif k < 0.17: ops.append(op("pb", T, X))
            elif k < 0.22: ops.append(op("pbu", T, X))
            elif k < 0.32: ops.append(op("set", T, self.idx(), X))
            elif k < 0.40: ops.append(op("app", T, A()))
            elif k < 0.45: ops.append(op("dela", T, self.idx()))
            elif k < 0.50: ops.append(op("delr", T, self.idx(), self.idx()))
            elif k < 0.54: ops.append(op("rsz", T, r.choice([0, 2, 4, 6, 3, 10, -1, -2, -4])))
            elif k < 0.57: ops.append(op("rev", T))
            elif k < 0.60: ops.append(op("sort", T, r.choice("tf")))
            elif k < 0.65:
                src = r.randrange(nv)
                ops.append(op("copy", d, V_(src))); kinds[d] = kinds[src]
            elif k < 0.70: ops.append(op("cat", d, A(), A())); kinds[d] = 'A'
            elif k < 0.74: ops.append(op("minus", d, A(), A())); kinds[d] = 'A'
            elif k < 0.79: ops.append(op("selr", d, A(0.1), self.idx(), self.idx())); kinds[d] = 'A'
            elif k < 0.82: ops.append(op("iseq", self.operand(nv, kinds=kinds), self.operand(nv, kinds=kinds)))
            elif k < 0.85: ops.append(op("find", self.target(nv, kinds), X))
            elif k < 0.87: ops.append(op("in", X, V_(r.randrange(nv))))
            elif k < 0.89: ops.append(op("count", V_(r.randrange(nv))))
            elif k < 0.91: ops.append(op("newmap", d)); kinds[d] = 'M'
            elif k < 0.97: ops.append(op("mset", self.target(nv, kinds, 'M'), L_(self.key()) if r.random() < 0.7 else X, X))
            elif k < 0.985:
                ops.append(op("mfa", d, L_(('A', [arr(self.key(), self.value(1)) for _ in range(r.choice([0, 1, 2]))])))); kinds[d] = 'M'
            else: ops.append(op("get", self.target(nv, kinds, 'M'), L_(self.key())))
        return ops

    # ---- C08: a table whose rows are also held elsewhere: operators that rearrange the table must keep the row OBJECTS
    def shared_rows_history(self):
        r = self.rng
        ops = []
        nrows = r.choice([2, 3, 3, 4])
        keys = r.sample([1, 2, 3, 5, 8, 13, 21], nrows)
        for i in range(nrows):    # v0..v3: rows [key, tag]
            ops.append(op("asg", i, L_(('A', [num(keys[i]), s("r%d" % i)]))))
        T = 4                     # v4: the table, holding the rows themselves
        ops.append(op("asg", T, L_(('A', []))))
        for i in r.sample(range(nrows), nrows):
            ops.append(op("pb", V_(T), V_(i)))
        ops.append(op("asg", 5, V_(T)))                       # v5: a second name of the table
        for _ in range(r.choice([1, 2])):
            k = r.random()
            if k < 0.5: ops.append(op("sort", V_(r.choice([T, 5])), r.choice("tf")))
            elif k < 0.75: ops.append(op("rev", V_(T)))
            else: ops.append(op("rsz", V_(T), nrows))
        # now change rows through their own names and through table slots; every holder must see it
        for _ in range(r.choice([2, 3])):
            i = r.randrange(nrows)
            k = r.random()
            if k < 0.4: ops.append(op("pb", V_(i), L_(s("more"))))
            elif k < 0.7: ops.append(op("set", V_(i), 1, L_(s("changed%d" % i))))
            else: ops.append(op("pb", S_(T, r.randrange(nrows)), L_(num(99))))
        ops.append(op("iseq", V_(T), V_(5)))
        return ops

    # ---- C08: sort of a TABLE (the model's sort_table): rows of one shape (columns of numbers incl. NaN / -0 / infinities, strings,
    #      and columns the comparator passes over: booleans, nil, code, nested arrays), held by variables and by the table (some rows
    #      only by the table, some twice), a second name of the table; sort ascending / descending through either name, then rows are
    #      changed through their variable or through a slot of the table (key columns too: the next sort moves them; a pushBack on a
    #      row makes the next sort refuse the table); now and then a row of another shape / size or an element that is no row.
    def table_cell(self, kind, j=None):
        r = self.rng
        if kind == 'num':
            if j is not None: return ('i', 2 * j + r.choice([0, 0, 1]))
            return self.scalar(1.0) if r.random() < 0.25 else ('i', r.randint(-6, 14))
        if kind == 'str':
            if j is not None: return s(b"k%02d" % j)
            return s(r.choice([b"a", b"A", b"ab", b"aB", b"", b"b", b"B", b"a b", b"ba", b"~", b"0", b"10", b"9"]))
        if kind == 'bool': return ('b', r.random() < 0.5)
        if kind == 'arr': return arr(*[num(r.randint(0, 3)) for _ in range(r.choice([0, 1, 2]))])
        if kind == 'code': return code(r.choice(["{}", "{0}", "{1}"]))
        return NIL

    def table_history(self):
        r = self.rng
        ncol = r.choice([1, 2, 2, 3, 4])
        cols = [r.choice(['num', 'num', 'num', 'str', 'str', 'bool', 'arr', 'nil', 'code']) for _ in range(ncol)]
        if r.random() < 0.85:
            cols[0] = r.choice(['num', 'str'])
        keycols = [i for i, k in enumerate(cols) if k in ('num', 'str')]
        big = r.random() < 0.12
        nrows = r.randint(17, 40) if big else r.choice([2, 3, 3, 4, 5, 6])
        distinct = big or r.random() < 0.75
        order = r.sample(range(nrows), nrows)

        def row(i):
            cells = [self.table_cell(k) for k in cols]
            if distinct and keycols:
                cells[keycols[0]] = self.table_cell(cols[keycols[0]], order[i])
            q = r.random()
            if q < 0.02: cells.append(num(1))                                                  # a longer row
            elif q < 0.04 and cells: cells[r.randrange(len(cells))] = r.choice([s(b"x"), num(3), TRUE, arr()])   # another type somewhere
            return ('A', cells)
        ops = []
        T, U = 4, 5
        nheld = min(nrows, 4)
        if big:
            ops.append(op("asg", T, L_(('A', [row(i) for i in range(nrows)]))))
            for i in range(nheld):                                   # v0..v3: names of rows that live in the table
                ops.append(op("asg", i, S_(T, r.randrange(nrows))))
        else:
            for i in range(nheld):
                ops.append(op("asg", i, L_(row(i))))
            ops.append(op("asg", T, L_(('A', []))))
            for i in r.sample(range(nrows), nrows):
                ops.append(op("pb", V_(T), V_(i) if i < nheld else L_(row(i))))
            if r.random() < 0.12: ops.append(op("pb", V_(T), V_(r.randrange(nheld))))          # one row twice
            if r.random() < 0.04: ops.append(op("pb", V_(T), L_(r.choice([num(1), s(b"x"), hmap()]))))   # an element that is no row
        ops.append(op("asg", U, V_(T)))

        def change():
            k = r.random()
            i = r.randrange(nheld)
            c = r.randrange(ncol)
            who = V_(i) if r.random() < 0.6 else S_(r.choice([T, U]), r.randrange(min(nrows, 6)))
            if k < 0.70: return op("set", who, 2 * c, L_(self.table_cell(cols[c])))
            if k < 0.76: return op("pb", who, L_(self.table_cell(r.choice(['num', 'str']))))
            if k < 0.80: return op("dela", who, 2 * c)
            if k < 0.92: return op("rev", V_(r.choice([T, U])))
            return op("dela", V_(r.choice([T, U])), 2 * r.randrange(min(nrows, 4)))
        for _ in range(r.choice([1, 2, 3, 4])):
            ops.append(op("sort", V_(r.choice([T, U])), r.choice("tf")))
            for _ in range(r.choice([0, 1, 1, 2, 3])):
                ops.append(change())
        ops.append(op("sort", V_(r.choice([T, U])), r.choice("tf")))
        ops.append(op("pb", V_(r.randrange(nheld)), L_(s(b"end"))))
        ops.append(op("iseq", V_(T), V_(U)))
        return ops

    # ---- C08: attempts to make a container contain itself, through every inserting operator
    def cycle_history(self, nv=4):
        r = self.rng
        ops = [op("asg", 0, L_(self.array(1, False))), op("asg", 1, L_(self.array(1, False)))]
        if r.random() < 0.6:
            ops.append(op("newmap", 2))
        else:
            ops.append(op("asg", 2, L_(self.array(1, False))))
        ops.append(op("asg", 3, r.choice([V_(0), V_(1), V_(2), L_(arr())])))

        def ins(t, x):
            k = r.random()
            if k < 0.2: return op("pb", t, x)
            if k < 0.35: return op("pbu", t, x)
            if k < 0.55: return op("set", t, self.idx(), x)
            if k < 0.7: return op("app", t, r.choice([x, W_(int(x.split()[2])) if x.startswith("( S") else W_(int(x.strip("( W)v")))]))
            if k < 0.9: return op("mset", t, L_(self.key()), x)
            return op("mset", t, x, L_(num(1)))
        for _ in range(r.choice([3, 5, 8, 12])):
            a, b = r.randrange(nv), r.randrange(nv)
            t = V_(a) if r.random() < 0.8 else S_(a, 0)
            x = r.choice([V_(b), W_(b), V_(a), W_(a), S_(b, 0)])
            ops.append(ins(t, x))
            if r.random() < 0.2:
                ops.append(op("copy", r.randrange(nv), V_(r.randrange(nv))))
            if r.random() < 0.2:
                ops.append(op("iseq", V_(a), V_(b)))
        return ops

    # ---- C07: a key array whose NESTED container is changed in place through another reference between two uses
    def nested_key_history(self, nv=6):
        r = self.rng
        simple = lambda: r.choice([num(1), num(2), num(0), s(b"a"), s(b"A"), s(b"b"), TRUE, num(0.5), arr(num(1)), arr()])
        inner0 = [simple() for _ in range(r.choice([0, 1, 2]))]
        outer0 = [simple() for _ in range(r.choice([0, 0, 1]))]
        add = simple()
        ops = [op("newmap", 0), op("asg", 2, L_(('A', outer0)))]
        use_map = r.random() < 0.3
        if use_map:
            ops.append(op("newmap", 3))
            mk, mv = simple(), simple()
            after, mutate = ('M', [(mk, mv)]), op("mset", V_(3), L_(mk), L_(mv))
            undo = op("mdel", V_(3), L_(mk))
        else:
            ops.append(op("asg", 3, L_(('A', inner0))))
            after, mutate = ('A', inner0 + [add]), op("pb", V_(3), L_(add))
            undo = op("dela", V_(3), len(inner0))
        if r.random() < 0.3:
            ops += [op("asg", 4, L_(arr())), op("pb", V_(4), V_(3)), op("pb", V_(2), V_(4))]
            after = ('A', [after])
        else:
            ops.append(op("pb", V_(2), V_(3)))
        future = ('A', outer0 + [after])
        noise = lambda: r.choice([op("count", V_(0)), op("keys", 5, V_(0)), op("get", V_(0), L_(simple())), op("in", L_(simple()), V_(0)),
                                  op("iseq", V_(2), L_(future))])
        if r.random() < 0.8: ops.append(op("mset", V_(0), L_(future), L_(s(b"future"))))
        if r.random() < 0.7: ops.append(op("mset", V_(0), V_(2), L_(s(b"now"))))
        for _ in range(r.choice([1, 1, 2])):          # read-only uses of the key object
            ops.append(r.choice([op("get", V_(0), V_(2)), op("in", V_(2), V_(0)), op("mset", V_(0), V_(2), L_(s(b"now2"))),
                                 op("mdel", V_(0), V_(2))]))
            if r.random() < 0.3: ops.append(noise())
        ops.append(mutate)
        if r.random() < 0.3: ops.append(noise())
        # a block the property itself judges (equal_keys_agree): the key object against a fresh literal of its content
        ops += [op("iseq", V_(2), L_(future)), op("get", V_(0), V_(2)), op("get", V_(0), L_(future)),
                op("in", V_(2), V_(0)), op("in", L_(future), V_(0))]
        probes = [op("get", V_(0), V_(2)), op("in", V_(2), V_(0)), op("mset", V_(0), V_(2), L_(s(b"upd"))), op("get", V_(0), L_(future)),
                  op("count", V_(0)), op("mdel", V_(0), V_(2)), op("count", V_(0)), op("iseq", V_(2), L_(future))]
        r.shuffle(probes)
        ops += probes[:r.choice([3, 5, 8])]
        if r.random() < 0.4:
            ops += [undo, op("get", V_(0), V_(2)), op("in", V_(2), V_(0)), op("count", V_(0))]
        return ops

    # ---- C07: HashMap histories
    def map_history(self, nv=6, nops=30, nkeys=None):
        r = self.rng
        # v0, v1: maps; v2, v3: arrays used as keys and mutated afterwards; v4, v5: scratch
        keys = [self.key(2) for _ in range(nkeys or r.choice([1, 2, 4, 8]))]
        if nkeys and nkeys > 8:
            keys = [num(i) for i in range(nkeys // 2)] + [s(b"k%d" % i) for i in range(nkeys - nkeys // 2)]
        ops = [op("newmap", 0), op("asg", 2, L_(('A', [self.key(1) for _ in range(r.choice([0, 1, 2]))]))),
               op("asg", 3, L_(arr(num(1))))]
        if r.random() < 0.5:
            ops.append(op("mfa", 1, L_(('A', [arr(r.choice(keys), self.value(1)) for _ in range(r.choice([0, 1, 3]))]))))
        else:
            ops.append(op("newmap", 1))

        def K():
            k = r.random()
            if k < 0.55: return L_(r.choice(keys))
            if k < 0.8: return V_(r.choice([2, 3]))
            if k < 0.9: return L_(self.key(2))
            return V_(r.randrange(nv))
        while len(ops) < nops:
            k = r.random()
            M = V_(r.choice([0, 0, 1]))
            d = r.choice([4, 5, 1])
            if k < 0.30: ops.append(op("mset", M, K(), self.operand(nv, lit=0.6)))
            elif k < 0.45: ops.append(op("get", M, K()))
            elif k < 0.52: ops.append(op("mdel", M, K()))
            elif k < 0.59: ops.append(op("in", K(), M))
            elif k < 0.63: ops.append(op("count", M))
            elif k < 0.68: ops.append(op("keys", d, M))
            elif k < 0.72: ops.append(op("copy", r.choice([1, 4]), M))
            elif k < 0.76: ops.append(op("mfa", d, self.operand(nv, lit=0.5, arrays_only=True)))
            elif k < 0.86: ops.append(op(r.choice(["pb", "pbu"]), V_(r.choice([2, 3])), L_(self.leaf())))
            elif k < 0.90: ops.append(op("set", V_(r.choice([2, 3])), r.choice([0, 2, 4]), L_(self.leaf())))
            elif k < 0.93: ops.append(op("dela", V_(r.choice([2, 3])), 0))
            elif k < 0.96: ops.append(op("iseq", M, V_(r.choice([0, 1, 4]))))
            elif k < 0.98: ops.append(op("getto", d, M, K()))
            else: ops.append(op("pb", S_(4, 0), L_(num(9))))      # mutate an array handed out by keys
        return ops
