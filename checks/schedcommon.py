"""Shared by C11 and C12: run-history correspondence on one VM under the virtual clock.
Model side: ocaml/sched_driver.ml (coq/VM/SchedDefs.v run_history), implementation side: harness/h_sched.cpp.
A history is a list of commands: ("L", program-tokens) | ("S",) | ("T", n) | ("A",) | ("J", microseconds)."""
import os, sys
import vcommon as V
import vmcommon as M

sys.path.insert(0, os.path.join(V.VERIF, "translators"))
import consts as consts_translator

# names of the switches of coq/VM/SchedDefs.v that describe the code BEFORE repo commit f22674f (used only by the _refuted witnesses in Coq)
SW_RESTART = "empty_restart_skips_deadline"
SW_IDLE = "idle_scheduler_skips_deadline"


# the values the proofs were instantiated with when this file was written; used ONLY to go on searching for a failing input when the
# translator no longer recognises the source (the tie is then reported as broken, see consts_problem)
LAST_KNOWN_CONSTS = {"slice_length": 150, "default_max_loop": 10000, "waituntil_cap": 30000}


def baseline_consts():
    """the constants of translators/baseline/Consts.v (lib/vcommon.py run_translators puts that file in place of Gen/Consts.v when the
    translator cannot read the source; the correspondence runs of C11 / C12 then decide whether they still fit the code)"""
    import re
    try:
        txt = open(os.path.join(V.VERIF, "translators", "baseline", "Consts.v")).read()
        g = lambda n: int(re.search(r"Definition %s : nat := (\d+)\." % n, txt).group(1))
        return {"slice_length": g("slice_length"), "default_max_loop": g("default_max_loop"), "waituntil_cap": g("waituntil_cap_src")}
    except Exception:
        return None


def build(thorough=False):
    try:
        consts = consts_translator.generate()
    except Exception as e:      # noqa: the source no longer has the shape the translator reads
        consts = baseline_consts()
        if consts is not None:
            consts["_fallback"] = "translators/consts.py: " + str(e)
        else:
            consts = dict(LAST_KNOWN_CONSTS, _failed="translators/consts.py: " + str(e))
    M.diag_translator.generate()
    M.overloads_translator.generate()
    himpl = V.build_harness("h_sched", "asan" if thorough else "plain")
    drv = V.ocaml_driver("sched")
    return himpl, drv, consts


def consts_problem(run, consts, problems):
    """the constants of the scheduler could not be read from the source: the theorems instantiated with them are not shown to speak
    about this code (reported unless the failed proof build already says so)"""
    if consts.get("_failed") and not any("consts" in p for p in problems):
        run.violation("the scheduler constants can no longer be read from the source: " + consts["_failed"],
                      {"broken": consts["_failed"], "continuing_with": {k: v for k, v in consts.items() if k != "_failed"}}, found_input=False)


def run_histories(himpl, drv, hists, defects=None, max_runtime_ms=0, tick_us=0, max_loop=10000, slice_=150):
    """hists: list of histories. Returns a list of dicts:
       texts (SQF text of every load), m_obs / i_obs (list of observations, one per command),
       m_sched (model only: pass logs per run), i_times (implementation only: virtual time of every marker per S/T command)."""
    defects = defects or []
    cfg_m = "%s;%d;%d;%d;%d" % (",".join(defects), max_runtime_ms * 1000, tick_us, max_loop, slice_)
    mlines = []
    for h in hists:
        cs = []
        for c in h:
            if c[0] == "L":
                cs.append("L " + c[1])
            elif c[0] in ("S", "A"):
                cs.append(c[0])
            elif c[0] == "E":
                continue          # implementation only: an expression evaluated the way __EVAL(..) is (see i_eval)
            else:
                cs.append("%s %d" % (c[0], c[1]))
        mlines.append(cfg_m + "\t" + "@".join(cs))
    rc, mout, err = V.run_lines_parallel([drv], mlines, timeout=3000)
    res, ilines = [], []
    for h, mo in zip(hists, mout):
        f = mo.split("\t")
        if len(f) != 3:
            res.append({"hist": h, "model_raw": mo, "texts": None, "m_obs": [mo], "m_sched": []})
            ilines.append("%d;%d;%d\tJ0" % (max_runtime_ms, tick_us, max_loop))
            continue
        hexes = f[0].split(",") if f[0] else []
        texts = [V.unhx(x).decode("latin-1") for x in hexes]
        d = {"hist": h, "texts": texts, "m_obs": f[1].split("|"), "m_sched": f[2].split("|") if f[2] else []}
        res.append(d)
        it = iter(hexes)
        cs = []
        for c in h:
            if c[0] == "L":
                cs.append("L" + next(it))
            elif c[0] in ("S", "A"):
                cs.append(c[0])
            elif c[0] == "E":
                cs.append("E" + V.hx(c[1].encode("latin-1")))
            else:
                cs.append("%s%d" % (c[0], c[1]))
        ilines.append("%d;%d;%d\t%s" % (max_runtime_ms, tick_us, max_loop, "@".join(cs)))
    rc, iout, err = V.run_lines_parallel([himpl], ilines, timeout=3000)
    for d, io in zip(res, iout):
        f = io.split("\t")
        d["impl_raw"] = io
        if len(f) >= 2 and f[0] not in ("CRASH", "EXCEPTION", "EXIT"):
            allobs = f[0].split("|")
            # the E observations are kept apart: i_obs lines up with the commands the model knows
            d["i_eval"] = [o for o in allobs if o.startswith("E")]
            d["i_obs"] = [o for o in allobs if not o.startswith("E")]
            d["i_times"] = [[int(x) for x in t.split(",") if x] for t in f[1].split("|")] if f[1] else []
        else:
            d["i_obs"] = [io.replace("\t", " ")]
            d["i_times"] = []
    return res


def markers(obs):
    """the M<...> texts of one S/T observation, in order"""
    out = []
    i = 0
    while True:
        p = obs.find("M<", i)
        if p < 0:
            return out
        e = obs.find(">,", p)
        if e < 0:
            return out
        out.append(obs[p + 2:e])
        i = e + 2


def diag_codes(events):
    """the level:code entries of an event string (the <events> part of an S/T observation)"""
    out = []
    for part in events.split(","):
        if part and not part.startswith("M<") and part.count(":") == 1 and part.replace(":", "").isdigit():
            out.append(part)
    return out


def parse_run(obs):
    """'S<res>:<state>:<t0>-<t1>:<events>' -> dict(res, state, t0, t1, events) or None"""
    if not obs.startswith("S"):
        return None
    f = obs[1:].split(":", 3)
    if len(f) != 4 or "-" not in f[2]:
        return None
    try:
        # a negative result has a leading '-': S-1:0:...
        t0, t1 = f[2].split("-")
        return {"res": int(f[0]), "state": int(f[1]), "t0": int(t0), "t1": int(t1), "events": f[3]}
    except ValueError:
        return None


def canon(obs_list):
    """the model cannot print every value a dropped context leaves (script handles, code): wildcard"""
    return [o for o in obs_list]


def same_obs(m_obs, i_obs):
    """model vs implementation, observation by observation; M<VALUE ?> on the model side matches any dropped value"""
    if len(m_obs) != len(i_obs):
        return False
    for a, b in zip(m_obs, i_obs):
        if a == b:
            continue
        if "M<VALUE ?>" in a:
            pa, pb = a.split(","), b.split(",")
            if len(pa) != len(pb):
                return False
            for x, y in zip(pa, pb):
                if x != y and not (x == "M<VALUE ?>" and y.startswith("M<VALUE ")):
                    return False
            continue
        return False
    return True
