"""C08 - arrays are shared references, copies are independent, and never cyclic."""
import json, os
import vcommon as V
import datacommon as D

PID = "C08"
BROKEN = "correspondence Data/DataDefs.v step/observe vs ops_generic.cpp, ops_hashmap.cpp, d_array.h (model and implementation disagree)"

# defect switches of the model (DataDefs.defects), in the order of the driver's flag string
SWITCHES = ["append-untested", "hashmap-set-untested", "recursion-test-arrays-only", "refused-set-keeps-growth",
            "deleterange-unchecked", "resize-unchecked"]


def refusal_oracle(r, tab):
    """model-free: a statement that reports ArrayRecursion / NegativeIndex / NegativeSize must leave every
    observed variable as it was"""
    codes = set("%d:%d" % tab[n] for n in ("ArrayRecursion", "NegativeIndex", "NegativeSize") if n in tab)
    impl = r["impl"]
    prev = None
    for i, rec in enumerate(impl):
        f = rec.split(";")
        if len(f) < 2 or f[0].split(" ")[0] in D.CRASHY:
            break
        vars_ = [x.split(":")[1] if ":" in x else x for x in f[2:]]
        if prev is not None and any(c in codes for c in f[0].split(",")) and vars_ != prev:
            k = [j for j, (a, b) in enumerate(zip(prev, vars_)) if a != b][0]
            return "statement %d was refused (%s) but changed v%d from %s to %s" % (i, f[0], k, D.text(prev[k]), D.text(vars_[k]))
        prev = vars_
    return None


def split_top(s_):
    """top-level comma split of '[a,b,c]' (strings of this family hold no commas or brackets)"""
    if not (s_.startswith("[") and s_.endswith("]")):
        return None
    out, depth, cur = [], 0, ""
    inner = s_[1:-1]
    if inner == "":
        return []
    for ch in inner:
        if ch == "[":
            depth += 1
        elif ch == "]":
            depth -= 1
        elif ch == "," and depth == 0:
            out.append(cur); cur = ""; continue
        cur += ch
    out.append(cur)
    return out


def rows_family(run, rng, n):
    """Implementation only (kept beside the model-based family `table-sort`, which since the model's sort_table compares such
    histories with the model): a table whose rows are also held by variables.
    An in-place operation on the TABLE (sort, reverse, resize, deleteAt, pushBack, set) rearranges slots, it does not replace
    the row objects: when every row is afterwards changed through its own variable, every slot of the table shows the changed
    row, and a second name of the table shows the same table."""
    hops = V.build_harness("h_ops", "plain")
    progs = []
    for _ in range(n):
        k = rng.choice([2, 3, 3, 4, 5])
        keys = rng.sample(range(1, 40), k)
        if rng.random() < 0.3:
            keys[1] = keys[0]                                  # equal keys: the second column decides
        rows = ["r%d = [%d,\"s%d\"%s];" % (i, keys[i], rng.randint(0, 9), ",%d" % rng.randint(0, 5) if k % 2 else "") for i in range(k)]
        order = rng.sample(range(k), k)
        t = "t = [%s]; u = t;" % ",".join("r%d" % i for i in order)
        opk = rng.random()
        if opk < 0.45:
            op = "t sort %s;" % rng.choice(["true", "false"])
        elif opk < 0.6:
            op = "reverse t;"
        elif opk < 0.7:
            op = "t resize %d;" % k
        elif opk < 0.8:
            op = "t sort true; t sort false;"
        elif opk < 0.9:
            op = "t sort %s; reverse u;" % rng.choice(["true", "false"])
        else:
            op = "t deleteAt %d; t pushBack r%d; t sort true;" % (order.index(0), 0)
        mut = " ".join("r%d pushBack \"m%d\";" % (i, i) for i in range(k))
        progs.append(" ".join(rows) + " " + t + " " + op + " " + mut + " [t, u, [%s]]" % ",".join("r%d" % i for i in range(k)))
    rc, out, err = V.run_lines_parallel([hops], ["X\t-\t%s" % V.hx(p_) for p_ in progs], timeout=3000)
    for p_, o in zip(progs, out):
        f = o.split(";")
        rep = {"kind": "rows-keep-identity", "sqf": p_, "impl": o[:600]}
        if len(f) != 3 or f[2] == "NONE" or f[0] != "-1":
            run.violation("a table of rows could not be rearranged and printed: " + o[:120], rep)
            continue
        val = V.unhx(f[2]).decode("latin-1")
        parts = split_top(val)
        if parts is None or len(parts) != 3:
            run.violation("unexpected result shape: " + val[:120], rep)
            continue
        tt, uu, rr = parts
        rows_now = split_top(rr) or []
        slots = split_top(tt) or []
        if tt != uu:
            rep.update(t=tt, u=uu)
            run.violation("two names of one table show different contents after an in-place operation: t = %s, u = %s" % (tt[:80], uu[:80]), rep)
        elif sorted(slots) != sorted(rows_now):
            rep.update(table=tt, rows=rr)
            run.violation("after an in-place operation on a table its slots no longer refer to the row arrays they held: the table shows %s, the rows "
                          "(each changed through its own variable afterwards) are %s" % (tt[:120], rr[:120]), rep)
    return len(progs)


def fresh_family(run, rng, n):
    """Implementation only: +array, array + array, array - array, select-range, apply and select-filter return FRESH arrays - also when an
    operand is empty, when nothing is removed, when the range is the whole array.  The result is taken, then every operand is changed in
    place (and in a second variant the result is changed): the other side still prints what it printed before."""
    hops = V.build_harness("h_ops", "plain")
    progs = []
    lit = lambda xs: "[" + ",".join(str(x) for x in xs) + "]"
    for _ in range(n):
        a = [rng.randint(0, 9) for _ in range(rng.choice([0, 1, 2, 3, 4]))]
        b = [rng.randint(0, 9) for _ in range(rng.choice([0, 0, 1, 2]))]
        k = rng.randrange(8)
        if k == 0: make, uses_b = "a + b", True
        elif k == 1: make, uses_b = "b + a", True
        elif k == 2: make, uses_b = "+a", False
        elif k == 3: make, uses_b = "a - b", True
        elif k == 4: make, uses_b = "a select [0, %d]" % rng.choice([len(a), len(a) + 2, max(len(a) - 1, 0)]), False
        elif k == 5: make, uses_b = "a apply {_x}", False
        elif k == 6: make, uses_b = "a select {true}", False
        else: make, uses_b = "a + []", False
        change = lambda v: rng.choice(["%s pushBack 77;", "%s set [0, 66];", "reverse %s; %s pushBack 55;", "%s resize 1; %s pushBack 44;", "%s deleteAt 0; %s pushBack 33;"]).replace("%s", v)
        if rng.random() < 0.5:   # operands change afterwards: the result must not
            body = "d = %s; before = str d; %s %s after = str d;" % (make, change("a"), change("b") if uses_b else "")
            what = "result"
        else:                    # the result changes afterwards: the operands must not
            body = "d = %s; before = str [a, b]; %s after = str [a, b];" % (make, change("d"))
            what = "operands"
        progs.append(("a = %s; b = %s; %s [before, after]" % (lit(a), lit(b), body), make, what))
    rc, out, err = V.run_lines_parallel([hops], ["X\t-\t%s" % V.hx(p_[0]) for p_ in progs], timeout=3000)
    for (p_, make, what), o in zip(progs, out):
        f = o.split(";")
        rep = {"kind": "fresh-results", "sqf": p_, "impl": o[:600]}
        if len(f) != 3 or f[2] == "NONE" or f[0] != "-1":
            run.violation("a small array program could not be run and printed: " + o[:120], rep)
            continue
        val = V.unhx(f[2]).decode("latin-1")
        parts = split_top(val)
        if parts is None or len(parts) != 2:
            run.violation("unexpected result shape: " + val[:120], rep)
            continue
        if parts[0] != parts[1]:
            rep.update(before=parts[0], after=parts[1])
            run.violation("`%s` did not return a fresh array: changing the %s in place afterwards changed the %s too (%s -> %s)"
                          % (make, "operands" if what == "result" else "result", what, parts[0][:60], parts[1][:60]), rep)
    return len(progs)


def deep_copy_family(run, rng, n):
    """Implementation only: +array is a DEEP copy - also of a structure in which one sub-array occurs several times (directly, in different
    branches, at different depths).  Every array reachable from the copy is changed in place: the original prints what it printed before;
    then every array the original was built from is changed: the copy prints what it printed after its own change."""
    hops = V.build_harness("h_ops", "plain")
    progs = []
    for _ in range(n):
        nleaf = rng.randint(1, 3)
        defs = []
        names = []
        for i in range(nleaf):
            defs.append("l%d = [%s];" % (i, ",".join(str(rng.randint(0, 9)) for _ in range(rng.randint(0, 3)))))
            names.append("l%d" % i)
        # arrays built from the leaves (and from each other), each name may be used any number of times
        for j in range(rng.randint(0, 2)):
            els = [rng.choice(names + [str(rng.randint(0, 9))]) for _ in range(rng.randint(1, 3))]
            defs.append("m%d = [%s];" % (j, ",".join(els)))
            names.append("m%d" % j)
        def struct(d):
            els = []
            for _ in range(rng.randint(1, 4)):
                r = rng.random()
                if r < 0.55: els.append(rng.choice(names))
                elif r < 0.75 and d < 3: els.append(struct(d + 1))
                else: els.append(str(rng.randint(0, 9)))
            return "[" + ",".join(els) + "]"
        top = struct(0)
        if not any(nm in top for nm in names):
            top = "[%s,%s]" % (names[0], names[0])
        body = ("%s a = %s; b = +a; s = str a; t = str b; "
                "fnc = { private _y = _this; { if (_x isEqualType []) then { _x call fnc } } forEach _y; _y pushBack \"m\" }; "
                "b call fnc; s2 = str a; u = str b; %s u2 = str b; [s, t, s2, u, u2]"
                % (" ".join(defs), top, " ".join("%s pushBack 99; %s set [0, 98];" % (nm, nm) for nm in names)))
        progs.append((body, top))
    rc, out, err = V.run_lines_parallel([hops], ["X\t-\t%s" % V.hx(p_[0]) for p_ in progs], timeout=3000)
    for (p_, top), o in zip(progs, out):
        f = o.split(";")
        rep = {"kind": "deep-copy", "sqf": p_, "impl": o[:900]}
        if len(f) != 3 or f[2] == "NONE" or f[0] != "-1":
            run.violation("a small array program could not be run and printed: " + o[:120], rep)
            continue
        val = V.unhx(f[2]).decode("latin-1")
        parts = split_top(val)
        if parts is None or len(parts) != 5:
            run.violation("unexpected result shape: " + val[:120], rep)
            continue
        s_, t_, s2, u, u2 = parts
        if s_ != t_:
            run.violation("`+a` of %s does not print like a (%s vs %s)" % (top, t_[:80], s_[:80]), rep)
        elif s2 != s_:
            run.violation("`+a` is not a deep copy: a = %s; changing every array of the copy in place changed a too (%s -> %s)" % (top, s_[:80], s2[:80]), rep)
        elif u2 != u:
            run.violation("`+a` is not a deep copy: a = %s; changing the arrays a was built from changed the copy too (%s -> %s)" % (top, u[:80], u2[:80]), rep)
    return len(progs)


SHARED_ROUTES = [
    ("param default (index missing)", "p = [] param [0, d];"),
    ("param default (wrong type)", "p = [5] param [0, d, [[]]];"),
    ("params default (argument missing)", "[] params [[\"_q\", d]]; p = _q;"),
    ("params default (wrong type)", "[5] params [[\"_q\", d, [[]]]]; p = _q;"),
    ("param, argument passed", "p = [d] param [0];"),
    ("param, argument passed beside a default", "p = [d] param [0, [9]];"),
    ("params, argument passed", "[d] params [\"_q\"]; p = _q;"),
    ("params, argument passed beside a default", "[d] params [[\"_q\", [9], [[]]]]; p = _q;"),
    ("getVariable default", "p = missionNamespace getVariable [\"nosuchvar\", d];"),
    ("getVariable", "missionNamespace setVariable [\"gv\", d]; p = missionNamespace getVariable \"gv\";"),
    ("call argument", "p = d call {_this};"),
    ("call argument in an array", "p = [d] call {_this select 0};"),
    ("forEach element", "{p = _x} forEach [d];"),
    ("count element", "{p = _x; true} count [d];"),
    ("apply result element", "p = ([d] apply {_x}) select 0;"),
    ("select-filter result element", "p = ([d] select {true}) select 0;"),
    ("element of a concatenation", "p = ([d] + []) select 0;"),
    ("element of a range", "p = ([d, 1] select [0, 1]) select 0;"),
    ("value of if-then-else", "p = if (true) then {d} else {[]};"),
    ("value of a block", "p = call {d};"),
    ("select", "p = [d, 1] select 0;"),
    ("nested select", "p = [[d]] select 0 select 0;"),
    ("deleteAt result", "p = [0, d] deleteAt 1;"),
    ("pushBack then select", "a = []; a pushBack d; p = a select 0;"),
    ("append then select", "a = []; a append [d]; p = a select 0;"),
    ("set then select", "a = [0]; a set [0, d]; p = a select 0;"),
    ("hashmap value", "h = createHashMap; h set [\"k\", d]; p = h get \"k\";"),
    ("second variable", "q = d; p = q;"),
    ("private variable", "private _q = d; p = _q;"),
]


def shared_family(run, rng, n):
    """Implementation only: the places that hand over an EXISTING array - a default of param / params / getVariable / getOrDefault, a
    passed argument, an element, _x, _this, the value of a block - hand over the array itself, never a copy: an in-place operation
    through the new name is seen through the old one and the other way round, also for the array nested inside."""
    hops = V.build_harness("h_ops", "plain")
    progs = []
    for i in range(n):
        what, route = SHARED_ROUTES[i % len(SHARED_ROUTES)] if i < 2 * len(SHARED_ROUTES) else rng.choice(SHARED_ROUTES)
        d = "[%d,[%d]]" % (rng.randint(0, 9), rng.randint(0, 9))
        side, other = rng.choice([("p", "d"), ("d", "p")])
        ch = rng.choice(["%s pushBack 77;", "%s set [0, 66];", "(%s select 1) pushBack 55;", "%s resize 3;", "reverse %s;",
                         "%s deleteAt 0;", "%s append [44];"]).replace("%s", side)
        progs.append(("d = %s; %s %s [str d, str p]" % (d, route, ch), what, ch, other))
    rc, out, err = V.run_lines_parallel([hops], ["X\t-\t%s" % V.hx(p_[0]) for p_ in progs], timeout=3000)
    for (p_, what, ch, other), o in zip(progs, out):
        f = o.split(";")
        rep = {"kind": "shared-handover", "sqf": p_, "impl": o[:600]}
        if len(f) != 3 or f[2] == "NONE" or f[0] != "-1":
            run.violation("a small array program could not be run and printed: " + o[:120], rep)
            continue
        val = V.unhx(f[2]).decode("latin-1")
        parts = split_top(val)
        if parts is None or len(parts) != 2:
            run.violation("unexpected result shape: " + val[:120], rep)
            continue
        if parts[0] != parts[1]:
            rep.update(d=parts[0], p=parts[1])
            run.violation("%s handed over a copy, not the array: after `%s` the other name (%s) shows %s, the changed one %s"
                          % (what, ch, other, (parts[1] if other == "p" else parts[0])[:60], (parts[0] if other == "p" else parts[1])[:60]), rep)
    return len(progs)


def read_max_size():
    """d_array::max_size(): from the text of d_array.h when it is a literal or a named constant there, otherwise from the compiler
    (a probe translation unit whose assembly holds the value) - a refactoring of how the constant is written changes nothing."""
    import re, subprocess, tempfile
    try:
        src = open(os.path.join(V.REPO, "src", "runtime", "d_array.h")).read()
        m = re.search(r"max_size\s*\(\s*\)\s*(?:const\s*)?(?:noexcept\s*)?\{\s*return\s+([A-Za-z_0-9:']+)\s*;", src)
        if m:
            tok = m.group(1).replace("'", "")
            if re.fullmatch(r"\d+[uUlLzZ]*", tok):
                return int(re.match(r"\d+", tok).group(0))
            d = re.search(r"\b%s\s*(?:=|\{)\s*([0-9']+)" % re.escape(tok.split("::")[-1]), src)
            if d:
                return int(d.group(1).replace("'", ""))
    except Exception:
        pass
    try:
        with tempfile.TemporaryDirectory() as td:
            cpp = os.path.join(td, "probe.cpp")
            open(cpp, "w").write('#include "runtime/d_array.h"\nextern const unsigned long long verif_probe_max_size;\n'
                                 'const unsigned long long verif_probe_max_size = sqf::types::d_array::max_size();\n')
            r = subprocess.run(["g++", "-std=c++17", "-O1", "-w", "-S", "-I", os.path.join(V.REPO, "src"), "-o", os.path.join(td, "probe.s"), cpp],
                               stdout=subprocess.PIPE, stderr=subprocess.PIPE, timeout=300)
            if r.returncode == 0:
                asm = open(os.path.join(td, "probe.s")).read()
                m = re.search(r"verif_probe_max_size:\s*\n\s*\.quad\s+(\d+)", asm)
                if m:
                    return int(m.group(1))
    except Exception:
        pass
    return None


def size_limit_family(run):
    """Implementation only: the size an array may reach (d_array::max_size(), read from the source) at set and resize. A set at index i
    needs i + 1 elements, a resize to n needs n: what fits is carried out (the array grows with nils, every name of it sees the growth),
    what does not fit is rejected with a diagnostic and leaves the array as it was. The array is looked at in a second run on the same
    instance (a rejected statement may end its script)."""
    import re
    mx = read_max_size()
    if mx is None:
        run.violation("the array size limit d_array::max_size() can no longer be determined (neither from src/runtime/d_array.h nor by compiling a probe against it)",
                      {"broken": "tie of the size-limit family"}, found_input=False)
        return 0
    if not (1000 <= mx <= 20000000):
        return 0        # a limit this family cannot allocate its way to (or a trivial one): nothing to say
    hh = V.build_harness("h_vmhist", "plain")
    base = mx - 10
    cases = []
    for need in (mx - 1, mx, mx + 1, mx + 2, 2 * mx):
        cases.append(("set", need, "a set [%d, 7]" % (need - 1)))
        cases.append(("resize", need, "a resize %d" % need))
        cases.append(("set-alias", need, "b set [%d, 7]" % (need - 1)))
    lines = []
    for kind, need, op in cases:
        r1 = "a = [1,2]; b = a; %s; diag_log \"after\"" % op
        r2 = "diag_log [(count a) - %d, (count b) - %d, count a < 100, a select 1]" % (base, base)
        lines.append("0;0;10000\ta:%s\ta:%s" % (V.hx(r1.encode()), V.hx(r2.encode())))
    rc, out, err = V.run_lines_parallel([hh], lines, timeout=3000)
    for (kind, need, op), ln, o in zip(cases, lines, out):
        rep = {"kind": "size-limit:" + kind, "sqf": "a = [1,2]; b = a; %s;   then, in a second run:  [(count a) - %d, (count b) - %d, count a < 100, a select 1]" % (op, base, base),
               "max_size": mx, "needs": need, "impl": o[:500]}
        obs = o.split("\t")[0].split("|")
        if len(obs) != 2 or o.startswith(("CRASH", "TIMEOUT", "OOM", "EXCEPTION", "EXIT", "BAD")):
            run.violation("size-limit case did not come back: " + o[:100], rep)
            continue
        diag1 = [x for x in re.findall(r"(\d+):(\d+),", obs[0]) if int(x[0]) <= 2]
        marks2 = re.findall(r"M<(\[.*?\])>", obs[1])
        fits = need <= mx
        want = "[%d,%d,false,2]" % (need - base, need - base) if fits else None
        if not marks2:
            run.violation("the array could not be looked at after `%s`: %s" % (op, obs[1][:100]), rep)
        elif fits and (marks2[0] != want or diag1):
            run.violation("`%s` needs %d elements, the limit is %d: it must be carried out (both names see %d elements, no diagnostic); observed %s, diagnostics %s"
                          % (op, need, mx, need, marks2[0], diag1), rep)
        elif not fits and (",true,2]" not in marks2[0] or not diag1):
            run.violation("`%s` needs %d elements, the limit is %d: it must be rejected with a diagnostic and leave the array as it was (2 elements); "
                          "observed [count a - %d, count b - %d, count a < 100, a select 1] = %s, diagnostics %s" % (op, need, mx, base, base, marks2[0], diag1), rep)
    return len(cases)


def main(replay=None):
    run = V.Run(PID, "proof")
    rng = run.rng
    thorough = run.tier == "thorough"
    problems = run.prove()
    himpl = V.build_harness("h_data", "asan" if thorough else "plain")
    drv = V.ocaml_driver("data")
    tab = D.diag_table()
    stack = tab.get("Stacktrace", (0, 60001))[1]

    # translator check: the model's table of error-level message classes against logging.h
    rc, out, err = V.run_lines([drv], ["E"])
    for item in out[0].split(","):
        name, flag = item.split(":")
        if name not in tab:
            run.violation("message class %s of the model does not exist in logging.h" % name, {"broken": BROKEN}, found_input=False)
        elif (tab[name][0] <= 1) != (flag == "1"):
            run.violation("message class %s: the model and logging.h disagree about the error level" % name,
                          {"broken": BROKEN, "logging.h": tab[name]}, found_input=False)

    g = D.Gen(rng)
    cases = []
    if replay:
        j = json.load(open(replay))["replay"]
        cases.append(D.Case(j.get("kind", "replay"), j["nvars"], j["ops"], j.get("what"), j.get("oracle")))
    else:
        cases += D.load_corpus(PID)
        n_alias = 20000 if thorough else 2500
        n_cycle = 20000 if thorough else 3000
        for _ in range(n_alias):
            cases.append(D.Case("alias", 6, g.alias_history()))
        for _ in range(n_cycle):
            cases.append(D.Case("cycle", 4, g.cycle_history()))
        for _ in range(2000 if thorough else 250):
            cases.append(D.Case("shared-rows", 6, g.shared_rows_history()))
        for _ in range(4000 if thorough else 450):
            cases.append(D.Case("table-sort", 6, g.table_history()))

    res = D.run_cases(run, cases, drv, himpl, "000000")
    known_flags = "".join("1" if run.known.has(PID, k) else "0" for k in SWITCHES)
    suspects = []
    kinds, distinct, samples = {}, set(), []
    nops = ninv = 0
    tsort = {"sorted": 0, "refused": 0, "outside_model": 0, "rows>16": 0}
    for r in res:
        c = r["case"]
        if c.kind == "table-sort":
            # what became of the sorts of this family in the model (sorted in place / refused by the type checks / dropped)
            for m in r["model_all"]:
                if b" sort " in V.unhx(m[1]):
                    if m[0] == "I": tsort["outside_model"] += 1
                    elif m[0] == "D" and m[2]: tsort["refused"] += 1
                    elif m[0] == "D":
                        tsort["sorted"] += 1
                        if len(m) > 8 and V.unhx(m[8].split(":")[1]).count(b"[") > 17: tsort["rows>16"] += 1
        kinds[c.kind.split(":")[0]] = kinds.get(c.kind.split(":")[0], 0) + 1
        nops += len(r["model"])
        ninv += len(r["model_all"]) - len(r["model"])
        refused = sum(1 for m in r["model"] if len(m) > 2 and "ArrayRecursion" in m[2])
        aliasing = sum(1 for m in r["model"] if b" = v" in V.unhx(m[1]) or b"select" in V.unhx(m[1]))
        if len(r["model"]) >= 5 and (refused or aliasing):
            distinct.add(hash(tuple(m[1] for m in r["model"])))
        if len(samples) < 4 and c.kind != "alias" or (len(samples) < 6 and refused):
            samples.append({"kind": c.kind, "sqf": D.sqf_of(r)[:12], "last_impl": [D.text(x.split(":")[1]) for x in r["impl"][-1].split(";")[2:]] if r["impl"] and ";" in r["impl"][-1] else r["impl"][-1:]})
        bad_oracle = D.check_oracle(r)
        cmp_ = D.compare(r, tab, stack)
        ref = refusal_oracle(r, tab)
        if bad_oracle or cmp_ or ref:
            suspects.append((r, bad_oracle, cmp_, ref))

    # attribution to recorded findings: the model with exactly the recorded switches on must predict the
    # implementation; only then is a disagreement with the repaired model a KNOWN-FINDING
    attributed = {}
    if suspects and "1" in known_flags:
        again = D.run_cases(run, [s[0]["case"] for s in suspects], drv, himpl, known_flags)
        for (r, bo, cm, rf), r2 in zip(suspects, again):
            if D.compare(r2, tab, stack) is None:
                # which of the recorded switches matter for this case
                keys = []
                for i, k in enumerate(SWITCHES):
                    if known_flags[i] == "1":
                        fl = known_flags[:i] + "0" + known_flags[i + 1:]
                        r3 = D.run_cases(run, [r["case"]], drv, himpl, fl)[0]
                        if D.compare(r3, tab, stack) is not None:
                            keys.append(k)
                attributed[id(r)] = keys or [k for i, k in enumerate(SWITCHES) if known_flags[i] == "1"]
    for r, bo, cm, rf in suspects:
        if id(r) in attributed:
            for k in attributed[id(r)]:
                run.known_finding(k)
            continue
        c = r["case"]
        rep = c.replay()
        rep["sqf"] = D.sqf_of(r)
        rep["impl"] = [";".join(D.text(y.split(":")[1]) if ":" in y and i > 1 else D.text(y) if i == 1 else y
                                for i, y in enumerate(x.split(";"))) for x in r["impl"]][-6:]
        if bo:
            rep["failed"] = bo
            run.violation((c.what or "property assertion") + ": " + "; ".join(bo), rep)
        elif cm and cm["crash"]:
            rep["at_statement"] = cm["index"]
            rep["statement"] = cm["sqf"]
            run.violation("the implementation crashed, hung or threw while running / printing this history (a container that "
                          "contains itself, or an unchecked index): " + cm["why"], rep)
        elif rf:
            rep["failed"] = rf
            run.violation("a refused operation changed a container: " + rf, rep)
        else:
            rep["broken"] = BROKEN
            rep["at_statement"] = cm["index"]
            rep["statement"] = cm["sqf"]
            rep["why"] = cm["why"]
            run.violation("implementation and model disagree: " + cm["why"], rep, found_input=False)

    n_rows = rows_family(run, rng, 1200 if thorough else 160)
    kinds["rows-keep-identity"] = n_rows
    kinds["fresh-results"] = fresh_family(run, rng, 1500 if thorough else 200)
    kinds["shared-handover"] = shared_family(run, rng, 1200 if thorough else 160)
    kinds["size-limit"] = size_limit_family(run)
    kinds["deep-copy"] = deep_copy_family(run, rng, 2000 if thorough else 300)

    for p in problems:
        run.violation("proof obligation not discharged: " + p, {"broken": p, "theorems": run.cov["theorems"]}, found_input=False)
    run.cov["evaluations"] = nops
    run.cov["histories"] = len(cases)
    run.cov["distinct_nontrivial"] = len(distinct)
    run.cov["operations_outside_model_dropped"] = ninv
    run.cov["table_sorts"] = tsort
    run.cov["rule"] = ("operation histories (<= 40 operations over <= 6 variables: set pushBack pushBackUnique append deleteAt deleteRange "
                       "resize reverse sort + - select +copy, HashMap set/createHashMapFromArray/get, aliases through `v = w` and "
                       "`v = w select i`, operands that are variables, elements, wrapped variables [v] and literals), table histories "
                       "(rows of one shape - number columns with NaN / -0 / infinities, string columns, columns the comparator passes over - held by "
                       "variables and by a table with two names, 2-40 rows; sort ascending / descending through either name, rows then changed through "
                       "their variable or a slot of the table, sorted again; rows of another size / type and elements that are no rows for the "
                       "refusals; table_sorts = what the model made of these sorts) and cycle "
                       "attempts (every inserting operator with the container itself, an alias, [itself] or an intermediate "
                       "container as operand); after every operation the diagnostics (level:code), the result and the print of "
                       "every variable (raw and with HashMap entries sorted) are compared with the model; evaluations = "
                       "operations executed on both sides; a history is non-trivial when it has >= 5 operations and an alias or "
                       "a refused insertion; distinct by the SQF text")
    run.cov["input_distribution"] = kinds
    run.cov["samples"] = samples[:6]
    run.cov["trusted_base"] = ["Coq 8.16.1 kernel (vm_compute only in Examples and witness refutations)",
                               "ExtrOcamlBasic extraction + ocaml/data_driver.ml (parser of the op syntax, printing of records)",
                               "harness/h_data.cpp + sqfrt.hpp + fork/rlimit plumbing (canonical print walks d_array / d_hashmap natively)",
                               "generators in checks/datacommon.py",
                               "model Data/DataDefs.v is hand-written; tied to ops_generic.cpp / ops_hashmap.cpp / d_array.h only by this differential run",
                               "HashMap keys are modelled as frozen trees (never exposed by reference): matches the code with "
                               "proposed_fixes/C07-keys-by-value.diff, checked by the runs, not proved about the C++"]
    return run.finish()
