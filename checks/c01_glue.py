"""C01, family `glue`: layouts with as little whitespace as the token grammar allows.

The property quantifies over arbitrary whitespace.  The printer of syntaxcommon.py leaves a blank out only between a word and a symbol
or next to a bracket; two operator characters (`1--1`, `a*-b`, `a&&!b`), a string next to a word (`"a"select 0`) were always separated.
Here every gap between two tokens is closed wherever the two tokens are still read as the same two tokens:

  which gaps may be closed   glue_ok() below, written from the token grammar (names, numbers, strings, the operator symbols by longest
                             match, `//` `/*` `#line` start something else).  It is only the generator's proposal: a case counts when the
                             lexer MODEL (extracted SyntaxDefs.lex) reads the glued text as exactly the intended token list.  For a gap
                             behind a bracket / separator / sign or in front of a bracket / separator that is theorem C01_lex_render
                             (sep_ok: follow_ok), for a name / number / operator followed directly by an operator character,
                             a string next to a word it is theorem C01_lex_render_glued (sep_glued: follow_glued); the run of the
                             extracted lexer re-checks each text.
  what the text must compile to   the post-order of the tree it was printed from (the property's own oracle, S.expected_listing) - the same
                             listing as the spelling with one blank in every gap.

Families (kinds glue:*):
  triple   L op R for every symbol operator (and a sample / all of the word operators) x the class of the last character of L
           (digit, letter, underscore, quote, `)`, `]`, `}`) x the class of the first character of R (`-`, `+`, `!`, digit, `.`, `$`,
           letter, `_`, quote, `(`, `[`, `{`), every gap closed
  layout   L op u R (u one of + - !) and a list of small templates: every subset of the gaps closed (2^gaps layouts)
  random   random statement lists of the tree generator, every gap closed
  macro    the adjacency comes out of the preprocessor (`#define NEG(x) -x` / `7-NEG(2)`): seven ways to produce `L op u R` by
           expansion, judged on the text the parser receives (harness mode M returns it)
"""
import re
import vcommon as V
import syntaxcommon as S


# ------------------------------------------------------------------------------------ which gaps may be closed
def first_sym(s):
    for o in S.SYMS:            # the order of tokenizer.hpp t_operator: longest spelling first where one is a prefix of another
        if s.startswith(o):
            return o
    return None


def is_str(t):
    return t[:1] in "\"'"


def glue_ok(a, b):
    """may token b follow token a directly?  (kind, text) with kind p = bracket / separator / `=`, s = operator symbol, w = word
    (name, number, string, keyword)"""
    ka, ta = a
    kb, tb = b
    if ka == "p" or kb == "p":
        if tb.startswith("=") and ta in ("=", "!", "<", ">"):
            return False
        return True
    if ka == "w" and kb == "w":
        # a string literal ends at its quote - but two literals of the same quote would read as one with a doubled quote
        if is_str(ta) or is_str(tb):
            return not (is_str(ta) and is_str(tb) and ta[0] == tb[0])
        return False
    if ka == "w":
        return True             # no operator character continues a name, a number or a string
    if kb == "w":
        if ta == "#" and tb[:1] in "lL":
            return False        # `#l..` may be the start of a #line directive (C14; outside the lexer model)
        return True
    if ta == "/" and tb[:1] in "/*":
        return False            # comment
    return first_sym(ta + tb) == ta


def by_theorem(a, b):
    """the gap a|b is one C01_lex_render (sep_ok) speaks about: anything may follow a bracket, a separator, a sign; a bracket or
    separator may follow anything"""
    punct = "()[]{};,"
    return (a[0] == "p" and a[1] in punct) or (a[0] == "s" and a[1] in "+-") or (b[0] == "p" and b[1] in punct)


def layout(toks, mask=None, rng=None):
    """text of toks with gap i (between token i and i+1) closed when mask[i] (default: all) and glue_ok; returns
    (text, closed gaps covered by the theorem, closed gaps decided by the model run)"""
    out, n_thm, n_mod = [], 0, 0
    for i, t in enumerate(toks):
        if i:
            a = toks[i - 1]
            if (mask is None or mask[i - 1]) and glue_ok(a, t):
                if by_theorem(a, t):
                    n_thm += 1
                else:
                    n_mod += 1
            else:
                out.append(" " if rng is None or rng.random() < 0.7 else rng.choice(["\t", "\n", "  ", "\r\n"]))
        out.append(t[1])
    return "".join(out), n_thm, n_mod


def intended(toks):
    """the token list in the format of mode T"""
    out = []
    for k, t in toks:
        if k == "p":
            typ = t
        elif k == "s":
            typ = "op"
        elif is_str(t):
            typ = "str"
        elif t.lower() in ("true", "false", "private"):
            typ = t.lower()
        elif t[0] == "$" or t[:2] == "0x":
            typ = "hex"
        elif t[0].isdigit() or t[0] == ".":
            typ = "num"
        else:
            typ = "id"
        out.append("%s:%s " % (typ, S.hx(t)))
    return "OK\t" + "".join(out) + "eof:- "


# ------------------------------------------------------------------------------------ trees with explicit parentheses
def strip(t):
    k = t[0]
    if k == "paren":
        return strip(t[1])
    if k == "un":
        return ("un", t[1], strip(t[2]))
    if k == "bin":
        return ("bin", t[1], t[2], strip(t[3]), strip(t[4]))
    if k == "arr":
        return ("arr", [strip(e) for e in t[1]])
    if k == "code":
        return ("code", [strip_stmt(s) for s in t[1]])
    return t


def strip_stmt(s):
    return s[:-1] + (strip(s[-1]),)


def gemit(t, k):
    """tokens of t where the grammar expects exp_k (as S.emit without redundant parentheses; ("paren", t) prints a pair)"""
    kind = t[0]
    if kind == "paren":
        return [("p", "(")] + gemit(t[1], 0) + [("p", ")")]
    if kind == "un":
        raw = [S.name_tok(t[1])] + gemit(t[2], 10)
    elif kind == "bin":
        raw = gemit(t[3], t[1]) + [S.name_tok(t[2])] + gemit(t[4], t[1] + 1)
    elif kind == "arr":
        raw = [("p", "[")]
        for i, e in enumerate(t[1]):
            if i:
                raw.append(("p", ","))
            raw += gemit(e, 0)
        raw.append(("p", "]"))
    elif kind == "code":
        raw = [("p", "{")] + gemit_block(t[1]) + [("p", "}")]
    elif kind == "nul":
        raw = [S.name_tok(t[1])]
    else:
        raw = [("w", t[1])]
    if k > S.lvl(t):
        return [("p", "(")] + raw + [("p", ")")]
    return raw


def gemit_stmt(s):
    if s[0] == "expr":
        return gemit(s[1], 0)
    if s[0] == "assign":
        return [("w", s[1]), ("p", "=")] + gemit(s[2], 0)
    return [("w", "private"), ("w", s[1]), ("p", "=")] + gemit(s[2], 0)


def gemit_block(ss):
    out = []
    for i, s in enumerate(ss):
        if i:
            out.append(("p", ";"))
        out += gemit_stmt(s)
    return out


# ------------------------------------------------------------------------------------ operands by the character at their edge
def var(n):
    return ("var", n)


def num(t):
    return ("num", t)


def hexv(t):
    return ("hex", t)


def un(o, a):
    return ("un", o, a)


def paren(a):
    return ("paren", a)


ADD = lambda a, b: ("bin", 5, "+", a, b)
MUL = lambda a, b: ("bin", 6, "*", a, b)


class Operands:
    def __init__(self, P, rng):
        self.P, self.rng = P, rng
        free = lambda names: [n for n in names if n.lower() not in P.opnames and n.lower() not in S.KEYWORDS]
        nul_word = [n for n in P.N if S.IDENT_RE.match(n)]
        nul_us = [n for n in nul_word if n.endswith("_")]
        nul_letter = [n for n in nul_word if n[-1].isalpha()]
        un_word = [n for n in P.U if S.IDENT_RE.match(n)]
        self.un_word = un_word
        nl = lambda pool: [("nul", rng.choice(pool))] if pool else []
        self.left = {
            "digit": [num("1"), num("7"), num("1.5"), num(".5"), num("1e3"), num("2.5e-2"), num("1E+2"), hexv("0x10"), hexv("$10")]
                     + [var(n) for n in free(["bar1", "_0", "_a1", "x2"])],
            "letter": [var(n) for n in free(["a", "_foo", "someVar", "_i", "e", "x"])] + [hexv("$a"), hexv("0xff"), hexv("$1F"), ("true", "true"), ("false", "FALSE")]
                      + nl(nul_letter) + [un("-", var("a")), un("!", var("b"))],
            "underscore": [var(n) for n in free(["x_", "_y_", "_", "a__"])] + nl(nul_us),
            "quote": [("str", s) for s in ['"abc"', "'x'", '""', '"a""b"', "''"]],
            ")": [paren(var("a")), paren(num("1")), paren(ADD(var("a"), num("1"))), paren(un("-", num("1")))],
            "]": [("arr", [num("1")]), ("arr", []), ("arr", [var("a"), un("-", num("2"))])],
            "}": [("code", [("expr", var("a"))]), ("code", [])],
        }
        signed = lambda o: [un(o, var("b")), un(o, var("_b")), un(o, num("1")), un(o, num(".5")), un(o, num("2.5e-2")), un(o, hexv("$1F")), un(o, hexv("0x10")),
                            un(o, un(o, var("b"))), un(o, un(o, num("2"))), un(o, un("+" if o == "-" else "-", num("3"))), un(o, un("!", var("b"))),
                            un(o, paren(ADD(var("a"), var("b")))), un(o, ("arr", [num("1")])), un(o, ("str", '"s"'))] + [un(o, x) for x in nl(nul_letter)]
        self.right = {
            "-": signed("-"),
            "+": signed("+"),
            "!": [un("!", var("b")), un("!", un("!", var("b"))), un("!", un("-", var("b"))), un("!", un("-", num("1"))), un("!", paren(var("b"))), un("!", ("true", "true"))],
            "digit": [num("2"), num("10"), num("1e3"), num("0.25"), hexv("0x10"), hexv("0xff")],
            ".": [num(".5"), num(".25"), num(".5e1")],
            "$": [hexv("$1F"), hexv("$a"), hexv("$0")],
            "letter": [var(n) for n in free(["b", "someVar", "e", "x"])] + [("true", "True"), ("false", "false")] + nl(nul_letter)
                      + ([un(rng.choice(un_word), var("b"))] if un_word else []),
            "_": [var(n) for n in free(["_x", "_foo", "_0", "_"])],
            "quote": [("str", s) for s in ['"abc"', "'x'", '""', "'it''s'"]],
            "(": [paren(var("b")), paren(un("-", num("1"))), paren(MUL(var("a"), var("b")))],
            "[": [("arr", [num("1"), num("2")]), ("arr", []), ("arr", [un("-", num("1"))])],
            "{": [("code", [("expr", var("_x"))]), ("code", []), ("code", [("expr", un("-", num("1")))])],
        }

    def L(self, cls):
        return self.rng.choice(self.left[cls])

    def R(self, cls):
        return self.rng.choice(self.right[cls])


def binary_ops(P, rng, words):
    """(level, name) of every operator spelled with symbols and of `words` operators spelled as words (None = all): some of every
    level and lexer class first"""
    sym = [(k, nm) for k, nm in P.all_binary if not S.IDENT_RE.match(nm)]
    word = [(k, nm) for k, nm in P.all_binary if S.IDENT_RE.match(nm)]
    if words is not None:
        pick = []
        for cls in (P.BU, P.BN, P.BUN, P.B):
            ks = [k for k in range(10) if [n for n in cls[k] if S.IDENT_RE.match(n)]]
            for k in rng.sample(ks, min(len(ks), max(1, words // 4))):
                pick.append((k, rng.choice([n for n in cls[k] if S.IDENT_RE.match(n)])))
        word = pick[:words] if len(pick) >= words else pick + rng.sample(word, min(len(word), words - len(pick)))
    return sym, word


def case_of(kind, ss, mask=None, rng=None):
    """ss: statements (trees may contain ("paren", t))"""
    toks = gemit_block(ss)
    text, n_thm, n_mod = layout(toks, mask, rng)
    plain = [strip_stmt(s) for s in ss]
    return {"kind": kind, "text": text.encode("latin-1"), "expected": S.expected_listing(plain), "un": False, "ss": plain,
            "intended": intended(toks), "spaced": " ".join(t[1] for t in toks).encode("latin-1"), "glued": (n_thm, n_mod), "mode": "A"}


def masks(n, rng, cap):
    if 2 ** n <= cap:
        return [[bool(m >> i & 1) for i in range(n)] for m in range(2 ** n)]
    ms = [[False] * n, [True] * n] + [[j != i for j in range(n)] for i in range(n)] + [[j == i for j in range(n)] for i in range(n)]
    while len(ms) < cap:
        ms.append([rng.random() < 0.6 for _ in range(n)])
    return ms[:cap]


def triples(P, rng, words):
    ops = Operands(P, rng)
    sym, word = binary_ops(P, rng, words)
    out = []
    for k, nm in sym + word:
        for lc in ops.left:
            for rc in ops.right:
                t = ("bin", k, S.recase(rng, nm), ops.L(lc), ops.R(rc))
                out.append(case_of("glue:triple/%s/%s" % (lc, rc), [("expr", t)]))
    return out


def templates(P, rng):
    a, b, c, one, two = var("a"), var("b"), var("_c"), num("1"), num("2")
    sub = lambda x, y: ("bin", 5, "-", x, y)
    sel = lambda x, y: ("bin", 3, "select", x, y)
    m, p, n = (lambda x: un("-", x)), (lambda x: un("+", x)), (lambda x: un("!", x))
    ts = [
        [("expr", sub(a, m(m(b))))], [("expr", sub(one, m(m(one))))], [("expr", ADD(a, p(p(b))))], [("expr", ADD(one, p(m(p(two)))))],
        [("expr", sub(sub(a, m(b)), m(c)))], [("expr", ADD(ADD(one, p(two)), p(one)))], [("expr", sub(m(a), m(b)))], [("expr", m(m(m(one))))],
        [("expr", MUL(sub(two, m(two)), m(two)))], [("expr", sub(("bin", 8, "^", two, two), m(("bin", 8, "^", two, two))))],
        [("expr", sel(a, sub(one, m(one))))], [("expr", sub(sel(a, one), m(one)))], [("expr", ("arr", [sub(a, m(one)), m(b), ADD(one, p(one))]))],
        [("assign", "x", m(m(a)))], [("assign", "x", sub(a, m(one)))], [("local", "_a", ADD(a, p(one)))], [("assign", "x", n(n(a)))],
        [("expr", sub(paren(a), paren(m(b))))], [("expr", sub(paren(a), m(b)))], [("expr", sub(("arr", [a]), m(("arr", [b]))))],
        [("expr", ("bin", 3, "forEach", ("code", [("expr", sub(var("_x"), m(one)))]), ("arr", [m(one), p(two)])))],
        [("expr", ("code", [("assign", "x", sub(a, m(b))), ("expr", ADD(a, p(b)))]))],
        [("expr", sub(a, m(one))), ("expr", ADD(b, p(one)))], [("expr", sub(("str", '"a"'), m(("str", "'b'"))))],
        [("expr", sub(hexv("$1F"), m(hexv("0x10"))))], [("expr", sub(num("1e3"), m(num(".5"))))], [("expr", ADD(num("2.5e-2"), p(num("1E+2"))))],
        [("expr", n(m(a)))], [("expr", m(n(a)))], [("expr", ("bin", 1, "&&", n(a), n(n(b))))], [("expr", ("bin", 0, "||", n(a), n(b)))],
        [("expr", ("bin", 2, ">=", a, m(one)))], [("expr", ("bin", 2, "!=", a, n(b)))], [("expr", ("bin", 2, ">", a, m(b)))], [("expr", ("bin", 2, "<", a, m(b)))],
        [("expr", ("bin", 2, ">>", a, m(b)))], [("expr", ("bin", 2, "==", m(a), m(b)))], [("expr", ("bin", 6, "/", a, m(b)))], [("expr", ("bin", 6, "%", a, p(b)))],
        [("expr", ("bin", 8, "#", a, m(one)))], [("expr", ("bin", 8, "^", a, m(b)))],
    ]
    # levels as registered (a template whose operator is registered at another level would print other parentheses than intended: drop it)
    lv = dict((nm, k) for k, nm in P.all_binary)

    def ok(t):
        if t[0] == "bin":
            return lv.get(t[2].lower()) == t[1] and ok(t[3]) and ok(t[4])
        if t[0] in ("un", "paren"):
            return ok(t[-1])
        if t[0] == "arr":
            return all(ok(e) for e in t[1])
        if t[0] == "code":
            return all(ok(s[-1]) for s in t[1])
        return True
    return [ss for ss in ts if all(ok(s[-1]) for s in ss)]


def layouts(P, rng, words, cap):
    """every subset of the gaps of L op u R closed, and of the templates"""
    sym, word = binary_ops(P, rng, words)
    out = []
    for k, nm in sym + word:
        for u in ("-", "+", "!"):
            for l, r in ((var("a"), var("b")), (num("1"), num("2"))):
                ss = [("expr", ("bin", k, nm, l, un(u, r)))]
                for mk in masks(3, rng, 8):
                    out.append(case_of("glue:layout/op", ss, mk, rng))
    for ss in templates(P, rng):
        n = len(gemit_block(ss)) - 1
        for mk in masks(n, rng, cap):
            out.append(case_of("glue:layout/t", ss, mk, rng))
    return out


def randoms(gen, rng, n):
    out = []
    for _ in range(n):
        depth = rng.choice([2, 3, 3, 4])
        ss = gen.stmts(depth, rng.choice([1, 1, 2, 3]))
        out.append(case_of("glue:random/d%d" % depth, ss))
    return out


# ------------------------------------------------------------------------------------ adjacency produced by the preprocessor
MACRO_SHAPES = ("arg", "const", "left", "tail", "cat", "op", "both")


def macro_text(shape, l, o, u, r):
    if shape == "arg":
        return "#define VU(x) %sx\n%s%sVU(%s)" % (u, l, o, r)
    if shape == "const":
        return "#define VC %s%s\n%s%sVC" % (u, r, l, o)
    if shape == "left":
        return "#define VL %s\nVL%s%s%s" % (l, o, u, r)
    if shape == "tail":
        return "#define VD(x) x%s\nVD(%s)%s%s" % (o, l, u, r)
    if shape == "cat":
        return "#define VCAT(x,y) x##y\nVCAT(%s%s,%s%s)" % (l, o, u, r)
    if shape == "op":
        return "#define VO %s\n%s VO%s%s" % (o, l, u, r)
    return "#define VE(x,y) x%s%sy\nVE(%s,%s)" % (o, u, l, r)


def macros(P, rng):
    """L op u R where the two operator characters meet by macro expansion; the case is judged on the text the parser receives"""
    sym, _ = binary_ops(P, rng, 0)
    free = lambda names: [n for n in names if n.lower() not in P.opnames]
    ls = [num("7"), num("1.5"), hexv("0x10")] + [var(n) for n in free(["a", "_i", "bar1", "x_"])]
    rs = [num("2"), num(".5"), hexv("$1F")] + [var(n) for n in free(["b", "_b"])]
    out = []
    for k, nm in sym:
        if "#" in nm:
            continue        # `#` / `##` are the preprocessor's own operators inside a macro body
        for u in ("-", "+", "!"):
            for shape in MACRO_SHAPES:
                l, r = rng.choice(ls), rng.choice(rs)
                ss = [("expr", ("bin", k, nm, l, un(u, r)))]
                c = case_of("glue:macro/" + shape, ss)
                c["mode"] = "M"
                c["text"] = macro_text(shape, l[1], nm, u, r[1]).encode("latin-1")
                c["glued"] = (0, 0)
                out.append(c)
    return out


LINE_RE = re.compile(rb"^#line [^\n]*(\n|$)", re.M)


def pp_body(pp):
    """the preprocessed text without the #line directives the preprocessor puts in front (C14's subject)"""
    return LINE_RE.sub(b"", pp)
