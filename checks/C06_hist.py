"""C06, history half: `str` is a function of the value its operand has NOW.  The property speaks about every value; a value
of an array variable is reached through a history (arrays are changed in place by set / pushBack / deleteAt / reverse /
sort / resize / append / deleteRange, directly, through an alias, or inside a nested array), and the text `str` gives must
denote the value at the moment of the call, whatever was printed before.

A case is a straight-line SQF script over a pool of values built through the public data classes (globals c06_p<j>).
The generator executes the same steps on Python lists (Python's list has the reference semantics of d_array: aliases,
shared nested arrays, deep copy for unary +), so the value every operand has at every observation is known beforehand.
An observation k is   c06_t<k> = str <operand>;  c06_v<k> = +<operand>   (snapshot) and, at the end of the script,
c06_c<k> = call compile c06_t<k>;  c06_e<k> = c06_c<k> isEqualTo c06_v<k>.

Three layers per observation:
  1. tie: the snapshot the implementation took is the value the generator computed (else the array operators do not have
     list semantics: the machinery's assumption is broken, reported without a failing input for C06);
  2. oracle (the property itself): the text compiles to a value equal to the current value: c06_e is true and the
     recompiled value is, bit for bit, the computed one; no diagnostics;
  3. correspondence: the text is NumDefs.str_value of the current value (extracted model, ocaml/num_driver.ml, RT line) -
     the model's str is a function of the value, so any dependence on the history is a difference.
Code operands (immutable) are observed as well: (call compile str c) isEqualTo c, and one source has one text wherever and
however often it is printed (implementation-only, the value model has no code).
Observations made while `toFixed n` is in force are outside the property (fixed notation) and are not judged; they are there
because the number format is one more thing a remembered text can be stale against."""
import json, os
import vcommon as V
import C06_values as CV

PID = "C06"
MAXNODES = 120


class Code:
    def __init__(self, src):
        self.src = src


CODE_SRC = ["{a + b}", "{a - b}", "{1}", "{2}", "{[1,2]}", "{[2,1]}", "{}", "{a; b}", "{b; a}", "{x = 1; y = [x, {x}]}", "{x = 2; y = [x, {x}]}",
            "{\"a\"\"b\"}", "{(a + b) * c}", "{a + b * c}"]


# ------------------------------------------------------------------ values
def nodes(v):
    return 1 + sum(nodes(x) for x in v) if isinstance(v, list) else 1


def dcopy(v):
    """d_array::copy_deep (d_array.h:93): every nested array is copied at every place it occurs - an array that occurs twice
    becomes two arrays (Python's copy.deepcopy would keep them one object)"""
    return [dcopy(x) for x in v] if isinstance(v, list) else v


def reach(frm, target):
    """target (a list object) is frm or nested in it"""
    if frm is target:
        return True
    return isinstance(frm, list) and any(reach(x, target) for x in frm)


def sqf_equal(a, b):
    """value::operator== (data::equals, case sensitive)"""
    if isinstance(a, bool) or isinstance(b, bool):
        return isinstance(a, bool) and isinstance(b, bool) and a == b
    if isinstance(a, bytes) or isinstance(b, bytes):
        return isinstance(a, bytes) and isinstance(b, bytes) and a == b
    if isinstance(a, int) or isinstance(b, int):
        return isinstance(a, int) and isinstance(b, int) and CV.f_of_bits(a) == CV.f_of_bits(b)
    if isinstance(a, list) and isinstance(b, list):
        return len(a) == len(b) and all(sqf_equal(x, y) for x, y in zip(a, b))
    return a is b


def kind_of(v):
    if isinstance(v, list):
        return "array"
    if isinstance(v, Code):
        return "code"
    if isinstance(v, bool):
        return "bool"
    if isinstance(v, bytes):
        return "string"
    return "number"


def rand_num(rng):
    r = rng.random()
    if r < 0.5:
        return CV.nearest32(CV.Fraction(rng.randint(0, 99))) | (0x80000000 if rng.random() < 0.2 else 0)
    return CV.dec6_bits(rng)


def rand_leaf(rng):
    r = rng.random()
    if r < 0.15:
        return rng.random() < 0.5
    if r < 0.4:
        return CV.rand_string(rng, 5)
    return rand_num(rng)


def rand_array(rng, depth, width=None):
    n = width if width is not None else rng.choice([0, 1, 2, 3, 3, 4, 6])
    return [rand_array(rng, depth - 1) if depth > 0 and rng.random() < 0.35 else rand_leaf(rng) for _ in range(n)]


# ------------------------------------------------------------------ a history under construction
class Hist:
    def __init__(self, rng, pool):
        self.rng = rng
        self.pool = pool
        self.env = {"c06_p%d" % j: v for j, v in enumerate(pool)}
        self.pool_enc = ";".join(CV.enc(v) for v in pool)
        self.stmts, self.tail, self.obs, self.steps = [], [], [], []
        self.fixed = -1
        self.nvar = 0
        self.unseen = False      # something changed since the last observation of an array

    # -- references: (variable, path of indices)
    def get(self, ref):
        v = self.env[ref[0]]
        for i in ref[1]:
            v = v[i]
        return v

    @staticmethod
    def sqf(ref):
        t = ref[0]
        for i in ref[1]:
            t = "(%s select %d)" % (t, i)
        return t

    def array_refs(self, maxdepth=3):
        """every way to denote an array: variables holding one, and select paths into them"""
        out = []

        def walk(name, path, v):
            out.append((name, tuple(path)))
            if len(path) < maxdepth:
                for i, x in enumerate(v):
                    if isinstance(x, list):
                        walk(name, path + [i], x)
        for name in sorted(self.env):
            if isinstance(self.env[name], list) and not name.startswith("c06_p"):
                walk(name, [], self.env[name])
        return out

    def roots_containing(self, obj):
        return [(n, ()) for n in sorted(self.env) if not n.startswith("c06_p") and isinstance(self.env[n], list) and reach(self.env[n], obj)]

    def fresh_var(self, stem="h"):
        self.nvar += 1
        return "c06_%s%d" % (stem, self.nvar)

    def emit(self, text, step):
        self.stmts.append(text)
        self.steps.append(step)

    # -- elements to put into arrays: (sqf text, python object); a pool array is copied (fresh object) unless alias
    def element(self, into=None, want_kind=None, differs_from=None, alias=False):
        rng = self.rng
        for _ in range(40):
            j = rng.randrange(len(self.pool))
            v = self.pool[j]
            if want_kind and kind_of(v) != want_kind:
                continue
            if differs_from is not None and CV.enc(v) == CV.enc(differs_from):
                continue
            name = "c06_p%d" % j
            if isinstance(v, list):
                if alias and (into is None or not reach(v, into)):
                    return name, v
                return "+" + name, dcopy(v)
            return name, v
        return None

    # -- observations
    def observe(self, ref, form=None):
        rng = self.rng
        v = self.get(ref)
        k = len(self.obs)
        e = self.sqf(ref)
        form = rng.randrange(6) if form is None else form
        t = "c06_t%d" % k
        text = [t + " = str " + e + ";",
                t + " = call {str " + e + "};",
                t + " = [" + e + "] call {str (_this select 0)};",
                "c06_q = " + e + "; " + t + " = str c06_q;",
                "{" + t + " = str _x} forEach [" + e + "];",
                "if (true) then {" + t + " = str " + e + "};"][form]
        if form == 3:
            self.env["c06_q"] = v
        comp = "call compile"                     # the text of a code value is a code literal: evaluating it gives the code
        se = "c06_q" if form == 3 else e          # (form 3 rebinds c06_q, which the operand expression may mention)
        snap = "+" + se if isinstance(v, list) else se
        self.emit(text + " c06_v%d = %s;" % (k, snap), "str " + e)
        if self.fixed == -1:                      # (a text printed under toFixed n is not judged: it is not compiled either)
            self.tail.append("c06_c%d = %s c06_t%d; c06_e%d = c06_c%d isEqualTo c06_v%d;" % (k, comp, k, k, k, k))
        self.obs.append({"operand": e, "kind": kind_of(v), "want": "K" if isinstance(v, Code) else CV.enc(v),
                         "src": v.src if isinstance(v, Code) else None, "judged": self.fixed == -1,
                         "after_change": bool(self.unseen and isinstance(v, list))})
        if isinstance(v, list):
            self.unseen = False

    # -- changes in place; each returns True when it was applicable (and then has been emitted and applied)
    def m_set(self, ref, grow=False):
        a = self.get(ref)
        if not a and not grow:
            return False
        i = len(a) if grow else self.rng.randrange(len(a))
        el = self.element(into=a, differs_from=None if grow else a[i], alias=self.rng.random() < 0.2)
        if not el:
            return False
        if grow:
            a.append(el[1])
        else:
            a[i] = el[1]
        self.emit("%s set [%d, %s];" % (self.sqf(ref), i, el[0]), "set-grow" if grow else "set")
        return True

    def m_pushback(self, ref, unique=False):
        a = self.get(ref)
        el = self.element(into=a, alias=self.rng.random() < 0.2)
        if not el:
            return False
        if not unique or not any(sqf_equal(x, el[1]) for x in a):
            a.append(el[1])
        self.emit("%s %s %s;" % (self.sqf(ref), "pushBackUnique" if unique else "pushBack", el[0]), "pushBackUnique" if unique else "pushBack")
        return True

    def m_deleteat(self, ref):
        a = self.get(ref)
        if not a:
            return False
        i = self.rng.randrange(len(a))
        del a[i]
        self.emit("%s deleteAt %d;" % (self.sqf(ref), i), "deleteAt")
        return True

    def m_deleterange(self, ref):
        a = self.get(ref)
        if not a:
            return False
        i = self.rng.randrange(len(a))
        j = self.rng.randrange(i, len(a))
        del a[i:j + 1]
        self.emit("%s deleteRange [%d, %d];" % (self.sqf(ref), i, j), "deleteRange")
        return True

    def m_resize(self, ref, same=False):
        a = self.get(ref)
        if not a and not same:
            return False
        n = len(a) if same else self.rng.randrange(len(a))
        del a[n:]
        self.emit("%s resize %d;" % (self.sqf(ref), n), "resize-same" if same else "resize")
        return True

    def m_reverse(self, ref):
        a = self.get(ref)
        if len(a) < 2 or all(CV.enc(x) == CV.enc(y) for x, y in zip(a, reversed(a))):
            return False
        a.reverse()
        self.emit("reverse %s;" % self.sqf(ref), "reverse")
        return True

    def m_sort(self, ref):
        """only where std::sort has one possible result: all numbers or all strings, no two elements comparing equal"""
        a = self.get(ref)
        if len(a) < 2:
            return False
        if all(isinstance(x, int) and not isinstance(x, bool) for x in a):
            key = CV.f_of_bits
        elif all(isinstance(x, bytes) for x in a):
            key = lambda x: x
        else:
            return False
        keys = [key(x) for x in a]
        if len(set(keys)) != len(keys):
            return False
        asc = self.rng.random() < 0.5
        if keys == sorted(keys, reverse=not asc):
            asc = not asc
        a.sort(key=key, reverse=not asc)
        self.emit("%s sort %s;" % (self.sqf(ref), "true" if asc else "false"), "sort")
        return True

    def m_append(self, ref, self_=False):
        a = self.get(ref)
        if self_:
            if not a or nodes(a) * 2 > MAXNODES:
                return False
            a.extend(list(a))
            self.emit("%s append %s;" % (self.sqf(ref), self.sqf(ref)), "append-self")
            return True
        els = [self.element(into=a) for _ in range(self.rng.choice([1, 2, 3]))]
        if not all(els):
            return False
        a.extend(e[1] for e in els)
        self.emit("%s append [%s];" % (self.sqf(ref), ", ".join(e[0] for e in els)), "append")
        return True

    def m_push_delete(self, ref):
        a = self.get(ref)
        if not a:
            return False
        el = self.element(into=a, differs_from=a[0])
        if not el:
            return False
        a.append(el[1])
        i = self.rng.randrange(len(a) - 1)
        del a[i]
        self.emit("%s pushBack %s; %s deleteAt %d;" % (self.sqf(ref), el[0], self.sqf(ref), i), "pushBack+deleteAt")
        return True

    def m_delete_push(self, ref):
        a = self.get(ref)
        if not a:
            return False
        i = self.rng.randrange(len(a))
        old, was_last = a[i], i == len(a) - 1
        del a[i]                                  # first: the element pushed may be a copy of this very array
        el = self.element(into=a, differs_from=old if was_last else None)
        if not el:
            a.insert(i, old)
            return False
        a.append(el[1])
        self.emit("%s deleteAt %d; %s pushBack %s;" % (self.sqf(ref), i, self.sqf(ref), el[0]), "deleteAt+pushBack")
        return True

    def m_swap(self, ref):
        a = self.get(ref)
        if len(a) < 2:
            return False
        i, j = self.rng.sample(range(len(a)), 2)
        if CV.enc(a[i]) == CV.enc(a[j]):
            return False
        a[i], a[j] = a[j], a[i]
        t = self.sqf(ref)
        self.emit("c06_w = %s select %d; %s set [%d, %s select %d]; %s set [%d, c06_w];" % (t, i, t, i, t, j, t, j), "swap")
        return True

    def m_alias_set(self, ref):
        """the change is made through another name of the same object"""
        a = self.get(ref)
        if not a:
            return False
        i = self.rng.randrange(len(a))
        el = self.element(into=a, differs_from=a[i])
        if not el:
            return False
        a[i] = el[1]
        self.env["c06_z"] = a
        self.emit("c06_z = %s; c06_z set [%d, %s];" % (self.sqf(ref), i, el[0]), "set-through-alias")
        return True

    def m_foreach_set(self, ref):
        a = self.get(ref)
        if not a:
            return False
        i = self.rng.randrange(len(a))
        el = self.element(into=a, differs_from=a[i])
        if not el:
            return False
        a[i] = el[1]
        self.emit("{_x set [%d, %s]} forEach [%s];" % (i, el[0], self.sqf(ref)), "set-in-forEach")
        return True

    def m_call_set(self, ref):
        a = self.get(ref)
        if not a:
            return False
        i = self.rng.randrange(len(a))
        el = self.element(into=a, differs_from=a[i])
        if not el:
            return False
        a[i] = el[1]
        self.emit("[%s, %s] call {(_this select 0) set [%d, _this select 1]};" % (self.sqf(ref), el[0], i), "set-in-call")
        return True

    def m_rebind(self, ref, copy_=False):
        """the variable gets another object: a copy of the old one, or a new array of the same length"""
        if ref[1]:
            return False
        a = self.get(ref)
        if copy_:
            self.env[ref[0]] = dcopy(a)
            self.emit("%s = +%s;" % (ref[0], ref[0]), "rebind-copy")
            return True
        els = [self.element() for _ in a]
        if not all(els) or [CV.enc(e[1]) for e in els] == [CV.enc(x) for x in a]:
            return False
        self.env[ref[0]] = [e[1] for e in els]
        self.emit("%s = [%s];" % (ref[0], ", ".join(e[0] for e in els)), "rebind-new-same-length")
        return True

    def m_tofixed_window(self, ref):
        """the value is printed while another number format is in force, then the format is put back"""
        n = self.rng.choice([0, 1, 2, 3, 6, 10, 20])
        self.emit("toFixed %d;" % n, "toFixed")
        self.fixed = n
        self.observe(ref)
        self.emit("toFixed -1;", "toFixed-reset")
        self.fixed = -1
        self.unseen = True
        return True

    MUTATIONS = [
        ("set", lambda h, r: h.m_set(r)), ("set-grow", lambda h, r: h.m_set(r, True)), ("pushBack", lambda h, r: h.m_pushback(r)),
        ("pushBackUnique", lambda h, r: h.m_pushback(r, True)), ("deleteAt", lambda h, r: h.m_deleteat(r)),
        ("deleteRange", lambda h, r: h.m_deleterange(r)), ("resize", lambda h, r: h.m_resize(r)),
        ("resize-same", lambda h, r: h.m_resize(r, True)), ("reverse", lambda h, r: h.m_reverse(r)), ("sort", lambda h, r: h.m_sort(r)),
        ("append", lambda h, r: h.m_append(r)), ("append-self", lambda h, r: h.m_append(r, True)),
        ("pushBack+deleteAt", lambda h, r: h.m_push_delete(r)), ("deleteAt+pushBack", lambda h, r: h.m_delete_push(r)),
        ("swap", lambda h, r: h.m_swap(r)), ("set-through-alias", lambda h, r: h.m_alias_set(r)),
        ("set-in-forEach", lambda h, r: h.m_foreach_set(r)), ("set-in-call", lambda h, r: h.m_call_set(r)),
        ("rebind-copy", lambda h, r: h.m_rebind(r, True)), ("rebind-new-same-length", lambda h, r: h.m_rebind(r)),
        ("toFixed-window", lambda h, r: h.m_tofixed_window(r)),
    ]

    def mutate(self, name, ref):
        f = dict(self.MUTATIONS)[name]
        if nodes(self.env[ref[0]]) > MAXNODES and name in ("append", "append-self", "pushBack", "set-grow", "set"):
            return False
        ok = f(self, ref)
        if ok and name != "resize-same":
            self.unseen = True
        return ok

    # -- things that may happen between a change and the next print of the changed array
    BETWEEN = ["none", "str-number", "str-string", "str-bool", "str-other-array", "str-code", "str-copy", "str-inner", "str-element",
               "alias-only", "bind-code"]

    def between(self, name, ref):
        rng = self.rng
        if name == "none":
            return True
        if name in ("str-number", "str-string", "str-bool"):
            want = name[4:]
            c = [n for n in sorted(self.env) if n.startswith("c06_p") and kind_of(self.env[n]) == want]
            if not c:
                return False
            keep = self.unseen
            self.observe((rng.choice(c), ()))
            self.unseen = keep
            return True
        if name == "str-other-array":
            a = self.get(ref)
            c = [r for r in self.array_refs() if not reach(self.get(r), a) and not reach(a, self.get(r))]
            if not c:
                return False
            keep = self.unseen
            self.observe(rng.choice(c))
            self.unseen = keep
            return True
        if name == "str-code":
            c = [n for n in sorted(self.env) if isinstance(self.env[n], Code)]
            if not c:
                return False
            self.observe((rng.choice(c), ()))
            return True
        if name == "str-copy":
            # the text of a copy: a different object with the same content
            v = self.fresh_var("y")
            self.env[v] = dcopy(self.get(ref))
            self.emit("%s = +%s;" % (v, self.sqf(ref)), "copy")
            keep = self.unseen
            self.observe((v, ()))
            self.unseen = keep
            return True
        if name == "str-inner":
            a = self.get(ref)
            c = [i for i, x in enumerate(a) if isinstance(x, list)]
            if not c:
                return False
            keep = self.unseen
            self.observe((ref[0], ref[1] + (rng.choice(c),)))
            self.unseen = keep
            return True
        if name == "str-element":
            a = self.get(ref)
            c = [i for i, x in enumerate(a) if not isinstance(x, list)]
            if not c:
                return False
            keep = self.unseen
            self.observe((ref[0], ref[1] + (rng.choice(c),)))
            self.unseen = keep
            return True
        if name == "alias-only":
            v = self.fresh_var("y")
            self.env[v] = self.get(ref)
            self.emit("%s = %s;" % (v, self.sqf(ref)), "alias")
            return True
        if name == "bind-code":
            self.bind_code()
            return True
        return False

    def bind_code(self, name=None):
        name = name or self.rng.choice(["c06_k0", "c06_k1"])
        src = self.rng.choice(CODE_SRC)
        self.env[name] = Code(src)
        self.emit("%s = %s;" % (name, src), "bind-code")

    def bind_array(self, src_pool_name, name=None):
        name = name or self.fresh_var()
        self.env[name] = dcopy(self.env[src_pool_name])
        self.emit("%s = +%s;" % (name, src_pool_name), "bind")
        return name

    def line(self):
        script = " ".join(self.stmts + self.tail)
        return "HIST\t%s\t%d\t%s" % (self.pool_enc, len(self.obs), V.hx(script.encode("latin-1"))), script


def make_pool(rng, shape):
    """leaves of every kind, then arrays: pool[0] is the array the history is about"""
    pool = [shape]
    pool += [rand_num(rng) for _ in range(5)] + [CV.rand_string(rng, 5) for _ in range(3)] + [True, False]
    pool += [rand_array(rng, 1, rng.choice([1, 2, 3])) for _ in range(2)] + [[]]
    return pool


def shapes(rng):
    """the arrays a history starts from: flat numbers (sortable), flat strings, mixed leaves, one / two levels of nesting"""
    nums = []
    while len(nums) < 4:
        b = rand_num(rng)
        if all(CV.f_of_bits(b) != CV.f_of_bits(x) for x in nums):
            nums.append(b)
    strs = list({CV.rand_string(rng, 5) for _ in range(6)})[:3]
    return [("flat-numbers", nums), ("flat-strings", strs if len(strs) >= 2 else [b"a", b"b"]),
            ("mixed", [rand_num(rng), CV.rand_string(rng, 5), True, rand_num(rng)]),
            ("nested-1", [rand_num(rng), [rand_num(rng), CV.rand_string(rng, 4)], rand_num(rng), [rand_num(rng), rand_num(rng), rand_num(rng)]]),
            ("nested-2", [[rand_num(rng), [rand_num(rng), rand_num(rng), [rand_num(rng)]]], CV.rand_string(rng, 4), [[False, rand_num(rng)]]])]


def deep_refs(h, name, depth):
    """array references below variable `name` at exactly this nesting depth"""
    return [r for r in h.array_refs() if r[0] == name and len(r[1]) == depth]


def gen_pair(rng, shape, mut, depth, betw, reps):
    """print the array (reps[0] times), change it (or an array nested in it at the given depth) in place, let something
    else happen, print it again (reps[1] times); then once more with a second change"""
    h = Hist(rng, make_pool(rng, dcopy(shape)))
    a = h.bind_array("c06_p0")
    h.bind_array("c06_p%d" % (len(h.pool) - 3))          # another array, unrelated
    h.bind_code("c06_k0")
    root = (a, ())
    for _ in range(reps[0]):
        h.observe(root)
    targets = deep_refs(h, a, depth)
    rng.shuffle(targets)
    done = False
    for t in targets:
        if h.mutate(mut, t if mut not in ("rebind-copy", "rebind-new-same-length", "toFixed-window") else root):
            done = True
            break
    if not done:
        return None
    if not h.between(betw, root):
        return None
    for _ in range(reps[1]):
        h.observe(root)
    # a second round on the same object, with whatever change applies
    names = [m for m, _ in Hist.MUTATIONS]
    rng.shuffle(names)
    for m in names[:6]:
        ts = deep_refs(h, a, rng.choice([0, 0, depth]))
        if ts and h.mutate(m, rng.choice(ts) if m not in ("rebind-copy", "rebind-new-same-length", "toFixed-window") else root):
            h.observe(root)
            break
    return h


def gen_random(rng, nsteps):
    shp = rng.choice(shapes(rng))[1]
    h = Hist(rng, make_pool(rng, dcopy(shp)))
    vars_ = [h.bind_array("c06_p0")]
    if rng.random() < 0.6:
        vars_.append(h.bind_array(rng.choice(["c06_p%d" % (len(h.pool) - 3), "c06_p%d" % (len(h.pool) - 2), "c06_p0"])))
    if rng.random() < 0.5:
        h.bind_code()
    names = [m for m, _ in Hist.MUTATIONS]
    last = None
    for _ in range(nsteps):
        r = rng.random()
        refs = h.array_refs()
        if r < 0.4:
            ref = rng.choice(refs)
            before = h.get(ref)
            if h.mutate(rng.choice(names), ref):
                last = before if h.steps[-1] not in ("rebind-copy", "rebind-new-same-length") else h.env[ref[0]]
        elif r < 0.75:
            # print something that holds the array changed last (the variable, or the changed array itself), or anything
            if last is not None and rng.random() < 0.75:
                c = [x for x in refs if reach(h.get(x), last)]
                h.observe(rng.choice(c) if c else rng.choice(refs))
            else:
                h.observe(rng.choice(refs))
        elif r < 0.87:
            h.between(rng.choice(Hist.BETWEEN[1:]), rng.choice(refs))
        elif r < 0.9:
            if not any(isinstance(x, Code) for x in h.env.values()):
                h.bind_code()
            h.between("str-code", rng.choice(refs))
        elif r < 0.95:
            src = rng.choice([n for n in h.env if isinstance(h.env[n], list)])
            v = h.fresh_var()
            if rng.random() < 0.5:
                h.env[v] = h.env[src]
                h.emit("%s = %s;" % (v, src), "alias")
            else:
                h.env[v] = dcopy(h.env[src])
                h.emit("%s = +%s;" % (v, src), "copy")
        else:
            h.bind_code()
    for v in vars_:
        h.observe((v, ()))
    return h


def generate(rng, thorough):
    """list of (kind, Hist)"""
    out = []
    names = [m for m, _ in Hist.MUTATIONS]
    # systematic: every kind of change x every starting shape x nesting depth of the changed array, printed right after the
    # change (nothing in between), and with every kind of intermediate event at least a few times per change
    for sname, shp in shapes(rng):
        for mut in names:
            for depth in (0, 1, 2):
                if depth > 0 and mut in ("rebind-copy", "rebind-new-same-length", "toFixed-window"):
                    continue
                h = gen_pair(rng, shp, mut, depth, "none", (1, 1))
                if h:
                    out.append(("history-pair:%s:%s:d%d" % (mut, sname, depth), h))
    for mut in names:
        for betw in Hist.BETWEEN[1:]:
            for rep in range(3 if thorough else 1):
                sname, shp = rng.choice(shapes(rng)[2:])
                depth = rng.choice([0, 0, 1, 2])
                h = gen_pair(rng, shp, mut, depth, betw, (rng.choice([1, 2, 3]), rng.choice([1, 2])))
                if h:
                    out.append(("history-between:%s:%s" % (mut, betw), h))
    # sort has one possible result only on arrays of distinct numbers / distinct strings: its own starting arrays, at depth 0 and 1
    for i in range(200 if thorough else 24):
        n = rng.choice([2, 3, 5, 8])
        if i % 2:
            flat = list({CV.rand_string(rng, 6) for _ in range(3 * n)})[:n]
        else:
            flat = []
            while len(flat) < n:
                b = rand_num(rng)
                if all(CV.f_of_bits(b) != CV.f_of_bits(x) for x in flat):
                    flat.append(b)
        if len(flat) < 2:
            continue
        depth = (i // 2) % 2
        h = gen_pair(rng, flat if depth == 0 else [rand_num(rng), flat], "sort", depth, rng.choice(["none", "none", "str-number", "str-string"]),
                     (rng.choice([1, 2]), 1))
        if h:
            out.append(("history-sort:d%d" % depth, h))
    # code values printed repeatedly, rebound to another code value of the same length in between
    for i in range(60 if thorough else 12):
        h = Hist(rng, make_pool(rng, [rand_num(rng)]))
        for _ in range(rng.choice([3, 5, 8])):
            if rng.random() < 0.5 or not any(isinstance(x, Code) for x in h.env.values()):
                h.bind_code()
            h.between("str-code", None)
            if rng.random() < 0.3:
                h.between(rng.choice(["str-number", "str-string"]), None)
        out.append(("history-code", h))
    for i in range(4000 if thorough else 350):
        n = rng.choice([4, 6, 8, 12, 20, 40 if thorough else 20])
        out.append(("history-random:n%d" % n, gen_random(rng, n)))
    return out


# ------------------------------------------------------------------ the part
def run_part(run, replay=None):
    thorough = run.tier == "thorough"
    himpl = V.build_harness("h_num", "asan" if thorough else "plain")
    drv = V.ocaml_driver("num")
    known = run.known.has(PID, CV.KEY_STOD)
    cases = []
    if replay:
        cases.append({"kind": replay.get("kind", "replay"), "line": replay["line"], "obs": replay["observations"], "script": replay.get("script", ""),
                      "steps": replay.get("steps", [])})
    else:
        cdir = os.path.join(V.VERIF, "corpus", PID)
        if os.path.isdir(cdir):
            for fn in sorted(os.listdir(cdir)):
                if fn.startswith("history_") and fn.endswith(".json"):
                    r = json.load(open(os.path.join(cdir, fn)))
                    cases.append({"kind": "corpus:" + fn, "line": r["line"], "obs": r["observations"], "script": r.get("script", ""),
                                  "steps": r.get("steps", [])})
        for kind, h in generate(run.rng, thorough):
            line, script = h.line()
            cases.append({"kind": kind, "line": line, "obs": h.obs, "script": script, "steps": h.steps})

    rc, impl, err = V.run_lines_parallel([himpl], [c["line"] for c in cases], timeout=7200)
    wants = sorted({o["want"] for c in cases for o in c["obs"] if o["want"] != "K"})
    rc2, mres, err2 = V.run_lines_parallel([drv], ["RT\t" + w for w in wants], timeout=7200)
    model = dict(zip(wants, mres))

    nviol0 = len(run.violations)
    kinds, steps_seen, code_text = {}, {}, {}
    nobs = njudged = nafter = ncode = nfixed = 0
    distinct = set()
    samples = []
    for c, il in zip(cases, impl):
        kind = c["kind"].split(":")[0]
        kinds[kind] = kinds.get(kind, 0) + 1
        for s in c["steps"]:
            steps_seen[s.split(" ")[0]] = steps_seen.get(s.split(" ")[0], 0) + 1
        rep = {"part": "history", "kind": c["kind"], "line": c["line"], "script": c["script"], "steps": c["steps"], "observations": c["obs"],
               "impl": il}
        f = il.split("\t")
        K = len(c["obs"])
        if f[0] in ("CRASH", "TIMEOUT", "OOM", "EXCEPTION", "EXIT", "HARNESS-LOST", "LOADFAIL", "BADLINE") or len(f) != 4 * K + 1:
            run.violation("a history of array changes and str calls ended abnormally: " + " ".join(f[:2]), rep)
            continue
        diag = f[4 * K]
        if len(samples) < 3 and kind not in [s["kind"].split(":")[0] for s in samples] and kind != "corpus":
            samples.append({"kind": c["kind"], "script": c["script"][:400], "impl": il[:200]})
        bad = False
        for k, o in enumerate(c["obs"]):
            text_i, v_i, c_i, e_i = f[4 * k:4 * k + 4]
            nobs += 1
            r = dict(rep)
            r["observation"] = k
            r["operand"] = o["operand"]
            r["str_text"] = V.unhx(text_i).decode("latin-1") if text_i != "NOSTR" else None
            if o["want"] == "K":
                ncode += 1
                if v_i != "OK K":
                    r["broken"] = "history machinery: the operand is not the code value the generator bound"
                    run.violation("history does not have the value the generator computed (code operand)", r, found_input=False)
                    bad = True
                elif o["judged"] and (e_i != "true" or c_i != "OK K"):
                    run.violation("(call compile str c) isEqualTo c fails for a code value printed in the course of a history", r)
                    bad = True
                elif o["judged"]:
                    first = code_text.setdefault(o["src"], (text_i, c["script"], k))
                    if first[0] != text_i:
                        r["other_text"] = V.unhx(first[0]).decode("latin-1")
                        r["other_script"] = first[1]
                        run.violation("one code value has two different str texts depending on what was printed before", r)
                        bad = True
                continue
            want = "OK " + o["want"]
            if v_i != want:
                r["broken"] = ("history machinery: set/pushBack/deleteAt/reverse/sort/resize/append/deleteRange/+ on d_array vs the list "
                               "semantics the generator assumes (not a C06 matter)")
                run.violation("history does not have the value the generator computed", r, found_input=False)
                bad = True
                continue
            if not o["judged"]:
                nfixed += 1
                continue
            njudged += 1
            nafter += 1 if o.get("after_change") else 0
            distinct.add((o["want"], c["kind"].split(":")[0], bool(o.get("after_change"))))
            ml = model.get(o["want"], "BADLINE")
            m = ml.split("\t")
            r["model"] = ml
            if len(m) != 3:
                r["broken"] = "num driver did not answer"
                run.violation("MODEL gave no answer for a value of a history", r, found_input=False)
                continue
            text_m, rep_m, asis_m = m
            printable = rep_m == want        # theorem C06_value_roundtrip: holds for every printable value
            if printable and (e_i != "true" or c_i != want):
                if c_i == asis_m and asis_m != rep_m and text_i == text_m:
                    if known:
                        run.known_finding(CV.KEY_STOD)
                    else:
                        run.violation("(call compile str v) is not v (number literal converted through double)", r)
                else:
                    r["current_value"] = o["want"]
                    run.violation("str of an array does not denote the value the array has at the moment of the call "
                                  "(call compile str a isEqualTo a fails after the history)", r)
                bad = True
                continue
            if text_i != text_m:
                r["model_text"] = V.unhx(text_m).decode("latin-1")
                r["broken"] = "correspondence NumDefs.str_value (a function of the value alone) vs the str operator within a history"
                run.violation("str text within a history differs from the model's text of the current value", r, found_input=False)
                bad = True
        if not bad and diag != "-":
            rep["diag"] = diag
            rep["broken"] = "history machinery: a generated step raised a diagnostic"
            run.violation("a step of a generated history was refused by the implementation", rep, found_input=False)

    run.cov["evaluations"] = run.cov.get("evaluations", 0) + nobs
    run.cov["distinct_nontrivial"] = run.cov.get("distinct_nontrivial", 0) + len(distinct)
    dist = run.cov.setdefault("input_distribution", {})
    for k, v in kinds.items():
        dist["history:" + k] = v
    run.cov.setdefault("samples", [])
    run.cov["samples"] += samples
    rule = ("HISTORY: straight-line scripts over values built through the data classes: an array is printed with str (six spellings of "
            "the call), changed in place (set, set at the end, pushBack, pushBackUnique, deleteAt, deleteRange, resize smaller/same, "
            "reverse, sort, append, append to itself, pushBack+deleteAt and deleteAt+pushBack (length kept), swap, through an alias, "
            "inside forEach / call, rebinding the variable to a copy / to a new array of the same length, a toFixed window) at nesting "
            "depth 0/1/2, something happens in between (nothing, str of a number/string/boolean/other array/code/copy/inner "
            "array/element, an alias, a code binding) and it is printed again; every change x 5 starting shapes x depth, every change x "
            "every intermediate event, and random histories of 4-20 steps. Oracle per observation: the property (the text compiles to a "
            "value isEqualTo, and bit-identical to, the value the array has at that moment, computed by running the same steps on Python "
            "lists and confirmed by a snapshot), then the extracted model (text = NumDefs.str_value of the current value); code operands: "
            "implementation-only (call compile str c isEqualTo c; one text per source). A case is non-trivial when it is judged; distinct by "
            "(current value, family, printed-after-a-change)")
    run.cov["rule"] = (run.cov.get("rule", "") + " | " if run.cov.get("rule") else "") + rule
    run.cov.setdefault("trusted_base", []).append(
        "history: Python list semantics as the meaning of the array operators (every snapshot taken by the implementation is compared with it); "
        "harness/h_num.cpp HIST (fork per history)")
    part = {"histories": len(cases), "observations": nobs, "judged": njudged, "judged_right_after_a_change": nafter, "code_observations": ncode,
            "not_judged_toFixed": nfixed, "steps": steps_seen, "kinds": kinds, "violations": len(run.violations) - nviol0}
    run.cov.setdefault("parts", {})["history"] = part
    return part
