"""C04 - runtime errors are never silent, never skipped over, never leak into later code.

Proof side: coq/Properties_C04.v (theorems about the shared VM model).
Correspondence side (this file):
  1. program level - scenario programs with a faulting statement inserted at a random position of a
     random nest of control structures, handlers and spawned scripts; the extracted model and the real
     runtime run them (listing, per-assembly_step trace, final observation via checks/vmcommon.py).
  2. histories - 1..4 runs on ONE runtime instance (harness/h_vmhist.cpp, ocaml/vmhist_driver.ml), with the
     embedder's abort protocol, also with max_runtime and a non-terminating run in the middle.
  3. deep stacks (deep_case, implementation only, through sqfvm_call and the CLI) - the faulting statement runs under recursive functions
     and literal nests up to ~2600 frames deep; the reported stack trace and the _exception of every handler are read entry by entry.
Oracle (the property itself, independent of the mechanism model): every scenario is evaluated by a
small abstract interpreter over the scenario tree (markers in order, which handler takes over, what runs
afterwards, whether the run must be reported as failed); model AND implementation are compared with it."""
import json, os, re, sys
sys.setrecursionlimit(20000)       # literal nests of a few hundred constructs are printed and evaluated recursively
sys.path.insert(0, os.path.join(os.path.dirname(os.path.dirname(os.path.abspath(__file__))), "lib"))
sys.path.insert(0, os.path.dirname(os.path.abspath(__file__)))
import vcommon as V
import vmcommon as VM

PID = "C04"

# ---------------------------------------------------------------- tiny AST with tokens (driver format) and text + spans
#  expr: ("N",n) ("B",b) ("S",s) ("V",name) ("A",[e]) ("C",[stmt]) ("0",name) ("1",name,e) ("2",name,l,r)
#  stmt: ("E",e) ("=",name,e) ("L",name,e)
def tok_e(e):
    k = e[0]
    if k == "N": return "N %d" % e[1]
    if k == "B": return "T" if e[1] else "F"
    if k == "S": return "S %s" % VM.hexs(e[1])
    if k == "V": return "V %s" % e[1]
    if k == "A": return "A %d %s" % (len(e[1]), " ".join(tok_e(x) for x in e[1]))
    if k == "C": return "C %d %s" % (len(e[1]), " ".join(tok_s(x) for x in e[1]))
    if k == "0": return "0 %s" % e[1]
    if k == "1": return "1 %s %s" % (e[1], tok_e(e[2]))
    if k == "2": return "2 %s %s %s" % (e[1], tok_e(e[2]), tok_e(e[3]))
    raise ValueError(k)


def tok_s(s):
    if s[0] == "E": return "E %s" % tok_e(s[1])
    if s[0] == "=": return "= %s %s" % (s[1], tok_e(s[2]))
    return "L %s %s" % (s[1], tok_e(s[2]))


def tok_prog(stmts):
    return "%d %s" % (len(stmts), " ".join(tok_s(s) for s in stmts))


class Printer:
    """mirror of VmExec.print_block (fully parenthesised); records the text span of every statement object"""

    def __init__(self):
        self.spans = {}

    def expr(self, e, pos):
        k = e[0]
        if k == "N": return "(%d)" % e[1] if e[1] < 0 else "%d" % e[1]
        if k == "B": return "true" if e[1] else "false"
        if k == "S": return '"' + e[1].replace('"', '""') + '"'
        if k == "V" or k == "0": return e[1]
        if k == "A":
            out = "["
            for i, x in enumerate(e[1]):
                if i: out += ", "
                out += self.expr(x, pos + len(out))
            return out + "]"
        if k == "C":
            return "{ " + self.block(e[1], pos + 2) + " }"
        if k == "1":
            out = "(" + e[1] + " "
            return out + self.expr(e[2], pos + len(out)) + ")"
        if k == "2":
            out = "(" + self.expr(e[2], pos + 1)
            out += " " + e[1] + " "
            return out + self.expr(e[3], pos + len(out)) + ")"
        raise ValueError(k)

    def stmt(self, s, pos):
        if s[0] == "E":
            t = self.expr(s[1], pos)
        elif s[0] == "=":
            pre = s[1] + " = "
            t = pre + self.expr(s[2], pos + len(pre))
        else:
            pre = "private " + s[1] + " = "
            t = pre + self.expr(s[2], pos + len(pre))
        self.spans[id(s)] = (pos, pos + len(t))
        return t

    def block(self, stmts, pos):
        out = ""
        for i, s in enumerate(stmts):
            if i: out += "; "
            out += self.stmt(s, pos + len(out))
        return out


def n_(x): return ("N", x)
def un(n, e): return ("1", n, e)
def bi(n, l, r): return ("2", n, l, r)
def code(stmts): return ("C", list(stmts))
def arr(*es): return ("A", list(es))
def st(e): return ("E", e)
def mark_ast(what): return st(un("diag_log", what))


# ---------------------------------------------------------------- scenario tree + abstract interpreter (the oracle)
NORMAL = ("N",)


class RunState:
    def __init__(self, prog, sid, scheduled):
        self.prog, self.sid, self.scheduled = prog, sid, scheduled
        self.out, self.live, self.env, self.cost = [], 0, {}, 0
        self.traces = []            # (probe id, fault node): errors a trace-printing handler (ExceptT, guarded Recurse) took over


class Node:
    wrappers = ()

    def blocks(self):
        return []


class Mark(Node):
    def __init__(self, g): self.id = g.new_id()
    def ast(self): return [mark_ast(n_(self.id))]
    def run(self, s): s.out.append(str(self.id)); return NORMAL


class Seq(Node):
    def __init__(self, nodes, role): self.nodes, self.role = list(nodes), role
    def ast(self):
        r = []
        for n in self.nodes: r += n.ast()
        return r
    def run(self, s):
        for n in self.nodes:
            o = n.run(s)
            if o != NORMAL: return o
        return NORMAL


class Wrap(Node):
    """a construct that runs one block a fixed number of times and passes every outcome on"""
    def __init__(self, g, kind, body, n=1):
        self.kind, self.body, self.n = kind, body, n
        self.w = "_w%d" % g.new_id()
    def blocks(self): return [self.body]
    def ast(self):
        b, k = self.body.ast(), self.kind
        vals = arr(*[n_(i + 1) for i in range(self.n)])
        if k == "call": return [st(un("call", code(b)))]
        if k == "ifthen": return [st(bi("then", un("if", ("B", True)), code(b)))]
        if k == "ifelse": return [st(bi("then", un("if", ("B", False)), bi("else", code([mark_ast(n_(0))]), code(b))))]
        if k == "foreach": return [st(bi("forEach", code(b), vals))]
        if k == "for": return [st(bi("do", bi("to", bi("from", un("for", ("S", "_i")), n_(1)), n_(self.n)), code(b)))]
        if k == "count": return [st(bi("count", code(b + [st(("B", True))]), vals))]
        if k == "apply": return [st(bi("apply", vals, code(b + [st(n_(0))])))]
        if k == "isnil": return [st(un("isNil", code(b + [st(n_(0))])))]      # isNil {..} wants a value from its block
        if k == "switch": return [st(bi("do", un("switch", n_(1)), code([st(bi(":", un("case", n_(1)), code(b)))])))]
        if k == "with": return [st(bi("do", un("with", ("0", "uiNamespace")), code(b)))]
        if k == "and": return [st(bi("&&", ("B", True), code(b + [st(("B", True))])))]
        if k == "or": return [st(bi("||", ("B", False), code(b + [st(("B", True))])))]
        if k == "while":
            return [("L", self.w, n_(0)),
                    st(bi("do", un("while", code([st(bi("<", ("V", self.w), n_(self.n)))])),
                          code([("=", self.w, bi("+", ("V", self.w), n_(1)))] + b)))]
        raise ValueError(k)
    def run(self, s):
        var = {"foreach": "_x", "count": "_x", "apply": "_x", "for": "_i"}.get(self.kind)
        reps = self.n if self.kind in ("foreach", "for", "count", "apply", "while") else 1
        old = s.env.get(var)
        try:
            for i in range(reps):
                if var: s.env[var] = i + 1
                o = self.body.run(s)
                if o != NORMAL: return o
            return NORMAL
        finally:
            if var:
                if old is None: s.env.pop(var, None)
                else: s.env[var] = old


class IfX(Node):
    def __init__(self, var, k, body): self.var, self.k, self.body = var, k, body
    def blocks(self): return [self.body]
    def ast(self): return [st(bi("then", un("if", bi("==", ("V", self.var), n_(self.k))), code(self.body.ast())))]
    def run(self, s): return self.body.run(s) if s.env.get(self.var) == self.k else NORMAL


class CallExit(Node):
    """call { pre; if (true) exitWith { block }; dead }"""
    def __init__(self, g, pre, body): self.pre, self.body, self.dead = pre, body, Mark(g)
    def blocks(self): return [self.pre, self.body]
    def ast(self):
        return [st(un("call", code(self.pre.ast() + [st(bi("exitWith", un("if", ("B", True)), code(self.body.ast())))] + self.dead.ast())))]
    def run(self, s):
        o = self.pre.run(s)
        return o if o != NORMAL else self.body.run(s)


EXIT = ("X",)


class GuardExit(Node):
    """pre..; if (true) exitWith { block }; dead - as the last statements of a guarded block (except__ / try): the guard clause
    leaves the guarded block itself, so an error or throw inside the exitWith code meets a handler whose own scope is
    already marked as left"""
    def __init__(self, g, body): self.body, self.dead = body, Mark(g)
    def blocks(self): return [self.body]
    def ast(self): return [st(bi("exitWith", un("if", ("B", True)), code(self.body.ast())))] + self.dead.ast()
    def run(self, s):
        o = self.body.run(s)
        return EXIT if o == NORMAL else o


class Except(Node):
    def __init__(self, g, body, handler): self.id, self.body, self.handler = g.new_id(), body, handler
    def blocks(self): return [self.body, self.handler]
    def ast(self):
        probe = mark_ast(arr(n_(self.id), un("isNil", ("S", "_exception"))))
        return [st(bi("except__", code(self.body.ast()), code([probe] + self.handler.ast())))]
    def run(self, s):
        s.live += 1
        o = self.body.run(s)
        s.live -= 1
        if o == NORMAL or o == EXIT: return NORMAL
        s.out.append("[%d,false]" % self.id)      # the error is available in _exception
        return self.handler.run(s)


class ExceptT(Except):
    """except__ whose handler also prints _exception itself (second probe [tid, _exception]): the error that is handed over - its
    messages and the stack trace of the moment it was raised - is judged by the deep-stack family"""
    def __init__(self, g, body, handler):
        Except.__init__(self, g, body, handler)
        self.tid = g.new_id()
    def ast(self):
        probe = mark_ast(arr(n_(self.id), un("isNil", ("S", "_exception"))))
        tprobe = mark_ast(arr(n_(self.tid), ("V", "_exception")))
        return [st(bi("except__", code(self.body.ast()), code([probe, tprobe] + self.handler.ast())))]
    def run(self, s):
        s.live += 1
        o = self.body.run(s)
        s.live -= 1
        if o == NORMAL or o == EXIT: return NORMAL
        s.out.append("[%d,false]" % self.id)
        s.out.append("[%d,T]" % self.tid)          # the printed trace is cut out of the observation and judged on its own
        if o[0] == "E": s.traces.append((self.tid, o[1]))
        return self.handler.run(s)


class Try(Node):
    def __init__(self, g, body, handler): self.id, self.body, self.handler = g.new_id(), body, handler
    def blocks(self): return [self.body, self.handler]
    def ast(self):
        probe = mark_ast(arr(n_(self.id), ("V", "_exception")))
        return [st(bi("catch", un("try", code(self.body.ast())), code([probe] + self.handler.ast())))]
    def run(self, s):
        s.live += 1
        o = self.body.run(s)
        s.live -= 1
        if o == EXIT: return NORMAL
        if o[0] != "T": return o                   # a runtime error is not for try-catch
        s.out.append("[%d,%d]" % (self.id, o[1]))
        return self.handler.run(s)


class Throw(Node):
    def __init__(self, g, viaif): self.v, self.viaif = g.new_id(), viaif
    def ast(self):
        self.stmt = st(bi("throw", un("if", ("B", True)), n_(self.v))) if self.viaif else st(un("throw", n_(self.v)))
        return [self.stmt]
    def run(self, s): return ("T", self.v) if s.live > 0 else ("E", self)


class Spawn(Node):
    def __init__(self, body): self.body = body
    def blocks(self): return [self.body]
    def ast(self): return [st(bi("spawn", arr(), code(self.body.ast())))]
    def run(self, s): s.prog.spawned.append(self.body); return NORMAL


REC_STYLES = {"then": 2, "else": 2, "foreach": 3, "count": 3, "direct": 3}     # style -> frames per level (an estimate, only used to aim)


class Recurse(Node):
    """fn = { pre; <if _this > 0: (_this - 1) call fn, else: body>; post }; n call fn - the body runs n calls of a recursive function
    down (the stack grows with n, the text does not). With guard the function's whole code is the block of an except__ whose
    handler prints the probes: n + 1 handlers are live when the body runs, the innermost one has to take an error of the body"""
    def __init__(self, g, n, body, style, local, pre, post, handler=None):
        self.n, self.body, self.style, self.use_pre, self.use_post, self.handler = n, body, style, pre, post, handler
        self.fn = ("_fz%d" if local else "fz%d") % g.new_id()
        self.local = local
        self.m1, self.m2 = Mark(g), Mark(g)
        self.id, self.tid = g.new_id(), g.new_id()
    def blocks(self): return [self.body] + ([self.handler] if self.handler else [])
    def ast(self):
        this, fn, k = ("V", "_this"), ("V", self.fn), self.style
        down = st(bi("call", bi("-", this, n_(1)), fn))
        b = self.body.ast()
        pos = un("if", bi(">", this, n_(0)))
        if k == "then": step = st(bi("then", pos, bi("else", code([down]), code(b))))
        elif k == "else": step = st(bi("then", un("if", bi("<=", this, n_(0))), bi("else", code(b), code([down]))))
        elif k == "foreach": step = st(bi("then", pos, bi("else", code([st(bi("forEach", code([st(bi("call", ("V", "_x"), fn))]), arr(bi("-", this, n_(1)))))]), code(b))))
        elif k == "count": step = st(bi("then", pos, bi("else", code([st(bi("count", code([st(bi("call", ("V", "_x"), fn)), st(("B", True))]), arr(bi("-", this, n_(1)))))]), code(b))))
        elif k == "direct": step = st(bi("then", pos, bi("else", code([st(un("call", code([down])))]), code(b))))
        else: raise ValueError(k)
        inner = (self.m1.ast() if self.use_pre else []) + [step] + (self.m2.ast() if self.use_post else [])
        if self.handler is not None:
            probe = mark_ast(arr(n_(self.id), un("isNil", ("S", "_exception"))))
            tprobe = mark_ast(arr(n_(self.tid), ("V", "_exception")))
            inner = [st(bi("except__", code(inner), code([probe, tprobe] + self.handler.ast())))]
        return [("L" if self.local else "=", self.fn, code(inner)), st(bi("call", n_(self.n), fn))]
    def run(self, s):
        if self.use_pre:
            for _ in range(self.n + 1): self.m1.run(s)
        if self.handler is not None: s.live += 1
        o = self.body.run(s)
        if self.handler is not None:
            s.live -= 1
            if o != NORMAL:
                # the handler of the innermost call takes over (once); its call then ends like any other
                s.out.append("[%d,false]" % self.id)
                s.out.append("[%d,T]" % self.tid)
                if o[0] == "E": s.traces.append((self.tid, o[1]))
                o = self.handler.run(s)
                if o != NORMAL: return o
                if self.use_post:
                    for _ in range(self.n): self.m2.run(s)      # the post marker of the innermost call is inside the block that was left
                return NORMAL
        if o != NORMAL: return o
        if self.use_post:
            for _ in range(self.n + 1): self.m2.run(s)
        return NORMAL


class Loop(Node):
    """a run that does not end by itself (for the time-limit histories)"""
    def __init__(self, g, scheduled): self.scheduled = scheduled
    def ast(self):
        loop = st(bi("do", un("while", code([st(("B", True))])), code([])))
        return [st(bi("spawn", arr(), code([loop])))] if self.scheduled else [loop]
    def run(self, s):
        s.prog.loops = True
        return NORMAL if self.scheduled else ("L",)


FAULTS = ["select", "plus", "call5", "sleep", "count", "countlast", "while", "whileempty", "selectcode", "findif",
          "scopename", "breakout"]
WARNS = ["warn_select", "warn_undef", "warn_count", "warn_for", "warn_nilarg", "warn_countnoval"]


class Fault(Node):
    """a statement that raises an error-level diagnostic (possibly after running some markers of its own)"""
    def __init__(self, g, kind):
        self.kind, self.m1, self.m2 = kind, Mark(g), Mark(g)
    def ast(self):
        k, m1, m2 = self.kind, self.m1.ast(), self.m2.ast()
        if k == "select": e = bi("select", arr(n_(1), n_(2)), n_(9))
        elif k == "plus": e = bi("+", n_(1), ("S", "a"))
        elif k == "call5": e = un("call", n_(5))
        elif k == "sleep": e = un("sleep", n_(1))
        elif k == "count": e = bi("count", code(m1 + [st(n_(5))]), arr(n_(1), n_(2)))
        elif k == "countlast": e = bi("count", code(m1 + [st(("V", "_x"))]), arr(("B", True), n_(5)))
        elif k == "while": e = bi("do", un("while", code(m1 + [st(("S", "x"))])), code(m2))
        elif k == "whileempty": e = bi("do", un("while", code([])), code(m2))
        elif k == "selectcode": e = bi("select", arr(n_(1), n_(2)), code(m1 + [st(n_(3))]))
        elif k == "findif": e = bi("findIf", arr(n_(1), n_(2)), code(m1 + [st(n_(3))]))
        elif k == "scopename": e = un("call", code([st(un("scopeName", ("S", "a")))] + m1 + [st(un("scopeName", ("S", "b")))] + m2))
        elif k == "breakout": e = un("breakOut", ("S", "nosuchscope"))
        elif k == "waituntil": e = un("waitUntil", code(m1 + [st(n_(5))]))
        else: raise ValueError(k)
        self.stmt = st(e)
        return [self.stmt]
    def run(self, s):
        k = self.kind
        if k in ("count", "while", "selectcode", "findif", "scopename", "waituntil"): self.m1.run(s)
        if k == "countlast": self.m1.run(s); self.m1.run(s)
        return ("E", self)


class Warn(Node):
    """look-alikes that only raise warnings: execution goes on and the run is not a failure"""
    def __init__(self, g, kind): self.kind, self.m1 = kind, Mark(g)
    def ast(self):
        k, m1 = self.kind, self.m1.ast()
        if k == "warn_select": return [st(bi("select", arr(n_(1), n_(2)), n_(2)))]
        if k == "warn_undef": return [st(("V", "_nosuchvar"))]
        if k == "warn_count": return [st(bi("count", code(m1 + [st(("V", "_nosuchvar"))]), arr(n_(1))))]
        if k == "warn_for": return [st(bi("do", bi("to", bi("from", un("for", ("S", "_i")), n_(0)), n_(1)), code(m1 + [("=", "_i", ("S", "x"))])))]
        if k == "warn_nilarg": return [st(un("diag_log", ("V", "_nosuchvar")))]
        # a body that ends in an assignment yields nil in every round (repair C05 exit-behaviour-no-value): a warning per round, no error
        if k == "warn_countnoval": return [st(bi("count", code(m1 + [("=", "gz", n_(1))]), arr(n_(1), n_(2))))]
        raise ValueError(k)
    def run(self, s):
        if self.kind in ("warn_count", "warn_for"): self.m1.run(s)
        if self.kind == "warn_countnoval": self.m1.run(s); self.m1.run(s)
        return NORMAL


class Program:
    def __init__(self, main):
        self.main, self.spawned, self.loops = main, [], False


class Gen:
    def __init__(self, rng):
        self.rng, self.mid, self.clock_runs = rng, 0, False

    def new_id(self):
        self.mid += 1
        return self.mid

    def seq(self, depth, role, top=False, loopvars=(), maxlen=3):
        r = self.rng
        nodes = []
        for _ in range(r.randint(1, maxlen)):
            nodes.append(self.node(depth, top, loopvars))
        return Seq(nodes, role)

    def node(self, depth, top, loopvars):
        r = self.rng
        k = r.random()
        if depth <= 0 or k < 0.35:
            return Mark(self)
        d = depth - 1
        if k < 0.40:
            return Warn(self, r.choice(WARNS))
        if k < 0.62:
            kind = r.choice(["call", "ifthen", "ifelse", "foreach", "for", "count", "apply", "isnil", "while", "switch", "with", "and", "or"])
            n = r.randint(1, 3) if kind in ("foreach", "for", "count", "apply", "while") else 1
            lv = dict(loopvars)
            if kind in ("foreach", "count", "apply"): lv["_x"] = n
            if kind == "for": lv["_i"] = n
            return Wrap(self, kind, self.seq(d, kind, False, tuple(sorted(lv.items()))), n)
        if k < 0.68 and loopvars:
            var, n = r.choice(list(loopvars))
            return IfX(var, r.randint(1, n), self.seq(d, "ifx", False, loopvars))
        if k < 0.72:
            return CallExit(self, self.seq(d, "call", False, loopvars, 2), self.seq(d, "exitwith", False, loopvars, 2))
        if k < 0.84:
            return Except(self, self.guarded(d, "except.body", loopvars), self.seq(d, "except.handler", False, loopvars))
        if k < 0.94:
            return Try(self, self.guarded(d, "try.body", loopvars), self.seq(d, "catch.handler", False, loopvars))
        if top:
            return Spawn(self.seq(d, "spawn", True, ()))
        return Mark(self)

    def guarded(self, d, role, loopvars):
        """the block of except__ / try; sometimes it ends in a guard clause (exitWith in the block's own scope)"""
        b = self.seq(d, role, False, loopvars)
        if self.rng.random() < 0.3:
            b.nodes.append(GuardExit(self, self.seq(d, "guard", False, loopvars, 2)))
        return b

    def all_seqs(self, seq, path, out, scheduled):
        p = path + "/" + seq.role
        out.append((seq, p, scheduled))
        for n in seq.nodes:
            for b in n.blocks():
                self.all_seqs(b, p, out, scheduled or isinstance(n, Spawn))
        return out

    def program(self, depth=3, nfault=1, spawn_first=False, where=None, top=True):
        r = self.rng
        main = self.seq(depth, "main", top, (), 4)
        if spawn_first:
            # two spawned scripts, the first one gets the fault
            a = self.seq(depth - 1, "spawn", True, ())
            b = self.seq(depth - 1, "spawn", True, ())
            main.nodes = [Spawn(a), Spawn(b)] + main.nodes
        kinds = []
        for i in range(nfault):
            seqs = self.all_seqs(main, "", [], False)
            if spawn_first and i == 0:
                seqs = self.all_seqs(main.nodes[0].body, "/main", [], True)
            inside = [x for x in seqs if "except.body" in x[1] or "try.body" in x[1]]
            if inside and r.random() < 0.4:
                seqs = inside          # more errors that a handler has to deal with
            seq, path, scheduled = r.choice(seqs)
            pos = len(seq.nodes) if (where == "last" or r.random() < 0.35) else r.randint(0, len(seq.nodes))
            if r.random() < 0.22:
                node, kind = Throw(self, r.random() < 0.3), "throw"
            else:
                kind = r.choice([f for f in FAULTS + (["waituntil"] * 4 if self.clock_runs else []) if not (f == "sleep" and scheduled)])
                node = Fault(self, kind)
            seq.nodes.insert(pos, node)
            kinds.append("%s@%s%s" % (kind, path, ":last" if pos == len(seq.nodes) - 1 else ""))
        return Program(main), kinds


def evaluate(prog):
    """abstract execution of every script of the program: expected markers, outcome, candidate fault statements"""
    stmts = prog.main.ast()
    pr = Printer()
    text = pr.block(stmts, 0)
    scripts, queue, k = [], [(prog.main, False)], 0
    while k < len(queue):
        body, scheduled = queue[k]
        s = RunState(prog, k, scheduled)
        n0 = len(prog.spawned)
        o = body.run(s)
        for b in prog.spawned[n0:]:
            queue.append((b, True))
        ids = set()
        collect_ids(body, ids)
        sc = {"markers": s.out, "outcome": "ok", "ids": sorted(ids), "span": None}
        if s.traces:
            sc["handled"] = [[tid, list(pr.spans[id(f.stmt)]), getattr(f, "kind", "throw")] for tid, f in s.traces]
        tids = set()
        collect_ids(body, tids, ("tid",))
        if tids:
            sc["tids"] = sorted(tids)
        if o[0] == "E":
            sc["outcome"] = "err"
            sc["span"] = list(pr.spans[id(o[1].stmt)])
            sc["fault"] = getattr(o[1], "kind", "throw")
        elif o[0] == "L":
            sc["outcome"] = "loop"
        scripts.append(sc)
        k += 1
    return {"tokens": tok_prog(stmts), "text": text, "scripts": scripts, "loops": prog.loops}


def collect_ids(node, ids, attrs=("id", "v", "tid")):
    if isinstance(node, Seq):
        for n in node.nodes: collect_ids(n, ids, attrs)
        return
    for attr in attrs:
        if hasattr(node, attr): ids.add(getattr(node, attr))
    if "id" in attrs:
        for attr in ("m1", "m2", "dead"):
            if hasattr(node, attr): ids.add(getattr(node, attr).id)
    if isinstance(node, Spawn):
        return                      # markers of the spawned body belong to the new script
    for b in node.blocks(): collect_ids(b, ids, attrs)


# ---------------------------------------------------------------- observations and the oracle
EV = re.compile(r"(\d+):(\d+),|M<(.*?)>,")


def parse_obs(obs):
    """'result:state:events[:abortresult:state]' -> dict or None"""
    m = re.match(r"^(-?\d+):(\d+):(.*)$", obs)
    if not m: return None
    rest = m.group(3)
    ab = re.search(r":(-?\d+):(\d+)$", rest)
    abort = None
    if ab and (rest[:ab.start()] == "" or rest[:ab.start()].endswith(",")):
        abort = (int(ab.group(1)), int(ab.group(2)))
        rest = rest[:ab.start()]
    evs, pos = [], 0
    for x in EV.finditer(rest):
        if x.start() != pos: return None
        pos = x.end()
        evs.append(("D", int(x.group(1)), int(x.group(2))) if x.group(3) is None else ("M", x.group(3)))
    if pos != len(rest): return None
    return {"result": int(m.group(1)), "state": int(m.group(2)), "events": evs, "abort": abort}


def canon(obs):
    """the printed value of a finished script is not C04's business (and a script handle has no model text)"""
    return re.sub(r"M<VALUE .*?>,", "M<VALUE>,", obs)


def marker_id(text):
    m = re.match(r"^\[?(\d+)", text)
    return int(m.group(1)) if m else None


def oracle(exp, obs, locs=None):
    """the property on one run; returns a list of complaints (empty = satisfied)"""
    o = parse_obs(obs)
    if o is None:
        return ["the run did not produce an observation: " + obs[:80]]
    bad = []
    owner = {}
    for k, sc in enumerate(exp["scripts"]):
        for i in sc["ids"]: owner[i] = k
    proj = [[] for _ in exp["scripts"]]
    evs = [e for e in o["events"] if not (e[0] == "M" and e[1].startswith("VALUE")) and not (e[0] == "D" and e[2] == 60095)]
    for e in evs:
        if e[0] == "M":
            i = marker_id(e[1])
            if i not in owner:
                bad.append("a marker ran that no script of this program owns: " + e[1])
            else:
                proj[owner[i]].append(e[1])
    for k, sc in enumerate(exp["scripts"]):
        if proj[k] != sc["markers"][:len(proj[k])]:
            j = next((j for j, (a, b) in enumerate(zip(proj[k], sc["markers"])) if a != b), min(len(proj[k]), len(sc["markers"])))
            bad.append("script %d: statements ran in an order the property forbids: marker #%d is %s, expected %s (expected sequence %s, got %s)"
                       % (k, j, proj[k][j] if j < len(proj[k]) else "<none>", sc["markers"][j] if j < len(sc["markers"]) else "<nothing: no later statement may run>",
                          ",".join(sc["markers"]), ",".join(proj[k])))
    nst = sum(1 for e in evs if e[0] == "D" and e[2] == 60001)
    ntl = sum(1 for e in evs if e[0] == "D" and e[2] == 60002)
    failing = [k for k, sc in enumerate(exp["scripts"]) if sc["outcome"] == "err"]
    if exp.get("loops"):
        # a run that never ends under max_runtime: reported as failed by the time-limit diagnostic
        if o["result"] != 2: bad.append("a run cut off by max_runtime returned %d, not runtime_error" % o["result"])
        if ntl != 1 or not evs or evs[-1] != ("D", 0, 60002): bad.append("the time-limit diagnostic is not the last event of the cut-off run")
        if nst: bad.append("a stack trace in a run that raised no error")
        if proj[0] != exp["scripts"][0]["markers"]: bad.append("the main script did not get as far as expected before the cut-off: %s" % proj[0])
        return bad
    if not failing:
        if o["result"] == 2 or o["state"] == 3 or nst or ntl:
            bad.append("no statement of this run raises an unhandled error, yet it is reported as failed (result %d, state %d, %d stack trace(s))"
                       % (o["result"], o["state"], nst))
        elif o["result"] != -1:
            bad.append("a run that completes returned %d instead of empty" % o["result"])
        for k, sc in enumerate(exp["scripts"]):
            if proj[k] != sc["markers"]:
                bad.append("script %d did not run to completion: got %s of %s" % (k, ",".join(proj[k]), ",".join(sc["markers"])))
        return bad
    # some script raises an error no handler takes: the run ends and is reported as failed
    if o["result"] != 2:
        bad.append("a runtime error without a handler, but execute returned %d (not runtime_error)" % o["result"])
    if o["state"] != 3:
        bad.append("a runtime error without a handler, but the runtime state is %d (not halted_error)" % o["state"])
    if nst != 1:
        bad.append("%d stack-trace diagnostics for one failed run" % nst)
    elif evs[-1] != ("D", 0, 60001):
        bad.append("something ran or was logged after the fatal stack trace: " + str(evs[-1]))
    elif len(evs) < 2 or evs[-2][0] != "D" or evs[-2][1] > 1:
        bad.append("the stack trace does not directly follow an error-level diagnostic")
    done = [k for k in failing if proj[k] == exp["scripts"][k]["markers"]]
    if not done:
        bad.append("the run failed, but no faulting script got as far as its fault (markers %s)" % proj)
    if locs is not None and nst == 1:
        m = re.search(r"60001@(\d+)\.(\d+)", locs)
        if not m:
            bad.append("the stack-trace diagnostic carries no source location")
        else:
            col = int(m.group(2))
            spans = [exp["scripts"][k]["span"] for k in (done or failing)]
            if not any(a <= col < b for a, b in spans):
                bad.append("the stack trace names column %d, outside the failing statement %s" % (col, spans))
    return bad


# ---------------------------------------------------------------- case construction
def mk_case(gen, kind, **kw):
    prog, kinds = gen.program(**kw)
    ev = evaluate(prog)
    ev["kind"] = kind
    ev["faults"] = kinds
    return ev


def clean_run(gen):
    prog, _ = gen.program(depth=2, nfault=0)
    ev = evaluate(prog)
    ev["kind"], ev["faults"] = "clean", []
    return ev


def loop_run(gen, scheduled):
    main = gen.seq(1, "main", True, (), 2)
    main.nodes.append(Loop(gen, scheduled))
    if scheduled:
        main.nodes.append(Mark(gen))
    prog = Program(main)
    ev = evaluate(prog)
    ev["loops"] = True
    ev["kind"], ev["faults"] = "loop", ["loop-scheduled" if scheduled else "loop-unscheduled"]
    return ev


def run_histories(hh, hd, hists):
    """hists: list of dict(cfg=(max_ms,tick_us,max_loop), runs=[(mode, ev)]) -> adds model/impl observations"""
    mlines = []
    for h in hists:
        ms, tick, ml = h["cfg"]
        mlines.append("%s;%d;%d;%d;%d\t%s" % ("", ms * 1000, tick, ml, 150, "\t".join("%s %s" % (m, ev["tokens"]) for m, ev in h["runs"])))
    rc, mout, err = V.run_lines_parallel([hd], mlines, timeout=3000)
    ilines = []
    for h, mo in zip(hists, mout):
        f = mo.split("\t")
        ms, tick, ml = h["cfg"]
        if len(f) != 2:
            h["m_raw"], h["m_obs"], texts = mo, None, [V.hx(ev["text"].encode("latin-1")) for m, ev in h["runs"]]
        else:
            texts = f[0].split(",")
            h["m_obs"] = f[1].split("|")
        h["texts_ok"] = [V.unhx(t).decode("latin-1") == ev["text"] for t, (m, ev) in zip(texts, h["runs"])]
        ilines.append("%d;%d;%d\t%s" % (ms, tick, ml, "\t".join("%s:%s" % (m, t) for (m, ev), t in zip(h["runs"], texts))))
    rc, iout, err = V.run_lines_parallel([hh], ilines, timeout=3000)
    for h, io in zip(hists, iout):
        f = io.split("\t")
        h["i_raw"] = io
        if len(f) == 2:
            h["i_obs"], h["i_locs"] = f[0].split("|"), f[1].split("|")
        else:
            h["i_obs"], h["i_locs"] = None, None
    return hists


def hist_json(h):
    return {"cfg": list(h["cfg"]), "runs": [[m, {k: ev[k] for k in ("tokens", "text", "scripts", "loops", "kind", "faults")}] for m, ev in h["runs"]]}

# ---------------------------------------------------------------- the real embedders: libsqfvm.so (sqfvm_call) and the sqfvm CLI
def embed_worker(libpath):
    """runs in its own process (python3 checks/C04.py --embed-worker <lib>): one JSON history per stdin line
    {"max_s": float, "codes": [text,...]} -> {"runs": [[rc, status, [[severity, message],...]],...]}"""
    import ctypes
    lib = ctypes.CDLL(libpath)
    CB = ctypes.CFUNCTYPE(None, ctypes.c_void_p, ctypes.c_void_p, ctypes.c_int32, ctypes.POINTER(ctypes.c_char), ctypes.c_uint32)
    msgs = []
    cbo = CB(lambda u, c, sev, m, n: msgs.append([sev, ctypes.string_at(m, n).decode("latin-1")]))
    lib.sqfvm_create_instance.restype = ctypes.c_void_p
    lib.sqfvm_create_instance.argtypes = [ctypes.c_void_p, CB, ctypes.c_float]
    lib.sqfvm_call.restype = ctypes.c_int32
    lib.sqfvm_call.argtypes = [ctypes.c_void_p, ctypes.c_void_p, ctypes.c_char, ctypes.c_char_p, ctypes.c_uint32]
    lib.sqfvm_status.restype = ctypes.c_int32
    lib.sqfvm_status.argtypes = [ctypes.c_void_p]
    lib.sqfvm_destroy_instance.argtypes = [ctypes.c_void_p]
    for line in sys.stdin:
        h = json.loads(line)
        vm = lib.sqfvm_create_instance(None, cbo, h["max_s"])
        runs = []
        for code in h["codes"]:
            del msgs[:]
            b = code.encode("latin-1")
            rc = lib.sqfvm_call(vm, None, b"s", b, len(b))
            runs.append([rc, lib.sqfvm_status(vm), list(msgs)])
        lib.sqfvm_destroy_instance(vm)
        sys.stdout.write(json.dumps({"runs": runs}) + "\n")
        sys.stdout.flush()


def worker_results(lib, inputs):
    """one result per input: the parsed JSON answer of the embed worker, or ("CRASH", exit status) when the library took the
    worker process down on that input (the worker is restarted for the remaining ones)"""
    import subprocess
    res, k = [], 0
    while k < len(inputs):
        pr = subprocess.run([sys.executable, os.path.abspath(__file__), "--embed-worker", lib],
                            input="".join(json.dumps(x) + "\n" for x in inputs[k:]).encode(), stdout=subprocess.PIPE, stderr=subprocess.PIPE, timeout=1800)
        outs = [l for l in pr.stdout.decode("latin-1").split("\n") if l.startswith("{")]
        for l in outs[:len(inputs) - k]:
            res.append(json.loads(l))
        k += len(outs)
        if k < len(inputs):
            res.append(("CRASH", pr.returncode, pr.stderr.decode("latin-1")[-300:]))
            k += 1
    return res


def api_obs(rc, status, msgs, skip_file=None):
    """sqfvm_call's answer in the observation format of the oracle: -6 = failed (Appendix B), 0 = ok; instance ready again"""
    res, stt = ("2", "3") if (rc, status) == (-6, 0) else ("-1", "0") if (rc, status) == (0, 0) else (str(rc), str(status + 10))
    ev, locs = "", ""
    for sev, text in msgs:
        if skip_file is not None and re.match(r"\[L\d+\|C\d+\|" + re.escape(skip_file) + r"\]", text): continue
        if sev < 0 or sev > 3: continue
        m = re.search(r"\[DIAG_LOG\] (.*)$", text, re.S)
        if sev == 3 and m:
            ev += "3:60019,M<%s>," % re.sub(r"[\t\n|]", " ", m.group(1))
        elif "Context dropped with return value" in text:
            ev += "3:60095,M<VALUE>,"
        elif sev == 0 and "Stacktrace:" in text:
            ev += "0:60001,"
            lm = re.match(r"\[L(\d+)\|C(\d+)\|", text)
            locs = "60001@%s.%s" % (lm.group(1), lm.group(2)) if lm else "60001@-"
        elif sev == 0:
            ev += "0:60002,"
        else:
            ev += "%d:0," % sev
    return "%s:%s:%s" % (res, stt, ev), locs


def cli_obs(exe, text):
    """the sqfvm binary on one program (verbose): markers, [FAT] stack trace, and the CLI's closing line"""
    rc, out = V.sh([exe, "-a", "-V", "--no-execute-print", "--suppress-welcome", "--no-spawn-player", "--no-load-executable-dir",
                    "--sqf", text], timeout=60, cwd="/tmp")
    failed = "Runtime Error occured." in out
    done = "Ran to completion." in out
    ev, locs = "", ""
    for line in out.split("\n"):
        m = re.match(r"^\[(INF|WRN|ERR|FAT)\] (.*)$", line)
        if not m: continue
        lvl = {"FAT": 0, "ERR": 1, "WRN": 2, "INF": 3}[m.group(1)]
        d = re.search(r"\[DIAG_LOG\] (.*)$", m.group(2))
        if d: ev += "3:60019,M<%s>," % d.group(1)
        elif "Context dropped with return value" in m.group(2): ev += "3:60095,M<VALUE>,"
        elif lvl == 0 and "Stacktrace:" in m.group(2):
            ev += "0:60001,"
            lm = re.match(r"\[L(\d+)\|C(\d+)\|", m.group(2))
            locs = "60001@%s.%s" % (lm.group(1), lm.group(2)) if lm else "60001@-"
        elif lvl == 0: ev += "0:60002,"
        else: ev += "%d:0," % lvl
    res = ("2", "3") if failed and not done else ("-1", "0") if done and not failed else ("9", "9")
    return "%s:%s:%s" % (res[0], res[1], ev), locs, rc



# ---------------------------------------------------------------- deep stacks: the error is raised far down, the trace has to name it all the same
# "... reported as failed ... together with a stack trace naming the failing statement" / "with the error available in _exception" hold at
# every depth of the stack. The family puts the scenario (a small block with one faulting statement) under recursive functions
# (Recurse), literal nests of the wrapping constructs, loops, handlers near / in the middle / far out, optionally in a spawned script,
# and aims the number of frames at round numbers (powers of two, decimal round numbers) and their neighbours, besides small and
# arbitrary depths. Implementation only: the runs go through sqfvm_call and the CLI, the expectation comes from the abstract interpreter.
DEEP_TARGETS = [16, 32, 50, 64, 100, 128, 200, 250, 255, 256, 257, 300, 500, 512, 1000, 1024, 2000, 2048]
NEST_KINDS = ["call", "ifthen", "ifelse", "foreach", "for", "count", "apply", "isnil", "while", "switch", "with", "and", "or"]
MAX_LITERAL_NEST = 220


def deep_case(gen, rng, target=None):
    r = rng
    if target is None:
        u = r.random()
        if u < 0.2: target = r.randint(2, 40)
        elif u < 0.8: target = r.choice(DEEP_TARGETS) + r.randint(-3, 3)
        else: target = r.randint(41, 2600)
    scheduled = r.random() < 0.2
    kinds = [f for f in FAULTS if not (f == "sleep" and scheduled)]
    fault = Fault(gen, r.choice(kinds))
    cur = gen.seq(1, "deep.bottom", False, (), 2)
    cur.nodes.insert(len(cur.nodes) if r.random() < 0.35 else r.randint(0, len(cur.nodes)), fault)
    plan = [fault.kind]
    hslot = r.choice(["none", "none", "near", "mid", "far", "every"])

    def layer(node, after=()):
        nodes = ([Mark(gen)] if r.random() < 0.4 else []) + [node] + ([Mark(gen)] if r.random() < 0.6 else []) + list(after)
        return Seq(nodes, "deep.layer")

    def handled(body):
        h = Seq([Mark(gen) for _ in range(r.randint(1, 2))], "except.handler")
        after = []
        if r.random() < 0.4:            # a second error after the handler construct, at the depth of the handler: nobody takes that one
            f2 = Fault(gen, r.choice(kinds))
            after = [f2] + ([Mark(gen)] if r.random() < 0.5 else [])
            plan.append("then-" + f2.kind)
        plan.append("handler")
        return layer(ExceptT(gen, body, h), after)

    nseg = r.randint(1, 3)
    # the layers are decided first, then the frames that remain after their fixed cost (an estimate: script, function entry, loop and
    # handler frames) are shared out among the segments; the jitter of the targets covers what the estimate misses
    segs = []
    for i in range(nseg):
        segs.append({"nest": r.random() < 0.4, "style": r.choice(sorted(REC_STYLES)), "guard": hslot == "every" and i == 0,
                     "loop": r.choice(["foreach", "for", "count", "apply", "while"]) if r.random() < 0.2 else None,
                     "handler": (hslot == "near" and i == 0) or (hslot == "mid" and i == 1)})
    fixed = 3 + sum((0 if g_["nest"] else 1) + (1 if g_["loop"] else 0) + (1 if g_["handler"] else 0) for g_ in segs) + (1 if hslot == "far" else 0)
    room = max(nseg, target - fixed)
    cuts = sorted(r.randint(0, room) for _ in range(nseg - 1))
    shares = [b - a for a, b in zip([0] + cuts, cuts + [room])]
    nest_left = MAX_LITERAL_NEST
    for g_, share in zip(segs, shares):
        if g_["handler"]:
            cur = handled(cur)
        if g_["nest"] and share <= nest_left:
            palette = r.choice([[r.choice(NEST_KINDS)], NEST_KINDS, ["call", "ifthen"]])
            for _ in range(share):
                cur = Seq([Wrap(gen, r.choice(palette), cur, 1)] + ([Mark(gen)] if r.random() < 0.05 else []), "deep.nest")
            nest_left -= share
            plan.append("nest%d" % share)
        else:
            per = REC_STYLES[g_["style"]] + (1 if g_["guard"] else 0)
            n = max(1, (share + r.randint(0, per - 1)) // per)
            h = Seq([Mark(gen)], "except.handler") if g_["guard"] else None
            cur = layer(Recurse(gen, n, cur, g_["style"], r.random() < 0.5, r.random() < 0.3, r.random() < 0.4, h))
            plan.append("rec-%s%s%d" % (g_["style"], "-guarded" if g_["guard"] else "", n))
        if g_["loop"]:
            cur = layer(Wrap(gen, g_["loop"], cur, r.randint(1, 3)))
            plan.append("loop-" + g_["loop"])
    if hslot == "far" or (hslot == "mid" and nseg == 1):
        cur = handled(cur)
    if scheduled:
        cur = Seq([Mark(gen), Spawn(cur), Mark(gen)], "main")
        plan.append("spawned")
    cur.role = "main" if not scheduled else cur.role
    ev = evaluate(Program(cur))
    ev["kind"], ev["faults"] = "deep-stack", [" ".join(plan)]
    ev["aim"] = target
    return ev


TRACE_ENTRY = re.compile(r"<\s*(\d+) of (\d+)> \[L(\d+)\|C(\d+)\|[^\]\n]*\]")


def cut_traces(ev, msgs):
    """the messages of one run -> (messages in which every printed _exception [tid,<trace>] is abbreviated to [tid,T],
    [(tid, printed text, text of the last error-level diagnostic before it)], text of the fatal stack-trace diagnostic or None)"""
    tids = set(t for sc in ev["scripts"] for t in sc.get("tids", []))
    out, traces, fatal, lasterr = [], [], None, None
    for sev, text in msgs:
        m = re.search(r"\[DIAG_LOG\] \[(\d+),(.*)\]\s*$", text, re.S) if sev == 3 else None
        if m and int(m.group(1)) in tids:
            traces.append((int(m.group(1)), m.group(2), lasterr))
            text = text[:m.start()] + "[DIAG_LOG] [%s,T]" % m.group(1)
        elif sev == 0 and "Stacktrace:" in text:
            fatal = text
        elif sev == 1:
            lasterr = text
        out.append([sev, text])
    return out, traces, fatal


def trace_complaints(what, printed, span, textlen):
    """a printed stack trace against the statement that raised the error (span = its columns in the one-line program text)"""
    es = [tuple(int(x) for x in e) for e in TRACE_ENTRY.findall(printed)]
    if not es:
        return ["%s lists no frame at all" % what], 0
    bad, n = [], es[0][1]
    if [e[0] for e in es] != list(range(1, len(es) + 1)) or any(e[1] != n for e in es) or len(es) != n:
        bad.append("%s numbers its entries inconsistently (%d entries, first says 'of %d')" % (what, len(es), n))
    if any(e[2] != 1 or e[3] >= textlen for e in es):
        bad.append("%s has an entry that points outside the program text" % what)
    a, b = span
    if not (es[0][2] == 1 and a <= es[0][3] < b):
        bad.append("%s does not name the failing statement: its innermost entry <1 of %d> is at column %d, the statement that raised the error "
                   "spans columns [%d,%d); %d of the %d entries lie inside that statement" % (what, n, es[0][3], a, b, sum(1 for e in es if a <= e[3] < b), len(es)))
    return bad, len(es)


def deep_oracle(ev, rc, status, msgs, depths):
    """the whole property on one deep run: the run-level oracle (markers, take-over, failed / not failed, trace last) and the traces"""
    msgs2, traces, fatal = cut_traces(ev, msgs)
    obs, locs = api_obs(rc, status, msgs2)
    bad = oracle(ev, obs, locs or None)
    L = len(ev["text"])
    want = [hd for sc in ev["scripts"] for hd in sc.get("handled", [])]
    if len(traces) != len(want) and not bad:
        bad.append("%d handlers printed _exception, %d errors are handed to such a handler" % (len(traces), len(want)))
    for (tid, printed, lasterr), (wtid, span, kind) in zip(traces, want):
        what = "_exception in the handler (probe %d) of the error of the '%s' statement" % (tid, kind)
        if tid != wtid:
            bad.append("handler probe %d printed _exception where probe %d is due" % (tid, wtid))
            continue
        if lasterr is None or (lasterr not in printed and lasterr not in printed.replace('""', '"')):
            bad.append("%s does not hold the error that was raised (%s)" % (what, repr(lasterr)[:120]))
        c, n = trace_complaints("the stack trace of " + what, printed, span, L)
        depths.append(n)
        bad += c
    failing = [sc for sc in ev["scripts"] if sc["outcome"] == "err"]
    if failing and fatal is not None:
        cs = [trace_complaints("the stack trace reported with the failed run", fatal, sc["span"], L) for sc in failing]
        depths.append(cs[0][1])
        if all(c for c, n in cs):
            bad += cs[0][0]
    return bad, obs


def cli_msgs(exe, text):
    """the sqfvm binary on one program -> (sqfvm_call-like result, status, [[severity, message text incl. continuation lines]], exit code)"""
    rc, out = V.sh([exe, "-a", "-V", "--no-execute-print", "--suppress-welcome", "--no-spawn-player", "--no-load-executable-dir",
                    "--sqf", text], timeout=120, cwd="/tmp")
    failed, done = "Runtime Error occured." in out, "Ran to completion." in out
    msgs = []
    for line in out.split("\n"):
        m = re.match(r"^\[(INF|WRN|ERR|FAT)\] (.*)$", line)
        if m:
            msgs.append([{"FAT": 0, "ERR": 1, "WRN": 2, "INF": 3}[m.group(1)], m.group(2)])
        elif msgs and line not in ("Runtime Error occured.", "Ran to completion."):
            msgs[-1][1] += "\n" + line
    for m in msgs:
        m[1] = m[1].rstrip("\n") if m[0] != 0 else m[1]
    res = (-6, 0) if failed and not done else (0, 0) if done and not failed else (9, 9)
    return res[0], res[1], msgs, rc


def main(replay=None):
    run = V.Run(PID, "proof")
    rng = run.rng
    thorough = run.tier == "thorough"
    problems = run.prove()
    himpl, drv = VM.build(thorough)
    hh = V.build_harness("h_vmhist", "asan" if thorough else "plain")
    hd = V.ocaml_driver("vmhist")
    gen = Gen(rng)

    hists = []
    replay_embedder = None
    if replay:
        r = json.load(open(replay))["replay"]
        if r.get("origin") in ("sqfvm_call", "eval", "cli", "deep-call", "deep-cli"):
            replay_embedder = (r["origin"], r["case"])
        else:
            hists.append({"cfg": tuple(r["case"]["cfg"]), "runs": [(m, ev) for m, ev in r["case"]["runs"]], "origin": "replay"})
    else:
        cdir = os.path.join(V.VERIF, "corpus", PID)
        if os.path.isdir(cdir):
            for fn in sorted(os.listdir(cdir)):
                c = json.load(open(os.path.join(cdir, fn)))
                hists.append({"cfg": tuple(c["cfg"]), "runs": [(m, ev) for m, ev in c["runs"]], "origin": "corpus:" + fn})
        scale = 10 if thorough else 1
        # 1. single programs, one fault (or throw) at a random position
        for i in range(900 * scale):
            hists.append({"cfg": (0, 0, 10000), "runs": [("a", mk_case(gen, "one-fault", depth=rng.choice([2, 3, 3]), nfault=1))], "origin": "program"})
        for i in range(150 * scale):
            hists.append({"cfg": (0, 0, 10000), "runs": [("a", mk_case(gen, "fault-last", depth=rng.choice([1, 2, 3]), nfault=1, where="last"))], "origin": "program"})
        # two faults: error inside a handler, nested handlers, error after a handled one
        for i in range(300 * scale):
            hists.append({"cfg": (0, 0, 10000), "runs": [("a", mk_case(gen, "two-faults", depth=3, nfault=rng.choice([2, 2, 3])))], "origin": "program"})
        # two spawned scripts, the first one faulting
        for i in range(150 * scale):
            hists.append({"cfg": (0, 0, 10000), "runs": [("a", mk_case(gen, "spawn-first-faults", depth=2, nfault=1, spawn_first=True))], "origin": "program"})
        # no fault at all (warnings only): never reported as failed
        for i in range(150 * scale):
            hists.append({"cfg": (0, 0, 10000), "runs": [("a", clean_run(gen))], "origin": "program"})
        # a ticking clock (1 ms per query): waitUntil with a non-boolean condition raises the error AND suspends the script
        gen.clock_runs = True
        for i in range(150 * scale):
            hists.append({"cfg": (0, 1000, 10000), "runs": [("a", mk_case(gen, "one-fault-clock", depth=rng.choice([2, 3]), nfault=rng.choice([1, 2])))], "origin": "program-clock"})
        gen.clock_runs = False
        # 2. histories of 2..4 runs on one instance
        for i in range(350 * scale):
            n = rng.randint(2, 4)
            runs = []
            for j in range(n):
                ev = clean_run(gen) if rng.random() < 0.45 else mk_case(gen, "one-fault", depth=2, nfault=rng.choice([1, 1, 2]), where=rng.choice([None, "last"]))
                # 'k' (the embedder does not abort) only after runs that are expected to complete: resuming a failed
                # run without abort is the debugger's business, not a new run (see C04.meta.json)
                failing = any(sc["outcome"] != "ok" for sc in ev["scripts"])
                runs.append((rng.choice(["a", "a", "a", "c"] + ([] if failing else ["k", "k"])), ev))
            hists.append({"cfg": (0, 0, 10000), "runs": runs, "origin": "history"})
        # ... with max_runtime and a run that never ends in the middle
        for i in range(80 * scale):
            n = rng.randint(2, 4)
            at = rng.randint(0, n - 1)
            runs = []
            for j in range(n):
                if j == at: ev = loop_run(gen, rng.random() < 0.5)
                elif rng.random() < 0.5: ev = clean_run(gen)
                else: ev = mk_case(gen, "one-fault", depth=2, nfault=1, where=rng.choice([None, "last"]))
                runs.append((rng.choice(["a", "a", "c"]), ev))
            hists.append({"cfg": rng.choice([(100, 10, 0), (200, 20, 0)]), "runs": runs, "origin": "history-timelimit"})

    run_histories(hh, hd, hists)

    # step-level correspondence of the single programs through the shared engine
    singles, res = [], []
    for tick in (0, 1000):
        part = [h for h in hists if len(h["runs"]) == 1 and h["cfg"][0] == 0 and h["cfg"][1] == tick]
        if part:
            singles += part
            res += VM.run_programs(himpl, drv, [h["runs"][0][1]["tokens"] for h in part], tick_us=tick, max_loop=10000)

    dist, classes, samples = {}, {}, []
    nviol = [0]
    evaluations = 0
    nontrivial = set()
    unsupported = 0

    def viol(what, h, extra, found=True):
        nviol[0] += 1
        rep = {"case": hist_json(h), "origin": h["origin"]}
        rep.update(extra)
        run.violation(what, rep, found_input=found)

    for h in hists:
        dist[h["origin"].split(":")[0]] = dist.get(h["origin"].split(":")[0], 0) + 1
        keep_only = all(m != "k" for m, ev in h["runs"])
        if h.get("m_obs") is None or h.get("i_obs") is None or len(h["i_obs"]) != len(h["runs"]):
            raw = h.get("i_raw", "")
            if h.get("m_obs") is not None and (raw.startswith(("CRASH", "TIMEOUT", "OOM", "EXCEPTION", "EXIT")) or raw == "HARNESS-LOST"):
                viol("the runtime did not survive this history of runs: " + raw[:60], h,
                     {"impl": raw, "model": h.get("m_obs"), "texts": [ev["text"] for m, ev in h["runs"]]})
            else:
                viol("history could not be run (model: %s / implementation: %s)" % (str(h.get("m_raw", ""))[:80], raw[:80]), h,
                     {"broken": "correspondence harness h_vmhist / vmhist_driver"}, found=False)
            continue
        if not all(h["texts_ok"]):
            viol("the check's printer and VmExec.print_block disagree on the program text (machinery)", h, {"broken": "checks/C04.py Printer"}, found=False)
            continue
        for j, (m, ev) in enumerate(h["runs"]):
            evaluations += 1
            for f in ev["faults"]:
                classes[re.sub(r"\d+", "", f)] = classes.get(re.sub(r"\d+", "", f), 0) + 1
            nontrivial.add(ev["tokens"])
            mo = h["m_obs"][j] if j < len(h["m_obs"]) else "<missing>"
            io = h["i_obs"][j]
            model_outside = mo.startswith(("UNSUPPORTED", "HANG", "UB", "<missing>"))
            if model_outside:
                unsupported += 1
            # the oracle applies to runs that start on an empty runtime, i.e. when no earlier run was left un-aborted
            judged = all(mm != "k" for mm, _ in h["runs"][:j])
            if judged:
                bad_i = oracle(ev, io, h["i_locs"][j])
                if bad_i:
                    viol("run %d of %d: %s" % (j + 1, len(h["runs"]), bad_i[0]), h,
                         {"run": j, "complaints": bad_i, "impl": io, "model": mo, "text": ev["text"], "locs": h["i_locs"][j]})
                    break
                if not model_outside:
                    bad_m = oracle(ev, mo)
                    if bad_m:
                        viol("run %d: the MODEL does not meet the property's oracle: %s" % (j + 1, bad_m[0]), h,
                             {"run": j, "complaints": bad_m, "impl": io, "model": mo, "text": ev["text"],
                              "broken": "VM model vs property oracle (theorems C04_* speak about this model)"}, found=False)
                        break
            if not model_outside and canon(mo) != canon(io):
                viol("run %d: implementation and model disagree (oracle satisfied)" % (j + 1), h,
                     {"run": j, "impl": io, "model": mo, "text": ev["text"],
                      "broken": "correspondence VmDefs.do_iter/on_error/handle_error, VmExec.execute/begin_run_if_empty vs runtime.cpp"}, found=False)
                break
            if model_outside:
                break
        if len(samples) < 8 and h["origin"] not in [s["origin"] for s in samples]:
            samples.append({"origin": h["origin"], "cfg": list(h["cfg"]), "texts": [ev["text"][:300] for m, ev in h["runs"]],
                            "modes": [m for m, ev in h["runs"]], "impl": h["i_obs"], "model": h["m_obs"],
                            "expected": [[sc["markers"], sc["outcome"]] for sc in h["runs"][0][1]["scripts"]]})

    nstep = 0
    for h, d in zip(singles, res):
        if d.get("text") is None:
            continue
        if d["m_final"].startswith(("UNSUPPORTED", "HANG", "UB")) or "UNSUPPORTED" in d["m_trace"]:
            continue
        nstep += 1
        for what, a, b in (("instruction listing", d["m_listing"], d["i_listing"]), ("assembly_step trace", d["m_trace"], d["i_trace"]),
                           ("final observation", canon(d["m_final"]), canon(d["i_final"]))):
            if a != b:
                fd = VM.first_diff(a, b) if what == "assembly_step trace" else None
                viol("single program: %s of implementation and model differ" % what, h,
                     {"text": d["text"], "model": a[-600:], "impl": b[-600:], "first_diff": fd,
                      "broken": "step-level correspondence VmDefs.do_iter vs runtime.cpp execute_do"}, found=False)
                break

    # ---- the embedders themselves: sqfvm_call on one instance (src/export/sqfvm.cpp) and the CLI (src/cli/cli.cpp)
    n_api = n_cli = 0
    cli_exit_codes = {}
    api_h, eval_cases, cli_cases = [], [], []
    if replay_embedder:
        o, case = replay_embedder
        evs = [ev for m, ev in case["runs"]]
        if o == "sqfvm_call": api_h.append((case["cfg"][0] / 1000.0, evs))
        elif o == "eval": eval_cases += evs
        elif o == "cli": cli_cases += evs
    if not replay:
        for i in range(400 if thorough else 60):
            n = rng.randint(1, 4)
            evs = [clean_run(gen) if rng.random() < 0.4 else mk_case(gen, "one-fault", depth=2, nfault=rng.choice([1, 2]), where=rng.choice([None, "last"])) for _ in range(n)]
            api_h.append((0.0, evs))
        for i in range(40 if thorough else 6):
            evs = [clean_run(gen), loop_run(gen, True), mk_case(gen, "one-fault", depth=2, nfault=1), clean_run(gen)]
            rng.shuffle(evs)
            api_h.append((0.05, evs))
        for kind in ("count", "findif", "select"):      # fixed witnesses first: __EVAL({5} count [1,2]) used to end the host process
            prog = Program(Seq([Mark(gen), Fault(gen, kind), Mark(gen)], "main"))
            ev = evaluate(prog)
            ev["kind"], ev["faults"] = "eval", [kind + "@/main"]
            eval_cases.append(ev)
        for i in range(200 if thorough else 30):
            prog, kinds = gen.program(depth=2, nfault=rng.choice([0, 1, 1, 2]), where=rng.choice([None, "last"]), top=False)
            ev = evaluate(prog)
            ev["kind"], ev["faults"] = "eval", kinds
            eval_cases.append(ev)
        for i in range(100 if thorough else 16):
            cli_cases.append(clean_run(gen) if i % 4 == 0 else mk_case(gen, "one-fault", depth=2, nfault=rng.choice([1, 2]), where=rng.choice([None, "last"])))
    if api_h or eval_cases or cli_cases:
        bdir = V.build_impl("plain")
        outs = worker_results(os.path.join(bdir, "libsqfvm.so"), [{"max_s": ms, "codes": [ev["text"] for ev in evs]} for ms, evs in api_h])
        for k, (ms, evs) in enumerate(api_h):
            h = {"cfg": (int(ms * 1000), -1, 10000), "runs": [("a", ev) for ev in evs], "origin": "sqfvm_call"}
            dist["sqfvm_call"] = dist.get("sqfvm_call", 0) + 1
            if isinstance(outs[k], tuple):
                viol("libsqfvm.so did not survive this sequence of sqfvm_call (worker exit %s)" % outs[k][1], h,
                     {"texts": [ev["text"] for ev in evs], "stderr": outs[k][2]})
                continue
            for j, (ev, (rc, status, msgs)) in enumerate(zip(evs, outs[k]["runs"])):
                n_api += 1
                obs, locs = api_obs(rc, status, msgs)
                bad = oracle(ev, obs, locs or None)
                if bad:
                    viol("sqfvm_call %d of %d on one instance: %s" % (j + 1, len(evs), bad[0]), h,
                         {"run": j, "complaints": bad, "impl": obs, "sqfvm_call": rc, "sqfvm_status": status, "text": ev["text"]})
                    break
        # __EVAL(..) / the interactive `eval`: runtime::evaluate_expression runs the expression on a context of its own
        outs = worker_results(os.path.join(bdir, "libsqfvm.so"),
                              [{"max_s": 0.0, "codes": ["diag_log 900000; __EVAL(call { %s; 77 })" % ev["text"], "diag_log 900001"]} for ev in eval_cases])
        n_eval = 0
        for k, ev in enumerate(eval_cases):
            h = {"cfg": (0, -1, 10000), "runs": [("a", ev)], "origin": "eval"}
            dist["eval"] = dist.get("eval", 0) + 1
            n_eval += 1
            if isinstance(outs[k], tuple):
                viol("the host process of libsqfvm.so did not survive __EVAL of this expression followed by one more sqfvm_call (worker exit %s)" % outs[k][1], h,
                     {"texts": ["diag_log 900000; __EVAL(call { %s; 77 })" % ev["text"], "diag_log 900001"], "stderr": outs[k][2]})
                continue
            (rc, status, msgs), (rc2, status2, msgs2) = outs[k]["runs"]
            failing = any(sc["outcome"] == "err" for sc in ev["scripts"])
            obs, locs = api_obs(-6 if failing else 0, 0, msgs, "dllexports")   # evaluate_expression has no result code of its own to judge
            shifted = dict(ev)
            shifted["scripts"] = [dict(sc, span=[sc["span"][0] + 7, sc["span"][1] + 7] if sc["span"] else None) for sc in ev["scripts"]]
            bad = oracle(shifted, obs, locs or None)
            # the call after it on the same instance must be judged alone
            obs2, _ = api_obs(rc2, status2, msgs2)
            bad2 = oracle({"scripts": [{"markers": ["900001"], "outcome": "ok", "ids": [900001], "span": None}]}, obs2)
            if bad2:
                viol("the sqfvm_call after an __EVAL expression: " + bad2[0], h, {"complaints": bad2, "impl": obs2, "text": ev["text"]})
            if bad:
                # attributable to the recorded defect exactly when everything up to the fatal stack trace is as demanded
                cut = obs[:obs.index("0:60001,") + len("0:60001,")] if "0:60001," in obs else None
                key = "eval-continues-after-error"
                if cut is not None and not oracle(shifted, cut, locs or None) and run.known.has(PID, key):
                    run.known_finding(key)
                else:
                    viol("__EVAL / evaluate_expression: " + bad[0], h,
                         {"complaints": bad, "impl": obs, "text": "diag_log 900000; __EVAL(call { %s; 77 })" % ev["text"],
                          "attributable_to": key if cut is not None and not oracle(shifted, cut, locs or None) else None})
        evaluations += n_eval
        exe = os.path.join(bdir, "sqfvm")
        for ev in cli_cases:
            obs, locs, rc = cli_obs(exe, ev["text"])
            n_cli += 1
            dist["cli"] = dist.get("cli", 0) + 1
            cli_exit_codes[str(rc)] = cli_exit_codes.get(str(rc), 0) + 1
            bad = oracle(ev, obs, locs or None)
            if bad:
                viol("sqfvm CLI: %s" % bad[0], {"cfg": (0, -1, 10000), "runs": [("c", ev)], "origin": "cli"},
                     {"complaints": bad, "impl": obs, "text": ev["text"], "exit_code": rc})
    evaluations += n_api + n_cli

    # ---- deep stacks (deep_case): the stack trace of the failed run and the _exception of every handler name the failing statement at
    # every depth; through sqfvm_call (each case on an instance of its own) and through the CLI
    deep_api, deep_cli = [], []
    if replay_embedder and replay_embedder[0] in ("deep-call", "deep-cli"):
        (deep_api if replay_embedder[0] == "deep-call" else deep_cli).extend(ev for m, ev in replay_embedder[1]["runs"])
    if not replay:
        for i in range(3000 if thorough else 400):
            deep_api.append(deep_case(gen, rng))
        for i in range(120 if thorough else 16):
            deep_cli.append(deep_case(gen, rng))
    deep_bad = []
    deep_depths, deep_shapes, deep_exp = [], {}, {"runs_that_must_fail": 0, "runs_that_must_not_fail": 0, "handler_take_overs_with_trace": 0}
    if deep_api or deep_cli:
        bdir = V.build_impl("plain")
        outs = worker_results(os.path.join(bdir, "libsqfvm.so"), [{"max_s": 0.0, "codes": [ev["text"]]} for ev in deep_api])
        results = []
        for ev, o in zip(deep_api, outs):
            results.append(("deep-call", ev, o if isinstance(o, tuple) else tuple(o["runs"][0]) + (None,)))
        exe = os.path.join(bdir, "sqfvm")
        for ev in deep_cli:
            results.append(("deep-cli", ev, cli_msgs(exe, ev["text"])))
        for origin, ev, res in results:
            h = {"cfg": (0, -1, 10000), "runs": [("a", ev)], "origin": origin}
            dist[origin] = dist.get(origin, 0) + 1
            evaluations += 1
            for w in ev["faults"][0].split(" "):
                w = re.sub(r"\d+", "", w)
                deep_shapes[w] = deep_shapes.get(w, 0) + 1
            fails = any(sc["outcome"] == "err" for sc in ev["scripts"])
            deep_exp["runs_that_must_fail" if fails else "runs_that_must_not_fail"] += 1
            deep_exp["handler_take_overs_with_trace"] += sum(len(sc.get("handled", [])) for sc in ev["scripts"])
            if res[0] == "CRASH":
                viol("libsqfvm.so did not survive this program with a deep stack (worker exit %s)" % res[1], h, {"text": ev["text"], "stderr": res[2]})
                continue
            rc_, status_, msgs_, exit_code = res
            bad, obs = deep_oracle(ev, rc_, status_, msgs_, deep_depths)
            if bad:
                deep_bad.append((len(ev["text"]), len(deep_bad), origin, ev, h, bad, obs, exit_code, msgs_))
        # every violating run counts; the 20 shortest programs are written out as replays (a change of the trace shows in hundreds of runs)
        for _, _, origin, ev, h, bad, obs, exit_code, msgs_ in sorted(deep_bad, key=lambda x: x[:2])[:20]:
            viol("%s, stack aimed at %s frames (%s): %s" % ("sqfvm_call" if origin == "deep-call" else "sqfvm CLI", ev.get("aim", "?"), ev["faults"][0], bad[0]), h,
                 {"complaints": bad, "impl": obs[:2000], "text": ev["text"], "aim": ev.get("aim"), "exit_code": exit_code,
                  "fatal_trace_head": next((t[:600] for sv, t in msgs_ if sv == 0 and "Stacktrace:" in t), None)})

    # ---- "error state raised by one statement does not surface at a later one", through _exception: an expression evaluated while text is
    # preprocessed at run time fails (error + stack trace reported, the script goes on); later an error is caught by a handler. What the
    # handler finds in _exception is what it finds when the earlier expression had succeeded (implementation only, two runs compared).
    hops = V.build_harness("h_ops", "asan" if thorough else "plain")
    progs = []
    for _ in range(300 if thorough else 40):
        fail = rng.choice(['[1,2] select 5', '1 + ""a""', 'call {[] select 3}', 'objNull setDamage ""x""', '[1] select 9; 4'])
        fine = rng.choice(['1 + 1', '[1,2] select 1', 'call {3}'])
        fine = fine + " " * (len(fail) - len(fine)) if len(fine) <= len(fail) else '1'.ljust(len(fail))     # same columns in both programs
        pre = rng.choice(['private _t = preprocess__ "x = __EVAL(%s);";', 'private _t = preprocess__ "a __EVAL(%s) b __EVAL(1) c";',
                          'private _t = preprocess__ "#define Q __EVAL(%s)\nQ Q";'])
        gap = " ".join("g%d = %d;" % (i, rng.randint(0, 9)) for i in range(rng.randint(0, 4)))
        err = rng.choice(['[1] select 7', '2 + "b"', 'call {[] select 4}', '[1,2,3] select -2'])
        tail = 'captured = "none"; %s { %s } except__ { captured = str _exception }; captured' % (gap, err)
        progs.append((pre % fail + " " + tail, pre % fine + " " + tail))
    lines = []
    for a_, b_ in progs:
        lines += ["X\t-\t%s" % V.hx(a_), "X\t-\t%s" % V.hx(b_)]
    rc_, out_, err_ = V.run_lines_parallel([hops], lines, timeout=3000)
    for k, (a_, b_) in enumerate(progs):
        oa, ob = out_[2 * k], out_[2 * k + 1]
        fa, fb = oa.split(";"), ob.split(";")
        evaluations += 1
        dist["exception-after-failed-eval"] = dist.get("exception-after-failed-eval", 0) + 1
        if len(fa) != 3 or len(fb) != 3 or fa[2] == "NONE" or fb[2] == "NONE":
            run.violation("a script that preprocesses text with a failing __EVAL and later handles an error did not come back with a value: %s / %s"
                          % (oa[:80], ob[:80]), {"with_failing_eval": a_, "with_succeeding_eval": b_, "impl": [oa[:400], ob[:400]]})
        elif fa[2] != fb[2]:
            run.violation("the handler's _exception holds messages of an EARLIER failure (an __EVAL evaluated while preprocessing at run time), not only "
                          "those of the error it handles",
                          {"with_failing_eval": a_, "with_succeeding_eval": b_, "exception_with": V.unhx(fa[2]).decode("latin-1")[:600],
                           "exception_without": V.unhx(fb[2]).decode("latin-1")[:600]})

    for p in problems:
        run.violation("proof obligation not discharged: " + p, {"broken": p, "theorems": run.cov["theorems"]}, found_input=False)
    run.cov["evaluations"] = evaluations
    run.cov["distinct_nontrivial"] = len(nontrivial)
    run.cov["rule"] = ("scenario programs: a random nest of call/if/forEach/for/count/apply/isNil/while/exitWith/except__/try-catch/spawn blocks with "
                       "unique diag_log markers, into which 0-3 faulting statements (13 fault shapes: instruction errors, loop-condition and "
                       "iteration-result errors raised inside frame::next, throw) are inserted at uniformly chosen positions of uniformly chosen "
                       "blocks (35% as last statement); every run is judged by the abstract interpreter of the scenario (expected markers per "
                       "script, handler take-over with _exception probe, failed/not failed, stack trace last and located inside the failing "
                       "statement); a case is a run; distinct by program text")
    allruns = [ev for h in hists for m, ev in h["runs"]]
    run.cov["expected"] = {
        "runs_that_must_fail": sum(1 for ev in allruns if any(sc["outcome"] == "err" for sc in ev["scripts"])),
        "runs_that_must_not_fail": sum(1 for ev in allruns if all(sc["outcome"] == "ok" for sc in ev["scripts"])),
        "runs_cut_off_by_max_runtime": sum(1 for ev in allruns if ev.get("loops")),
        "handler_take_overs": sum(1 for ev in allruns for sc in ev["scripts"] for x in sc["markers"] if x.startswith("[")),
        "runs_with_a_handled_error": sum(1 for ev in allruns if any(x.startswith("[") for sc in ev["scripts"] for x in sc["markers"])),
        "failing_fault_shapes": {},
        "runs_with_spawned_scripts": sum(1 for ev in allruns if len(ev["scripts"]) > 1),
    }
    for ev in allruns:
        for sc in ev["scripts"]:
            if sc["outcome"] == "err":
                run.cov["expected"]["failing_fault_shapes"][sc.get("fault", "?")] = run.cov["expected"]["failing_fault_shapes"].get(sc.get("fault", "?"), 0) + 1
    run.cov["input_distribution"] = dist
    run.cov["fault_position_classes"] = dict(sorted(classes.items(), key=lambda x: -x[1])[:60])
    run.cov["fault_position_classes_total"] = len(classes)
    run.cov["samples"] = samples
    run.cov["step_level_programs"] = nstep
    run.cov["sqfvm_call_runs"] = n_api
    run.cov["cli_runs"] = n_cli
    run.cov["eval_expressions"] = dist.get("eval", 0)
    bounds = {}
    for d in deep_depths:
        if any(abs(d - t) <= 2 for t in DEEP_TARGETS): bounds[str(d)] = bounds.get(str(d), 0) + 1
    run.cov["deep_stack"] = {
        "rule": ("one faulting statement (12-13 fault shapes) at a random position of a small scenario block that runs under 1-3 segments of "
                 "recursive functions (5 styles of the recursive step, local or global function variable, markers before / after the step, "
                 "optionally every call guarded by its own except__) and literal nests of the 13 wrapping constructs (up to %d levels), with loops "
                 "between the segments, a trace-printing except__ handler near the fault / between the segments / outermost / none, sometimes a second "
                 "fault after the handler construct, 20%% in a spawned script; frames aimed at %s +-3 (60%%), 2..40 (20%%), 41..2600 (20%%); judged "
                 "by the abstract interpreter (markers, take-over once by the nearest handler, failed / not failed, stack trace last) and: the innermost "
                 "entry of the reported stack trace and of every handler's _exception lies inside the statement that raised the error, entries are "
                 "numbered 1..N of N, _exception holds the text of the error diagnostic; implementation only (sqfvm_call, CLI)" % (MAX_LITERAL_NEST, DEEP_TARGETS)),
        "runs": len(deep_api) + len(deep_cli), "through_sqfvm_call": len(deep_api), "through_cli": len(deep_cli),
        "expected": deep_exp, "shapes": dict(sorted(deep_shapes.items())), "runs_violating": len(deep_bad),
        "traces_judged": len(deep_depths),
        "observed_trace_depths": {"min": min(deep_depths) if deep_depths else None, "max": max(deep_depths) if deep_depths else None,
                                  "distinct": len(set(deep_depths)),
                                  "le_64": sum(1 for d in deep_depths if d <= 64), "65_256": sum(1 for d in deep_depths if 64 < d <= 256),
                                  "257_1024": sum(1 for d in deep_depths if 256 < d <= 1024), "gt_1024": sum(1 for d in deep_depths if d > 1024),
                                  "within_2_of_a_round_number": dict(sorted(bounds.items(), key=lambda x: int(x[0])))}}
    run.cov["cli_process_exit_codes_recorded_not_demanded"] = cli_exit_codes
    run.cov["model_outside_fragment"] = unsupported
    run.cov["trusted_base"] = ["Coq 8.16.1 kernel (vm_compute used in Examples only)", "ExtrOcamlBasic extraction + ocaml/vmhist_driver.ml, ocaml/vm_driver.ml",
                               "harness/h_vmhist.cpp, harness/h_vm.cpp, harness/sqfrt.hpp (virtual clock by interposing clock_gettime)",
                               "scenario generator and abstract interpreter (oracle) in checks/C04.py",
                               "the VM model coq/VM/VmDefs.v, VmExec.v is hand-written; tied to runtime.cpp/frame.h/ops_*.cpp only by this differential run"]
    return run.finish()


if __name__ == "__main__" and len(sys.argv) >= 3 and sys.argv[1] == "--embed-worker":
    embed_worker(sys.argv[2])
