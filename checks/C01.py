"""C01 - expressions group by precedence, associate left, unary tightest, operands in order."""
import json, os, re, sys
import vcommon as V
import syntaxcommon as S
import c01_glue as G

PID = "C01"
KEY_UN = "un-nular-operand"


def shapes(gen, rng):
    """all ordered pairs of levels x {binary child, unary-over-binary child} x {left, right}: 400 shapes"""
    out = []
    P = gen.p
    for i in range(10):
        for j in range(10):
            for side in ("L", "R"):
                for ck in ("bin", "un"):
                    child = ("bin", j, S.recase(rng, P.binary_at(rng, j)), gen.atom(), gen.atom())
                    if ck == "un":
                        child = ("un", S.recase(rng, P.unary(rng)), child)
                    other = gen.atom()
                    parent = ("bin", i, S.recase(rng, P.binary_at(rng, i)), child if side == "L" else other, other if side == "L" else child)
                    out.append(("shape:%d/%d/%s/%s" % (i, j, side, ck), [("expr", parent)]))
    return out


def boundary(gen):
    v = lambda n: ("var", n)
    n = lambda t: ("num", t)
    m = lambda a: ("un", "-", a)
    pl = lambda a: ("un", "+", a)
    add = lambda a, b: ("bin", 5, "+", a, b)
    mul = lambda a, b: ("bin", 6, "*", a, b)
    cases = [
        [("expr", m(n("5")))], [("expr", m(m(n("5"))))], [("expr", pl(n("5")))], [("expr", m(("hex", "0x10")))],
        [("expr", m(pl(n("5"))))], [("expr", pl(pl(n("5"))))], [("expr", pl(m(n("5"))))], [("expr", m(n("0")))],
        [("expr", add(v("a"), m(n("5"))))], [("expr", add(m(n("5")), v("a")))], [("expr", mul(m(v("a")), v("b")))],
        [("expr", ("un", "abs", m(n("5"))))], [("expr", m(add(n("1"), n("2"))))],
        [("expr", mul(add(v("a"), v("b")), v("c")))], [("expr", add(v("a"), mul(v("b"), v("c"))))],
        [("expr", ("bin", 5, "-", ("bin", 5, "-", v("a"), v("b")), v("c")))], [("expr", ("bin", 5, "-", v("a"), ("bin", 5, "-", v("b"), v("c"))))],
        [("assign", "x", v("f"))], [("assign", "x", v("t"))], [("expr", v("p"))], [("expr", v("tru"))], [("expr", v("true1"))],
        [("expr", v("private_y"))], [("assign", "f", n("1"))], [("local", "_a", add(n("1"), n("2")))],
        [("expr", ("un", "private", v("_a")))], [("expr", ("arr", []))], [("expr", ("code", []))],
        [("expr", ("code", [("expr", v("a")), ("assign", "b", n("1"))]))],
        [("expr", ("arr", [add(n("1"), n("2")), ("arr", [("str", '"s"')]), ("code", [("expr", v("_x"))])]))],
        [("expr", ("bin", 3, "forEach", ("code", [("expr", v("_x"))]), ("arr", [n("1"), n("2")])))],
        [("expr", ("bin", 8, "#", ("arr", [n("1"), n("2")]), n("0")))],
        [("expr", ("bin", 3, "select", v("a"), m(n("1"))))],
        [], [("expr", v("a")), ("expr", v("b")), ("expr", v("c"))],
    ]
    return [("boundary:%d" % i, c) for i, c in enumerate(cases)]


def names_sweep(gen, rng, sample=None):
    """every registered name at least once (thorough), or a sample"""
    P = gen.p
    b, u, nl = list(P.all_binary), list(P.all_unary), list(P.all_nular)
    if sample is not None:
        b, u, nl = rng.sample(b, min(sample, len(b))), rng.sample(u, min(sample, len(u))), rng.sample(nl, min(sample // 2, len(nl)))
    out = []
    for k, nm in b:
        j = rng.randrange(10)
        other = ("bin", j, S.recase(rng, P.binary_at(rng, j)), gen.atom(), gen.atom())
        t = ("bin", k, S.recase(rng, nm), other, gen.atom()) if rng.random() < 0.5 else ("bin", k, S.recase(rng, nm), gen.atom(), other)
        out.append(("name:b", [("expr", t)]))
    for nm in u:
        out.append(("name:u", [("expr", ("bin", 5, "+", ("un", S.recase(rng, nm), gen.atom()), gen.atom()))]))
    for nm in nl:
        out.append(("name:n", [("expr", ("bin", 6, "*", gen.atom(), ("nul", S.recase(rng, nm))))]))
    return out


def chains(gen, rng, sample=None):
    """one operator name repeated: a op b op c (op d), read from the left, and the same with the right operand parenthesised -
    every operator spelled with symbols, and every (thorough) or a sample of the operators spelled as words"""
    P = gen.p
    sym = [(k, nm) for k, nm in P.all_binary if not (nm[0].isalpha() or nm[0] == "_")]
    word = [(k, nm) for k, nm in P.all_binary if nm[0].isalpha() or nm[0] == "_"]
    if sample is not None:
        word = rng.sample(word, min(sample, len(word)))
    out = []
    for k, nm in sym + word:
        a, b, c, d = gen.atom(), gen.atom(), gen.atom(), gen.atom()
        op = lambda x, y: ("bin", k, S.recase(rng, nm), x, y)
        out.append(("chain:L3", [("expr", op(op(a, b), c))]))
        out.append(("chain:R3", [("expr", op(a, op(b, c)))]))
        out.append(("chain:L4", [("expr", op(op(op(a, b), c), d))]))
        out.append(("chain:M4", [("expr", op(op(a, op(b, c)), d))]))
    return out


def long_spines(gen, rng, lengths):
    """left spines of n binary operators (one tree level per operator - what generated code such as a long concatenation looks like): one
    operator name repeated, names of one level mixed, and spines that run down through tighter levels (a*b*c.. + d + e ..), atoms all
    different so that the order of the operands shows in the listing"""
    P = gen.p
    out = []
    for n in lengths:
        for style in ("one", "level", "descend"):
            k = rng.choice([1, 2, 3, 4, 5, 6, 7]) if style != "descend" else None
            nm1 = P.binary_at(rng, k) if k else None
            t = ("num", "0")
            for i in range(n):
                if style == "one":
                    kk, nm = k, nm1
                elif style == "level":
                    kk, nm = k, P.binary_at(rng, k)
                else:       # tightest operators innermost: the level falls (or stays) as the spine goes outwards
                    kk = max(1, 9 - (i * 9) // n)
                    nm = P.binary_at(rng, kk)
                t = ("bin", kk, S.recase(rng, nm), t, ("num", str(i + 1)) if i % 3 else ("var", "v%d" % i))
            out.append(("spine:%s/%d" % (style, n), [("expr", t)]))
    return out


def long_arrays(rng, sizes):
    """array literals of n elements - all constants (numbers, strings, booleans), one element that is no constant at any place, constants
    nested in constants - standing alone, assigned, as an operand and inside code: the listing is the elements left to right, then
    MAKEARRAY n, whatever n is and whatever the elements are (tenth seed round: literals of 16 and more constants were emitted as one push
    of a prebuilt array)"""
    out = []

    def const(i):
        k = i % 4
        return ("num", str(i + 1)) if k < 2 else (("str", '"s%d"' % i) if k == 2 else (("true", "true") if i % 8 == 3 else ("false", "false")))

    for n in sizes:
        for style in ("const", "onevar", "nested", "numbers"):
            els = [const(i) if style != "numbers" else ("num", str(i)) for i in range(n)]
            if style == "onevar" and n:
                els[rng.randrange(n)] = ("var", "v%d" % n)
            if style == "nested" and n:
                j = rng.randrange(n)
                els[j] = ("arr", [const(i) for i in range(rng.choice([0, 1, 15, 16, 17]))])
            arr = ("arr", els)
            shape = rng.choice(["alone", "assign", "code", "twice", "inarray"])
            if shape == "alone":
                ss = [("expr", arr)]
            elif shape == "assign":
                ss = [("assign", "tbl", arr)]
            elif shape == "inarray":
                ss = [("expr", ("arr", [("num", "0"), arr, ("var", "w")]))]
            elif shape == "code":
                ss = [("assign", "f", ("code", [("expr", arr)]))]
            else:
                ss = [("assign", "a", arr), ("assign", "b", arr)]
            out.append(("array:%s/%d/%s" % (style, n, shape), ss))
    return out


def garbage(rng, n):
    alpha = list(b"aftpruexl_AFTP019.+-*/%^!<>=&|#:$\"'()[]{};, \t\n\r?@\\~`") + [0x80, 0xff, 0x0b]
    words = [b"true", b"false", b"private", b"tru", b"fals", b"priv", b"TRUE", b"Private", b"0x", b"0x1f", b"$", b"$g", b"1e", b"1e+", b"1.",
             b".5", b"..", b"1.2.3", b"==", b"=", b">>", b">>=", b"&&", b"&", b"||", b"|", b"!=", b"!", b"<=", b"\"a\"\"b\"", b"'a''b'", b"\"open",
             b"'open", b"a1", b"1a", b"_", b"__a", b"select", b"+", b"-", b"-5", b"5-", b"#", b"# line", b"#lin", b"f", b"t", b"p"]
    out = []
    for _ in range(n):
        if rng.random() < 0.5:
            s = bytes(rng.choice(alpha) for _ in range(rng.randint(0, 14)))
        else:
            s = rng.choice([b"", b" "]).join(rng.choice(words) for _ in range(rng.randint(1, 5)))
        if S.in_scope(s):
            out.append(s)
    return out


def mutate(rng, text):
    """token-level damage to a valid rendering: delete / duplicate / swap / insert a piece"""
    pieces = [p for p in S.re.split(rb"(\s+|[()\[\]{};,=])", text) if p]
    if not pieces:
        return text
    i = rng.randrange(len(pieces))
    r = rng.random()
    if r < 0.3:
        del pieces[i]
    elif r < 0.5:
        pieces.insert(i, pieces[i])
    elif r < 0.7 and len(pieces) > 1:
        j = rng.randrange(len(pieces))
        pieces[i], pieces[j] = pieces[j], pieces[i]
    else:
        pieces.insert(i, rng.choice([b"(", b")", b"[", b"]", b"{", b"}", b";", b",", b"=", b"+", b" - ", b" private ", b" vfbun3__ ", b" vfbn2__ ", b" vfun__ ", b" 1 "]))
    return b"".join(pieces)


def main(replay=None):
    run = V.Run(PID, "proof")
    rng = run.rng
    thorough = run.tier == "thorough"
    ctx = S.setup(run)
    problems = run.prove()
    gen = S.Gen(rng, ctx.pools)
    P = ctx.pools

    # (kind, text bytes, expected listing or None, uses-UN-operand)
    cases = []

    def add_tree(kind, ss, red, tight, plain=False, un_operand=False, comments=0.0):
        text = S.render(ss, rng, red, tight, plain, comments).encode("latin-1")
        cases.append({"kind": kind, "text": text, "expected": S.expected_listing(ss), "un": un_operand, "ss": ss})

    def add_raw(kind, text):
        cases.append({"kind": kind, "text": text, "expected": None, "un": False, "ss": None})

    if replay:
        r = json.load(open(replay))["replay"]
        c = {"kind": r.get("kind", "replay"), "text": V.unhx(r["text_hex"]), "expected": r.get("expected"),
             "un": r.get("un", False), "ss": None, "mode": r.get("mode", "A")}
        if r.get("intended"):
            c["intended"], c["spaced"], c["glued"] = r["intended"], V.unhx(r.get("spaced_hex", "")), (0, 0)
        cases.append(c)
    else:
        cdir = os.path.join(V.VERIF, "corpus", PID)
        if os.path.isdir(cdir):
            for fn in sorted(os.listdir(cdir)):
                if fn.endswith(".json"):
                    r = json.load(open(os.path.join(cdir, fn)))
                    c = {"kind": "corpus:" + fn, "text": V.unhx(r["text_hex"]), "expected": r.get("expected"),
                         "un": r.get("un", False), "ss": None, "mode": r.get("mode", "A")}
                    if r.get("intended"):
                        c["intended"], c["spaced"], c["glued"] = r["intended"], V.unhx(r.get("spaced_hex", "")), (0, 0)
                    cases.append(c)
        for kind, ss in boundary(gen):
            add_tree(kind, ss, 0.0, 0.0, plain=True)
            add_tree(kind, ss, 0.3, 0.5)
        for kind, ss in shapes(gen, rng):
            add_tree(kind, ss, 0.0, 0.3)
            add_tree(kind, ss, 0.25, 0.3)
        for i in range(6000 if thorough else 1200):
            depth = rng.choice([2, 3, 3, 4, 4, 5, 6])
            ss = gen.stmts(depth, rng.choice([1, 1, 1, 2, 3]))
            add_tree("random:d%d" % depth, ss, rng.choice([0.0, 0.0, 0.15, 0.4]), rng.choice([0.0, 0.3, 0.8]))
        for kind, ss in names_sweep(gen, rng, None if thorough else 150):
            add_tree(kind, ss, rng.choice([0.0, 0.2]), 0.3)
        # comments between the tokens (doc and banner styles, stars before the closing slash, line comments): blank space for the parser
        for i in range(3000 if thorough else 400):
            depth = rng.choice([2, 3, 3, 4])
            add_tree("comment:d%d" % depth, gen.stmts(depth, rng.choice([1, 1, 2])), rng.choice([0.0, 0.15]), 0.3, comments=rng.choice([0.15, 0.3, 0.5]))
        for kind, ss in chains(gen, rng, None if thorough else 60):
            add_tree(kind, ss, rng.choice([0.0, 0.0, 0.3]), 0.3)
        # long left spines, around the sizes where an implementation might switch strategy (powers of two) and well beyond
        sys.setrecursionlimit(20000)
        lens = [31, 32, 33, 63, 64, 65, 127, 128, 129, 255, 256, 257, 258, 300, 511, 512, 513, 700] if thorough else [64, 129, 255, 256, 257, 300, 513]
        for kind, ss in long_spines(gen, rng, lens + [rng.randint(20, 700) for _ in range(12 if thorough else 3)]):
            add_tree(kind, ss, 0.0, 0.3)
        # long array literals around the sizes where an implementation might switch strategy
        asz = [0, 1, 2, 7, 8, 9, 15, 16, 17, 31, 32, 33, 63, 64, 65, 127, 128, 129, 255, 256, 257] + [rng.randint(10, 400) for _ in range(8 if thorough else 2)]
        for kind, ss in long_arrays(rng, asz):
            add_tree(kind, ss, 0.0, 0.3)
        # the recorded defect: a unary+nular name used as an operand (real names first, then the harness's own)
        for nm in (P.real_UN + [n for n in P.UN if n not in P.real_UN]):
            for ss in ([("assign", "x", ("nul", nm))], [("expr", ("bin", 6, "*", ("nul", S.recase(rng, nm)), ("num", "1")))],
                       [("expr", ("arr", [("nul", nm)]))]):
                add_tree("un-operand", ss, 0.0, 0.0, plain=True, un_operand=True)
        # mirror-only streams: damaged renderings and raw character soup (accept/reject and tokens must agree)
        base = [c for c in cases if c["ss"] is not None]
        for i in range(3000 if thorough else 600):
            c = rng.choice(base)
            t = mutate(rng, c["text"])
            if S.in_scope(t):
                add_raw("mutated", t)
        for t in garbage(rng, 3000 if thorough else 600):
            add_raw("garbage", t)
        # minimal whitespace: every gap between two tokens closed wherever they are still read as the same two tokens (c01_glue.py)
        cases += G.triples(P, rng, None if thorough else 6)
        cases += G.layouts(P, rng, None if thorough else 4, 64 if thorough else 16)
        cases += G.randoms(gen, rng, 3000 if thorough else 300)
        cases += G.macros(P, rng)

    # ---- run: A (listing; M = through the preprocessor first) on the implementation, then T (tokens) and the model on the text the parser saw
    rc, impl_a, err = V.run_lines_parallel([ctx.harness], ["%s\t%s" % (c.get("mode", "A"), S.hx(c["text"])) for c in cases], timeout=3000)
    n_pp_refused = 0
    for i, c in enumerate(cases):
        c["ptext"] = c["text"]
        if c.get("mode") == "M":
            f = impl_a[i].split("\t")
            if f[0] == "OK" and len(f) == 3:
                c["pp"], impl_a[i] = V.unhx(f[2]), "OK\t" + f[1]
            elif f[0] == "PARSEERROR" and len(f) == 2:
                c["pp"], impl_a[i] = V.unhx(f[1]), "PARSEERROR"
            if "pp" in c:
                c["ptext"] = G.pp_body(c["pp"])
            elif f[0] == "PPERROR":
                n_pp_refused += 1       # the preprocessor's business (C13); nothing reached the parser
                c["expected"], c["intended"], c["ptext"], impl_a[i] = None, None, b"", "OK\t"
    lines_a = ["A\t" + S.hx(c["ptext"]) for c in cases]
    lines_t = ["T\t" + S.hx(c["ptext"]) for c in cases]
    rc, model_a, err = V.run_lines_parallel([ctx.driver, ctx.regfile], lines_a, timeout=3000)
    rc, impl_t, err = V.run_lines_parallel([ctx.harness], lines_t, timeout=3000)
    rc, model_t, err = V.run_lines_parallel([ctx.driver, ctx.regfile], lines_t, timeout=3000)
    # a glued text that is not compiled as its reading: what the same tokens give with one blank in every gap (for the report)
    def meets(i, c):
        return impl_a[i].startswith("OK\t") and S.norm_fold(S.tidy(impl_a[i][3:])) == S.norm_fold(S.tidy(c["expected"]))
    need_ref = [i for i, c in enumerate(cases) if c.get("intended") and c.get("spaced") and c["expected"] is not None and not meets(i, c)][:200]
    if need_ref:
        rc, out, err = V.run_lines_parallel([ctx.harness], ["A\t" + S.hx(cases[i]["spaced"]) for i in need_ref], timeout=3000)
        for i, l in zip(need_ref, out):
            cases[i]["reference"] = l
    # repaired-parser answers only where attribution needs them
    need_r = [i for i, c in enumerate(cases) if c["un"]]
    model_r = {}
    if need_r:
        rc, out, err = V.run_lines_parallel([ctx.driver, ctx.regfile], ["R\t" + S.hx(cases[i]["text"]) for i in need_r])
        model_r = dict(zip(need_r, out))

    kinds, distinct, samples, used = {}, set(), [], set()
    n_oracle = n_mirror = 0
    glue = {"texts": 0, "gaps_closed_under_C01_lex_render": 0, "gaps_closed_under_C01_lex_render_glued": 0, "not_the_intended_tokens": 0,
            "preprocessor_refused": n_pp_refused, "distinct_adjacent_token_pairs": 0}
    glue_pairs = set()
    for i, c in enumerate(cases):
        k0 = c["kind"].split(":")[0]
        kinds[c["kind"].split("/")[0] if k0 == "glue" else k0] = kinds.get(c["kind"].split("/")[0] if k0 == "glue" else k0, 0) + 1
        ia, ma, it, mt = impl_a[i], model_a[i], impl_t[i], model_t[i]
        ma_c = S.canon_model_listing(ma) if ma.startswith("OK\t") else ma
        rep = {"kind": c["kind"], "text_hex": S.hx(c["text"]), "text": c["text"].decode("latin-1"), "expected": c["expected"],
               "un": c["un"], "impl": ia, "model": ma_c, "impl_tokens": it, "model_tokens": mt}
        if c.get("intended"):
            # the lexer model decides whether the glued text still is the intended token list (theorems C01_lex_render / _glued say it is)
            rep.update({"mode": c.get("mode", "A"), "intended": c["intended"], "spaced_hex": S.hx(c.get("spaced", b"")),
                        "the_same_tokens_with_blanks": c.get("spaced", b"").decode("latin-1"), "impl_on_the_spelling_with_blanks": c.get("reference")})
            if "pp" in c:
                rep["text_the_parser_received"] = c["pp"].decode("latin-1")
            if mt != c["intended"]:
                glue["not_the_intended_tokens"] += 1
                c["expected"] = rep["expected"] = None
            else:
                glue["texts"] += 1
                glue["gaps_closed_under_C01_lex_render"] += c["glued"][0]
                glue["gaps_closed_under_C01_lex_render_glued"] += c["glued"][1]
                toks = re.findall(r"(\S+):(\S+) ", mt[3:])
                txt = c["ptext"].decode("latin-1")
                pos = 0
                for j, (ty, h) in enumerate(toks[:-1]):
                    w = V.unhx(h).decode("latin-1")
                    at = txt.index(w, pos)
                    if j and at == pos:
                        glue_pairs.add((toks[j - 1][0] if toks[j - 1][0] != "op" else toks[j - 1][1], ty if ty != "op" else h))
                    pos = at + len(w)
        if S.bad_outcome(ia) or S.bad_outcome(it):
            run.violation("front end did not return on this text: " + (ia if S.bad_outcome(ia) else it).replace("\t", " "), rep)
            continue
        if len(samples) < 8 and k0 not in [s["kind"].split(":")[0] for s in samples]:
            samples.append({"kind": c["kind"], "text": c["text"].decode("latin-1")[:200], "impl": ia[:300], "model": ma_c[:300]})
        if c["ss"] is not None:
            for s in c["ss"]:
                S.tree_names(s[-1], used)
        # 1. oracle: the listing is the post-order of the documented reading
        if c["expected"] is not None:
            n_oracle += 1
            exp = S.tidy(c["expected"])
            got = S.tidy(ia[3:]) if ia.startswith("OK\t") else ia
            ok = ia.startswith("OK\t") and S.norm_fold(got) == S.norm_fold(exp)
            if ok:
                distinct.add(exp)
            if not ok:
                mr = model_r.get(i)
                mr_c = S.tidy(S.canon_model_listing(mr)[3:]) if mr and mr.startswith("OK\t") else mr
                if (c["un"] and ia == "PARSEERROR" and ma == "PARSEERROR" and mr_c is not None and S.norm_fold(mr_c) == S.norm_fold(exp)
                        and run.known.has(PID, KEY_UN)):
                    run.known_finding(KEY_UN)      # the faithful model predicts it; with that one switch off the model meets the spec
                    continue
                rep["model_repaired"] = mr
                if c.get("intended") and c.get("reference") and S.norm_fold(S.tidy(c["reference"][3:])) == S.norm_fold(exp):
                    run.violation("a text is not compiled as its documented reading once the optional blanks between its tokens are left out "
                                  "(the same tokens separated by blanks are)", rep)
                    continue
                run.violation("listing is not the post-order of the documented reading", rep)
                continue
            # the model must meet the oracle too (machinery check) - where it has an answer (it does not model comments)
            mgot = S.tidy(ma_c[3:]) if ma_c.startswith("OK\t") else ma_c
            if ma != "UNSUPPORTED" and S.norm_fold(mgot) != S.norm_fold(exp):
                rep["broken"] = "MODEL (SyntaxDefs.parse_text/compile_block) disagrees with the oracle: machinery bug"
                run.violation("model disagrees with the post-order oracle", rep, found_input=False)
                continue
        else:
            n_mirror += 1
        # 2. correspondence: tokens and listing, model vs implementation
        if mt == "UNSUPPORTED" or ma == "UNSUPPORTED":
            continue
        if it != mt:
            rep["broken"] = "correspondence SyntaxDefs.lex vs tokenizer.hpp"
            run.violation("tokenizer and lexer model disagree", rep, found_input=False)
            continue
        if S.tidy(ia) != S.tidy(ma_c):
            rep["broken"] = "correspondence SyntaxDefs.parse_toks/compile_block vs parser.tab.cc + sqf_parser.cpp to_assembly"
            run.violation("implementation and model disagree on the instruction listing (oracle satisfied or not applicable)", rep, found_input=False)

    for p in ctx.problems:
        run.violation("broken tie: " + p, {"broken": p}, found_input=False)
    for p in problems:
        run.violation("proof obligation not discharged: " + p, {"broken": p, "theorems": run.cov["theorems"], "log": run.proof_log[-3000:]}, found_input=False)
    if P.badprec:
        run.violation("binary operators registered with a precedence outside 1..10 are never tokenised as operators: " + ", ".join(P.badprec[:10]),
                      {"names": P.badprec, "text_hex": S.hx(("a %s b" % P.badprec[0]).encode())})

    allnames = set([("b", n) for k, n in P.all_binary] + [("u", n) for n in P.all_unary] + [("n", n) for n in P.all_nular])
    run.cov["evaluations"] = 2 * len(cases)
    run.cov["distinct_nontrivial"] = len(distinct)
    run.cov["rule"] = ("expression trees over literals, variables, arrays, code blocks, statements and every class of registered operator "
                       "(all 400 parent/child level shapes, random trees of depth <= 6, boundary cases, a sweep over operator names, chains of one operator name repeated, left spines of up to 700 operators, array literals of 0-400 elements), printed with "
                       "minimal or redundant parentheses, random separators, whitespace and letter case; the family glue (c01_glue.py): every gap between two tokens closed "
                       "wherever theorems C01_lex_render / C01_lex_render_glued say the tokens stay the same (the extracted lexer re-checks every text) - L op R for every "
                       "symbol operator and a sample (thorough: all) of the word operators x the character class at the end of L x the character class at the start of R, "
                       "every subset of the gaps of L op u R (u a sign or !) and of small templates closed, random statement lists with all gaps closed, "
                       "and the same adjacency produced by macro expansion (judged on the text the parser receives), oracle = post-order of the tree as for every other tree; "
                       "plus damaged renderings and character "
                       "soup compared model-vs-implementation only. A case is non-trivial when the implementation's listing equals the "
                       "post-order of the documented reading; distinct by that listing")
    run.cov["input_distribution"] = kinds
    glue["distinct_adjacent_token_pairs"] = len(glue_pairs)
    run.cov["glue"] = glue
    run.cov["oracle_cases"] = n_oracle
    run.cov["mirror_only_cases"] = n_mirror
    run.cov["operator_names_used"] = len(used & allnames)
    run.cov["operator_names_registered"] = len(allnames)
    run.cov["unlexable_registered_names"] = P.unlexable
    run.cov["translated"] = ctx.translated
    run.cov["samples"] = samples
    run.cov["trusted_base"] = ["Coq 8.16.1 kernel (vm_compute over the generated tables)", "ExtrOcamlBasic extraction + ocaml/syntax_driver.ml",
                               "harness/h_syntax.cpp + fork plumbing", "translators/registry.py, translators/grammar.py",
                               "Python generator/printer/oracle in checks/syntaxcommon.py, checks/c01_glue.py (number literals are canonicalised with struct/'%g')",
                               "bison's LALR driver skeleton; Syntax/SyntaxDefs.v is hand-written and tied to the C++ by this differential run"]
    return run.finish()
