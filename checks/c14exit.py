"""C14, family 'exitdiag': diagnostics whose location is taken from a frame that is NOT executing an instruction.

Most runtime diagnostics are raised by an instruction and carry that instruction's own position.  A second group is raised by the
exit behaviour of a scope AFTER its block has run to its end (frame.h: frame::diag_info_from_position with position == size):
    while {B} do {..}     the value B leaves is no boolean (60068 error) or is nil (60069 warning; a block that ends in an assignment
                          leaves nil too - before the repair of C05 that was 60081 'found no value', still accepted when raised)
    waitUntil {B}         same (nil is an error there)
    {B} count A / A select {B} / A findIf {B}     same, once per element
    (A apply {B} and isNil {B} take any value: they raise nothing about it any more)
    for "_i" ... do {B}   B overwrote the loop variable with something that is no number (60084 warning)
    {B} forEach A / A apply {B}                   B changed the size of A (60088 warning)
and every stack trace names one position per frame, also for frames that stand behind their last instruction (a finished
condition block, a scope left by exitWith) when the trace is taken.

The offending token of such a diagnostic is the token whose evaluation completed the block: the root token of the block's LAST
statement (the expression that produced the rejected value; the assignment that left nothing behind; for 60084 / 60088 the
generator writes the statement that breaks the loop variable / resizes the array as the last one of the block, so the culprit and
the end of the block coincide).  The generator writes blocks of 1-4 statements spread over several lines, puts the layout elements
of the layout family (comment blocks, single- and multi-line defines, conditional sections, includes, strings over several lines,
CRLF) between the statements of the block and in front of the construct, splits a block over an #include (head or tail of the
block in another file), nests the construct in call / then / a function called later / spawn, hosts it in an included file, and
computes the position of every token it marks (culprit, operator of the construct, wrapper, exitWith) from the text it wrote.
Oracle: those positions (no model involved; root-token conventions as recorded in checks/C14.py: binary / unary operator token,
'=' of an assignment, the name behind 'private', '[' of an array literal, the literal or identifier itself).

Judged per case:  every exit diagnostic the case raises (60068 / 60069 / 60081 / 60084 / 60088; which one is other properties'
business) -> file, line, column of the culprit;  when one of them is an error, the header of the stack
trace and its entries: innermost = culprit, next = the operator of the construct, next = the wrapper's call / then.
Sub-family 'leftscope': an error inside the block of `if (..) exitWith {..}`; the entry of the scope that exitWith left must name
the exitWith token.

Columns are demanded unless a macro use stands on the culprit's line.  No block comment is written in front of a judged token on
its own line (recorded finding comment-shifts-column is about exactly that and is judged by the layout family).
Not covered: the conditions of configClasses / configProperties (strings compiled at run time: positions are relative to the
string, the harness has no config), blocks without any instruction (nothing inside the scope could be named), the position given
to 'maximum runtime reached' while every script sleeps (timing).
"""
import re
import vcommon as V
import ppgen

KEY_RESTART = "exit-error-trace-after-restart"
KEY_LEFT = "trace-of-scope-left-by-exitwith"

M_OP, M_CULPRIT, M_FIRST, M_EXITWITH, M_WRAP, M_LAST = "\x01", "\x02", "\x03", "\x04", "\x05", "\x06"
MARKS = {M_OP: "op", M_CULPRIT: "culprit", M_FIRST: "first", M_EXITWITH: "exitwith", M_WRAP: "wrap", M_LAST: "last"}
TAGS = {"<O>": M_OP, "<C>": M_CULPRIT, "<F>": M_FIRST, "<X>": M_EXITWITH, "<W>": M_WRAP, "<L>": M_LAST}

E_TYPE, W_TYPE, E_NOVALUE, W_FORVAR, W_SIZE, E_OP = 60068, 60069, 60081, 60084, 60088, 60076

# construct -> outcome -> (code, is_error) the unchanged tree answers with.  Which diagnostic a rejected value earns belongs to other
# properties (C02, C05): the judge takes ANY of the exit diagnostics a case raises and looks at where they are reported; a case that
# raises none is counted as not exercised (and the run complains when that becomes the rule).  'novalue' = the block ends in an
# assignment: since the repair of C05 (a finished scope always yields a value) that is nil for the exit behaviours, 60081 is history.
EXIT_CODES = (60068, 60069, 60081, 60084, 60088)
TABLE = {
    "while":     {"wrong": (E_TYPE, True), "nil": (W_TYPE, False), "novalue": (W_TYPE, False), "wrong-later": (E_TYPE, True)},
    "waitUntil": {"wrong": (E_TYPE, True), "nil": (E_TYPE, True), "novalue": (E_TYPE, True)},
    "count":     {"wrong": (E_TYPE, True), "nil": (W_TYPE, False), "novalue": (W_TYPE, False), "wrong-x": (E_TYPE, True)},
    "select":    {"wrong": (E_TYPE, True), "nil": (W_TYPE, False), "novalue": (W_TYPE, False), "wrong-x": (E_TYPE, True)},
    "findIf":    {"wrong": (E_TYPE, True), "nil": (E_TYPE, True), "novalue": (E_TYPE, True), "wrong-x": (E_TYPE, True)},
    "apply":     {"size": (W_SIZE, False)},
    "for":       {"forvar": (W_FORVAR, False)},
    "forEach":   {"size": (W_SIZE, False)},
}
RESTARTS = {"waitUntil", "count", "select", "findIf", "apply"}     # their exit behaviour starts the block again for the next element / round


def tag(s):
    for k, v in TAGS.items():
        s = s.replace(k, v)
    return s


class ExitCase:
    def __init__(self, rng):
        self.rng = rng
        self.lay = ppgen.Layout(rng)
        self.names = ["inc%d.sqf" % i for i in range(1, 5)]
        self.features = set()
        self.n = 0
        self.macro_on_culprit_line = False
        self.need_macros = False
        self.extra_files = {}

    def fresh(self, p="_p"):
        self.n += 1
        return "%s%d" % (p, self.n)

    def ind(self):
        return self.rng.choice(["", " ", "  ", "    ", "\t", "\t\t", " \t"])

    # ---- statements (one or more lines; tags mark the tokens whose position is judged)
    def plain_stmt(self, first=False):
        r = self.rng
        f = "<F>" if first else ""
        k = r.randrange(7)
        if k == 0:
            return ["%s = %s%d;" % (self.fresh(), f, r.randint(0, 99))]
        if k == 1:
            return ["private %s = %s%d;" % (self.fresh(), f, r.randint(0, 99))]
        if k == 2:
            return ['%s"s%d";' % (f, r.randint(0, 9))]
        if k == 3:
            return ["%s%d + %d;" % (f, r.randint(0, 9), r.randint(0, 9))]
        if k == 4:
            return ["%s = [%s%d, 2];" % (self.fresh(), f, r.randint(0, 9))]
        if k == 5:
            return ["%s = [%s%d," % (self.fresh(), f, r.randint(0, 9)), self.ind() + "%d];" % r.randint(0, 9)]
        return ["%s = str %s%d;" % (self.fresh(), f, r.randint(0, 9))]

    def last_stmt(self, outcome, ctx):
        """the statement that completes the block; <C> root token (the culprit), <F> the first instruction of the statement"""
        r = self.rng
        if outcome == "wrong":
            v = ["<C><F>%d" % r.randint(0, 99), '<C><F>"text"', "<C>[<F>1, 2]", "<F>3 <C>+ 4", "(<F>3 <C>* 2)", "<C>str <F>5",
                 "[<F>1, 2] <C>select 0", "<C>count [<F>1]", "<C>call <F>{ 5 }", "if (<F>true) <C>then { 5 } else { 6 }",
                 "<F>3\n<C>+ 4", "(<F>3 <C>-\n2)", "<C>[<F>1,\n2]", "<F>3 <C>+ 4", "<C><F>%d" % r.randint(0, 9), "<F>7 <C>min 2",
                 "<C><F>FIVE__", "<C>TWICE__(<F>3)", "[<F>1, 2] <C>select\n0"]
            t = r.choice(v)
            if "__" in t:
                self.need_macros = True
                self.macro_on_culprit_line = True
                self.features.add("culprit-through-a-macro")
        elif outcome == "nil":
            t = r.choice(["<C><F>nil", "<C><F>nil", "(<C><F>nil)"])
        elif outcome == "novalue":
            nm = self.fresh("_k")
            t = r.choice(["%s <C>= <F>4" % nm, "%s <C>= <F>4" % nm, "private <C>%s = <F>4" % nm, "%s <C>= [<F>1,\n2]" % nm,
                          "%s <C>= <F>3 + 4" % nm, "%s\n<C>= <F>\"v\"" % nm, "private <C>%s =\n<F>4" % nm])
        elif outcome == "wrong-x":
            t = "<C><F>_x"
        elif outcome == "wrong-later":
            t = r.choice(["[<F>true, true, 7] <C>select %s" % ctx["counter"], "[<F>true, \"no\"] <C>select %s" % ctx["counter"],
                          "[<F>true, true, 7]\n<C>select %s" % ctx["counter"]])
        elif outcome == "forvar":
            t = r.choice(['_i <C>= <F>"x"', "_i <C>= [<F>1]", '_i <C>= <F>"a" + "b"', "_i\n<C>= <F>true"])
        elif outcome == "size":
            a = ctx["array"]
            v = ["<F>%s <C>deleteAt 0" % a, "<F>%s\n<C>deleteAt 0" % a]
            if not ctx.get("needs_value"):
                v += ["<F>%s <C>resize 1" % a, "<F>%s <C>set [5, 0]" % a, "<F>%s <C>deleteRange [0, 1]" % a]
            t = r.choice(v)
        else:
            raise ValueError(outcome)
        if "\n" in t:
            self.features.add("last-statement-over-two-lines")
        t += r.choice(["", ";", ";", " ;"])
        if r.random() < 0.15:
            self.features.add("trailing-line-comment")
            t += " // " + r.choice(["note", "1 + \"a\"", "}"])
        ls = t.split("\n")
        return [ls[0]] + [self.ind() + x for x in ls[1:]]

    def noise(self):
        """layout elements of the layout family (they emit statements that run without a diagnostic, or nothing)"""
        return self.lay.element(0, 0, self.names)

    def silent_noise(self):
        """lines that add no instruction: they may stand behind the last statement of a block"""
        r = self.rng
        k = r.randrange(5)
        if k == 0:
            return [""] * r.randint(1, 2)
        if k == 1:
            self.features.add("comment-behind-the-last-statement")
            return ["// " + r.choice(["done", "true", "x = 1 + \"a\";"])]
        if k == 2:
            self.features.add("comment-behind-the-last-statement")
            return ["/* end", "   true */"]
        if k == 3:
            self.features.add("directive-behind-the-last-statement")
            return ["#define AFTER%d %d" % (r.randint(0, 99), r.randint(0, 9))]
        self.features.add("directive-behind-the-last-statement")
        return ["#ifdef NOT_DEFINED_%d" % r.randint(0, 9), "true", "#endif"]

    def interior(self, outcome, ctx, own=None, may_split=True):
        """the lines between the braces of the judged block; returns (lines, number of own statements)"""
        r = self.rng
        k = own if own is not None else r.choice([1, 2, 2, 2, 3, 3, 4])
        groups = []        # the block's own statements, each a list of lines
        last = self.last_stmt(outcome, ctx)
        if k == 1:
            groups.append(last)
        else:
            last = [x.replace("<F>", "") for x in last]
            groups.append(self.plain_stmt(first=True))
            for _ in range(k - 2):
                groups.append(self.plain_stmt())
            groups.append(last)
        # a block split over an #include: its head (with the first statement) or its tail (with the last one) lives in another file
        cut = None
        if may_split and k >= 2 and r.random() < 0.25:
            cut = r.randint(1, k - 1)          # the file boundary lies in front of statement [cut]
        segs = []          # segments of whole lines; a file boundary may lie between two segments
        for gi, g in enumerate(groups):
            if gi > 0:
                # between two statements of the block: nothing, the same line, blank lines, or layout elements
                q = r.random()
                if q < 0.12 and gi != cut and "//" not in segs[-1][-1]:
                    self.features.add("two-statements-on-one-line")
                    if "__" in segs[-1][-1] and gi == len(groups) - 1:
                        self.macro_on_culprit_line = True
                    segs[-1] = segs[-1][:-1] + [segs[-1][-1] + r.choice([" ", "  ", "\t"]) + g[0]] + g[1:]
                    continue
                if q < 0.55:
                    for _ in range(r.randint(1, 2)):
                        self.features.add("layout-between-the-statements-of-the-block")
                        segs.append(self.noise())
                        if gi == cut and r.random() < 0.5:
                            segs[-1] = ["<CUT>"] + segs[-1]       # the boundary in front of / behind the layout element
                            cut = None
                elif q < 0.7:
                    segs.append([""] * r.randint(1, 3))
                if gi == cut:
                    segs.append(["<CUT>"])
                    cut = None
            segs.append([self.ind() + g[0]] + g[1:])
        if r.random() < 0.3:
            segs.append(self.silent_noise())
        lines = [x for sg in segs for x in sg]
        if "<CUT>" in lines:
            i = lines.index("<CUT>")
            if r.random() < 0.5:
                name = "tail%d.sqf" % r.randint(0, 9)
                self.extra_files[name] = lines[i + 1:]
                lines = lines[:i] + ['#include "/v/%s"' % name]
                self.features.add("tail-of-the-block-in-an-included-file")
            else:
                name = "head%d.sqf" % r.randint(0, 9)
                self.extra_files[name] = lines[:i]
                lines = ['#include "/v/%s"' % name] + lines[i + 1:]
                self.features.add("head-of-the-block-in-an-included-file")
        return lines, k

    def braces(self, prefix, inner, suffix):
        """prefix { inner } suffix  with the braces on the lines of their neighbours or on lines of their own"""
        r = self.rng
        out = []
        inner = list(inner)
        if r.random() < 0.5 and not inner[0].lstrip().startswith("#"):
            out.append(prefix + "{" + r.choice([" ", "  ", "\t"]) + inner[0].lstrip(" \t"))
            inner = inner[1:]
            self.features.add("first-statement-on-the-line-of-the-brace")
        elif r.random() < 0.7:
            out.append(prefix + "{")
        else:
            out += [prefix.rstrip(" ") if prefix.strip() else prefix, self.ind() + "{"]
        out += inner
        last = out[-1]
        closable = not last.lstrip().startswith("#") and "//" not in last and not last.rstrip().endswith("*/") and last.strip() != "" \
            and len(out) > 1 and not last.rstrip().endswith("\\")
        if r.random() < 0.4 and closable:
            out[-1] = last + " }" + suffix[0]
            self.features.add("closing-brace-on-the-line-of-the-last-statement")
        else:
            out.append(self.ind() + "}" + suffix[0])
        return out + suffix[1:]

    # ---- the constructs
    def construct(self, kind, outcome):
        r = self.rng
        ctx = {"counter": self.fresh("_n"), "array": self.fresh("_arr")}
        pre, info = [], {"restarted": False}
        n_el = r.choice([1, 1, 2, 3])
        if kind == "while":
            if outcome == "wrong-later":
                pre = ["%s = 0;" % ctx["counter"]]
                body = "{ %s = %s + 1; }" % (ctx["counter"], ctx["counter"])
            else:
                body = r.choice(["{ }", "{}", "{ %s = 1; }" % self.fresh()])
            inner, k = self.interior(outcome, ctx)
            suffix = r.choice([[" <O>do " + body + ";"], ["", self.ind() + "<O>do " + body + ";"], [" <O>do", body + ";"]])
            lines = self.braces("while ", inner, suffix)
        elif kind == "waitUntil":
            inner, k = self.interior(outcome, ctx)
            lines = self.braces("<O>waitUntil ", inner, [";"])
            info["restarted"] = True
        elif kind in ("count", "select", "findIf", "apply") and outcome != "size":
            if outcome == "wrong-x":
                good = "false" if kind == "findIf" else r.choice(["true", "false"])
                p = r.randrange(n_el)
                els = [good] * n_el
                els[p] = r.choice(["5", '"five"', "[true]"])
                arr = "[" + ", ".join(els) + "]"
                info["restarted"] = p < n_el - 1
            else:
                arr = "[" + ", ".join(str(r.randint(0, 9)) for _ in range(n_el)) + "]"
                info["restarted"] = n_el > 1
            if r.random() < 0.3:
                pre = ["%s = %s;" % (ctx["array"], arr)]
                arr = ctx["array"]
            inner, k = self.interior(outcome, ctx)
            res = r.choice(["", "", "%s = " % self.fresh("_r")])
            if kind == "count":
                lines = self.braces(res, inner, [" <O>count %s;" % arr])
            else:
                lines = self.braces("%s%s <O>%s " % (res, arr, kind), inner, [";"])
        elif kind == "for":
            inner, k = self.interior(outcome, ctx)
            head = r.choice(['for "_i" from 0 to %d <O>do ' % r.randint(0, 3), 'for "_i" from 0 to 4 step 2 <O>do '])
            lines = self.braces(head, inner, [";"])
        elif kind in ("forEach", "apply"):
            pre = ["%s = [%s];" % (ctx["array"], ", ".join(str(r.randint(0, 9)) for _ in range(r.randint(2, 4))))]
            ctx["needs_value"] = kind == "apply"
            inner, k = self.interior(outcome, ctx)
            if kind == "forEach":
                lines = self.braces("", inner, [" <O>forEach %s;" % ctx["array"]])
            else:
                lines = self.braces("%s = %s <O>apply " % (self.fresh("_r"), ctx["array"]), inner, [";"])
        else:
            raise ValueError(kind)
        info["own_statements"] = k
        return pre + lines, info

    def leftscope(self):
        """an error inside the block of exitWith: the scope exitWith leaves is no longer executing an instruction"""
        r = self.rng
        pre = []
        for _ in range(r.randint(0, 2)):
            pre += [self.ind() + x if i == 0 else x for i, x in enumerate(self.plain_stmt())]
            if r.random() < 0.3:
                pre += self.noise()
        ew_inner = []
        for _ in range(r.randint(0, 2)):
            st = self.plain_stmt()
            ew_inner += [self.ind() + st[0]] + st[1:]
        ew_inner += [self.ind() + r.choice(['1 <C>+ "a"', '1 <C>+ "a";', '%s = 1 <C>+ "a";' % self.fresh(), '[1] <C>- "a"'])]
        cond = r.choice(["true", "1 > 0", "!false"])
        ew = self.braces("%sif (%s) <X>exitWith " % (self.ind(), cond), ew_inner, [";"])
        post = []
        npost = r.choice([0, 1, 1, 2, 3])
        for i in range(npost):
            if r.random() < 0.3:
                post += self.noise()
            st = self.plain_stmt()
            if i == npost - 1:
                # the statement that ends the left scope: <L> its root token
                st = [self.last_of_scope()]
            post += [self.ind() + st[0]] + st[1:]
        return pre + ew + post, npost

    def last_of_scope(self):
        r = self.rng
        return r.choice(["%s <L>= 4;" % self.fresh(), "private <L>%s = 4;" % self.fresh(), "3 <L>+ 4", "<L>str 5;", "%s <L>= 3 + 4;" % self.fresh()])


def strip_marks(files):
    """files: name -> list of lines with marker bytes.  Returns (clean files, {mark name: (file, line 1-based, col 0-based)})"""
    pos, clean = {}, {}
    for name, lines in files.items():
        out = []
        for li, line in enumerate(lines):
            while True:
                idx = [(line.find(m), m) for m in MARKS if m in line]
                if not idx:
                    break
                i, m = min(idx)
                if MARKS[m] in pos:
                    raise ValueError("mark %s written twice" % MARKS[m])
                line = line[:i] + line[i + 1:]
                pos[MARKS[m]] = (name, li + 1, i)
            out.append(line)
        clean[name] = out
    return clean, pos


CONSTRUCTS = [(k, o) for k in TABLE for o in TABLE[k]]
WRAPS = ["none", "none", "call", "then", "function", "spawn"]
LEFT_WRAPS = ["top", "call", "then", "function", "apply", "forEach", "while", "for"]


def exit_case(rng, force=None):
    g = ExitCase(rng)
    r = rng
    lay = g.lay
    sub = r.random()
    host = "m.sqf"
    if force is not None:
        leftscope = force[0] == "leftscope"
    else:
        leftscope = sub < 0.18
    left_wrap = (force[1] if force else r.choice(LEFT_WRAPS)) if leftscope else None
    # layout in front of the construct (main file)
    main_lines = []
    for _ in range(r.choice([0, 1, 2, 4, 6])):
        main_lines += lay.element(0, 0, g.names)
    hosted = r.random() < 0.3 and left_wrap != "top"
    host_lines = []
    if hosted:
        host = "host%d.sqf" % r.randint(0, 9)
        g.features.add("construct-in-an-included-file")
        for _ in range(r.choice([0, 1, 3])):
            host_lines += lay.element(0, 1, g.names)
    tgt = host_lines if hosted else main_lines
    if leftscope:
        wrap = left_wrap
        body, npost = g.leftscope()
        kind, outcome, info = "leftscope", wrap, {"restarted": False, "npost": npost, "own_statements": 0}
        if wrap == "top":
            cons = body
        elif wrap == "call":
            cons = g.braces(r.choice(["", "%s = " % g.fresh("_r")]) + "<O>call ", body, [";"])
        elif wrap == "then":
            cons = g.braces("if (true) <O>then ", body, [";"])
        elif wrap == "function":
            fn = "fn%d" % r.randint(0, 99)
            cons = g.braces("%s = " % fn, body, [";"]) + [""] * r.randint(0, 2) + [g.ind() + "<O>call %s;" % fn]
        elif wrap == "apply":
            cons = g.braces("%s = [5] <O>apply " % g.fresh("_r"), body, [";"])
        elif wrap == "forEach":
            cons = g.braces("", body, [" <O>forEach [5];"])
        elif wrap == "while":
            c = g.fresh("_n")
            cons = ["%s = 0;" % c] + g.braces("while { %s < 1 } <O>do " % c, ["%s = %s + 1;" % (c, c)] + body, [";"])
        else:
            cons = g.braces('for "_i" from 0 to 0 <O>do ', body, [";"])
        code, is_error = E_OP, True
        wrapper = "none"
    else:
        kind, outcome = force if force else r.choice(CONSTRUCTS)
        code, is_error = TABLE[kind][outcome]
        cons, info = g.construct(kind, outcome)
        wrapper = r.choice(WRAPS)
        if wrapper == "call":
            cons = g.braces(r.choice(["", "%s = " % g.fresh("_r")]) + "<W>call ", cons, [";"])
        elif wrapper == "then":
            cons = g.braces("if (true) <W>then ", cons, [";"])
        elif wrapper == "function":
            fn = "fn%d" % r.randint(0, 99)
            cons = g.braces("%s = " % fn, cons, [";"]) + [""] * r.randint(0, 2) + [g.ind() + "<W>call %s;" % fn]
        elif wrapper == "spawn":
            cons = g.braces("%s = [] spawn " % g.fresh("_h"), cons, [";"])
        g.features.add("wrapped-in-" + wrapper)
    if g.need_macros:
        tgt += ["#define FIVE__ 5", "#define TWICE__(a) (a * 2)"]
    tgt += cons
    files = dict(lay.files)         # files the layout elements wrote (lists of lines)
    if hosted:
        files[host] = host_lines
        main_lines += ['#include "/v/%s"' % host]
    if not (leftscope and outcome == "top"):
        for _ in range(r.randint(0, 2)):
            main_lines += lay.code_line()
    files["m.sqf"] = main_lines
    for n, ls in g.extra_files.items():
        files[n] = ls
    files = {n: [tag(x) for x in ls] for n, ls in files.items()}
    files, pos = strip_marks(files)
    crlf = {n: r.random() < 0.3 for n in files}
    if any(crlf.values()):
        g.features.add("crlf")
    text = {}
    for n, ls in files.items():
        nl = "\r\n" if crlf[n] else "\n"
        text[n] = nl.join(ls) + (nl if r.random() < 0.8 else "")
    # a macro use on the culprit's line: no column is demanded there
    cf, cl, cc = pos["culprit"]
    cline = files[cf][cl - 1]
    col_exact = not g.macro_on_culprit_line and not re.search(r"\b(K\d+|F\d\(|S\d+|M\d+|FIVE__|TWICE__|AFTER\d+)", cline)
    # the stack-trace entries are judged when the case ends in an error
    expect = [("msg", "culprit"), ("head", "culprit"), ("trace1", "culprit")]
    if leftscope:
        expect += [("trace2", "exitwith")]
        if outcome != "top":
            expect += [("trace3", "op")]
    else:
        expect += [("trace2", "op")]
        if wrapper in ("call", "then", "function"):
            expect += [("trace3", "wrap")]
    return {"kind": "exitdiag-" + kind + "-" + outcome, "main": "m.sqf", "files": text,
            "code": code, "is_error": is_error, "positions": {k: list(v) for k, v in pos.items()}, "expect": [list(e) for e in expect],
            "col_exact": col_exact, "restarted": bool(info["restarted"]) and kind in RESTARTS,
            "own_statements": info.get("own_statements", 0), "npost": info.get("npost", 0), "wrapper": wrapper,
            "features": sorted(g.features | lay.features)}


ENTRY = re.compile(r"<\s*(\d+) of (\d+)> \[L(\d+)\|C(\d+)(?:\|([^\]]*))?\]")


def judge(run, himpl, cases, parse_msgs, enc_files):
    """runs the cases and decides; returns the statistics for the evidence"""
    def fenc(c):
        return enc_files({k: v.encode("latin-1") for k, v in c["files"].items()})
    runl = ["RUN\t%s\t%s" % (V.hx(c["main"]), fenc(c)) for c in cases]
    rc, irun, e1 = V.run_lines_parallel([himpl], runl, timeout=3000)
    st = {"cases": len(cases), "kinds": {}, "features": {}, "not_exercised": 0, "not_exercised_kinds": {}, "codes": {}, "messages_judged": 0, "trace_positions_judged": 0, "columns_demanded": 0,
          "columns_not_demanded_macro_on_line": 0, "blocks_of_one_statement": 0, "blocks_of_several_statements": 0,
          "culprit_on_another_line_than_the_first_statement": 0, "culprit_in_another_file_than_the_operator": 0,
          "frames_restarted_before_the_trace": 0, "distinct": 0, "samples": []}
    distinct = set()
    late = []          # findings about stack traces are reported behind the message positions
    for c, ir in zip(cases, irun):
        st["kinds"][c["kind"]] = st["kinds"].get(c["kind"], 0) + 1
        for f in c["features"]:
            st["features"][f] = st["features"].get(f, 0) + 1
        distinct.add(hash(tuple(sorted(c["files"].items()))))
        pos = {k: ("/T/" + v[0], v[1], v[2]) for k, v in c["positions"].items()}
        rep = {"kind": c["kind"], "main": c["main"], "files_hex": {k: V.hx(v.encode("latin-1")) for k, v in c["files"].items()},
               "files_text": c["files"], "code": c["code"], "is_error": c["is_error"], "positions": c["positions"], "expect": c["expect"],
               "col_exact": c["col_exact"], "restarted": c["restarted"], "own_statements": c["own_statements"], "npost": c["npost"],
               "wrapper": c["wrapper"], "features": c["features"], "impl_run": ir[:3000]}
        fr = ir.split("\t")
        if fr[0] in ("CRASH", "TIMEOUT", "OOM", "EXCEPTION", "EXIT", "HARNESS-LOST", "BADLINE", "PPFAIL", "PARSEFAIL"):
            run.violation("a construct whose block ends in a rejected value does not preprocess / parse / run: %s" % " ".join(fr[:2])[:80], rep)
            continue
        msgs = parse_msgs(fr[1] if len(fr) > 1 else "-")
        cul = pos["culprit"]
        if c["own_statements"] == 1:
            st["blocks_of_one_statement"] += 1
        elif c["own_statements"] > 1:
            st["blocks_of_several_statements"] += 1
            if "first" in pos and pos["first"][:2] != cul[:2]:
                st["culprit_on_another_line_than_the_first_statement"] += 1
        if "op" in pos and pos["op"][0] != cul[0]:
            st["culprit_in_another_file_than_the_operator"] += 1
        st["frames_restarted_before_the_trace"] += bool(c["restarted"] and c["is_error"])

        def same(got, want, exact):
            return got[0] == want[0] and got[1] == want[1] and (not exact or got[2] == want[2])
        codes = (E_OP,) if c["kind"].startswith("exitdiag-leftscope") else EXIT_CODES
        mine = [m for m in msgs if m["code"] in codes]
        if not mine:
            # the tree does not reject what this block leaves: nothing to locate (what is rejected is not C14's business)
            st["not_exercised"] += 1
            st["not_exercised_kinds"][c["kind"]] = st["not_exercised_kinds"].get(c["kind"], 0) + 1
            continue
        is_error = any(m["level"] <= 1 for m in mine)
        bad = False
        for m in mine[:50]:
            st["messages_judged"] += 1
            st["codes"][m["code"]] = st["codes"].get(m["code"], 0) + 1
            st["columns_demanded" if c["col_exact"] else "columns_not_demanded_macro_on_line"] += 1
            got = (m["file"], m["line"], m["col"])
            if not same(got, cul, c["col_exact"]):
                tail = ""
                if "first" in pos and got == pos["first"]:
                    tail = " (that is the FIRST instruction of the block)"
                run.violation("diagnostic %d raised when the block of %s had finished is reported at %s:%s:%s, the token that completed the "
                              "block is at %s:%d:%s%s" % (m["code"], c["kind"], got[0], got[1], got[2], cul[0], cul[1],
                                                        cul[2] if c["col_exact"] else "(any column)", tail), rep)
                bad = True
                break
        if bad or not is_error:
            if not bad and len(st["samples"]) < 3 and c["kind"] not in [s["kind"] for s in st["samples"]]:
                st["samples"].append({"kind": c["kind"], "files": {k: v[:500] for k, v in c["files"].items()}, "positions": c["positions"]})
            continue
        tr = [m for m in msgs if m["code"] == 60001]
        if not tr:
            run.violation("an error raised by an exit behaviour (%s) ends the run without a stack trace" % c["kind"], rep)
            continue
        ents = [(e[4] or None, int(e[2]), int(e[3])) for e in ENTRY.findall(tr[0]["text"])]
        total = [int(e[1]) for e in ENTRY.findall(tr[0]["text"])]
        for what, who in c["expect"][1:]:
            want = pos[who]
            exact = c["col_exact"] if who == "culprit" else not re.search(r"\b(K\d+|F\d\(|S\d+|M\d+|FIVE__|TWICE__)",
                                                                        c["files"][want[0][3:]].replace("\r", "").split("\n")[want[1] - 1])
            if what == "head":
                got = (tr[0]["file"], tr[0]["line"], tr[0]["col"])
            else:
                k = int(what[5:]) - 1
                if len(ents) <= k:
                    late.append(("stack trace of %s has %d entries, expected at least %d" % (c["kind"], len(ents), k + 1), rep, None))
                    break
                got = ents[k]
            st["trace_positions_judged"] += 1
            if same(got, want, exact):
                continue
            txt = "%s of the stack trace of %s names %s:%s:%s, the %s is at %s:%d:%s" % (
                "header" if what == "head" else "entry %s" % what[5:], c["kind"], got[0], got[1], got[2],
                {"culprit": "token that completed the block / raised the error", "op": "operator that runs the block",
                 "wrap": "call / then that runs the enclosing block", "exitwith": "exitWith that left the scope"}[who],
                want[0], want[1], want[2] if exact else "(any column)")
            key = None
            if who == "culprit" and c["restarted"] and "first" in pos and got == pos["first"]:
                key = KEY_RESTART     # the exit behaviour started the block again before the trace was taken
            if who == "exitwith" and "last" in pos and got == pos["last"]:
                key = KEY_LEFT        # a frame left by exitWith stands behind its last instruction
            late.append((txt, rep, key))
            if key is None:
                break
        if total and total[0] != len(c["expect"]) - 2 and not any(l[1] is rep for l in late):
            late.append(("stack trace of %s has %d entries, the source nests %d scopes" % (c["kind"], total[0], len(c["expect"]) - 2), rep, None))
    if len(cases) >= 100 and st["not_exercised"] * 4 > len(cases):
        run.violation("the exitdiag family no longer exercises the tree: %d of %d generated blocks raise no exit diagnostic (machinery)" %
                      (st["not_exercised"], len(cases)),
                      {"broken": "generator of checks/c14exit.py vs the diagnostics the exit behaviours raise", "kinds": st["not_exercised_kinds"]},
                      found_input=False)
    for txt, rep, key in late:
        if key is not None and run.known.has(run.pid, key):
            run.known_finding(key)
        else:
            if key is not None:
                rep = dict(rep)
                rep["attributed_to"] = key
            run.violation(txt, rep)
    st["distinct"] = len(distinct)
    return st


def from_replay(r):
    return {"kind": r["kind"], "main": r["main"], "files": {k: V.unhx(v).decode("latin-1") for k, v in r["files_hex"].items()},
            "code": r["code"], "is_error": r["is_error"], "positions": r["positions"], "expect": r["expect"], "col_exact": r["col_exact"],
            "restarted": r["restarted"], "own_statements": r.get("own_statements", 0), "npost": r.get("npost", 0),
            "wrapper": r.get("wrapper", "none"), "features": r.get("features", [])}


# =====================================================================================
# family 'framepos': frame::next / frame::diag_info_from_position against the extracted model PP/FramePos.v
#
# The text of a block (1-5 statements of the exitdiag family, on several lines) is parsed by the real parser; a frame over the
# resulting instructions is moved by frame::next() m = 0 .. len+3 times (not started, standing on every instruction, behind the last
# one, stepped again there) and asked for diag_info_from_position() each time.  The model (theorems
# C14_frame_names_executing_instruction, C14_finished_frame_names_last_instruction, C14_frame_location_is_an_instruction) says
# which instruction that must be; the harness lists the diag_info of every instruction of the set.

def frame_case(rng):
    g = ExitCase(rng)
    r = rng
    n = r.choice([1, 1, 2, 3, 4, 5])
    lines = []
    for i in range(n):
        if i == n - 1:
            st = g.last_stmt(r.choice(["wrong", "nil", "novalue", "size"]), {"counter": "_n", "array": "_arr"})
            while any("__" in x for x in st):
                st = g.last_stmt("wrong", {})
        else:
            st = g.plain_stmt()
        st = [re.sub(r"<[A-Z]>", "", x) for x in st]
        if st[-1].rstrip()[-1:] != ";" and "//" not in st[-1] and i < n - 1:
            st[-1] += ";"
        if lines and r.random() < 0.15 and "//" not in lines[-1]:
            lines[-1] += " " + st[0]
            lines += st[1:]
        else:
            lines += [g.ind() + st[0]] + st[1:]
        if r.random() < 0.2:
            lines.append("")
    return {"kind": "framepos", "text": "\n".join(lines) + r.choice(["", "\n"])}


def judge_frames(run, himpl, drv, cases):
    st = {"cases": len(cases), "frames_with_instructions": 0, "positions_compared": 0, "not_started": 0, "on_an_instruction": 0,
          "behind_the_last_instruction": 0, "lengths": {}, "distinct": 0}
    if not cases:
        return st
    EXTRA = 3
    # the number of instructions is the implementation's: ask for more steps than any block of the generator can have, cut later
    rc, iout, e1 = V.run_lines_parallel([himpl], ["FRAME\t%s\t%d" % (V.hx(c["text"]), 120) for c in cases], timeout=3000)
    lens = []
    for c, io in zip(cases, iout):
        f = io.split("\t")
        lens.append(0 if f[0] != "OK" or f[1] == "-" else len(f[1].split(",")))
    rc, mout, e2 = V.run_lines_parallel(drv, ["FRAME\t%d\t%d" % (n, n + EXTRA) for n in lens], timeout=3000)
    distinct = set()
    for c, io, mo, n in zip(cases, iout, mout, lens):
        rep = {"kind": "framepos", "text": c["text"], "text_hex": V.hx(c["text"]), "impl": io[:3000], "model": mo[:600]}
        f = io.split("\t")
        if f[0] != "OK":
            run.violation("a block of valid statements does not parse / the frame cannot be stepped: %s" % io[:80], rep)
            continue
        if n == 0 or n + EXTRA > 120:
            continue
        distinct.add(c["text"])
        st["frames_with_instructions"] += 1
        st["lengths"][n] = st["lengths"].get(n, 0) + 1
        ins = f[1].split(",")
        got = f[2].split(",")[:n + EXTRA + 1]
        want = mo.split(";")
        if len(want) != n + EXTRA + 1:
            rep["broken"] = "ocaml/pp_driver.ml FRAME"
            run.violation("the model driver does not answer a frame query (machinery)", rep, found_input=False)
            continue
        for m, (g, w) in enumerate(zip(got, want)):
            st["positions_compared"] += 1
            st["not_started" if m == 0 else ("on_an_instruction" if m <= n else "behind_the_last_instruction")] += 1
            p, loc = g.split(":", 1)
            exp = ins[int(w)] if w.isdigit() and int(w) < n else None
            if exp is None or loc != exp:
                state = "has not started" if m == 0 else ("is executing instruction %d" % (m - 1) if m <= n else "has run to its end")
                rep["broken"] = ("C14_finished_frame_names_last_instruction" if m > n else "C14_frame_names_executing_instruction") + \
                                " / correspondence coq/PP/FramePos.v vs src/runtime/frame.h (diag_info_from_position)"
                rep["steps"] = m
                run.violation("a frame of %d instructions that %s (next() called %d times, position %s) names line:col:offset %s, the model "
                              "names instruction %s = %s" % (n, state, m, p, loc, w, exp), rep, found_input=False)
                break
    st["distinct"] = len(distinct)
    return st
