"""C09 - every operator is total and memory-safe on type-correct arguments (PARTIAL by design).

Proof side: coq/Properties_C09.v (dispatch over the generated registry, guard models of the listed operators).
Correspondence: boundary-value pools through the real operators (forked children of the harness h_ops; plain +
_GLIBCXX_ASSERTIONS in the quick tier, ASan+UBSan+float-cast-overflow in the thorough tier) against the extracted
guard models (ocaml/ops_driver.ml; coq/Ops/Guards.v and the second list coq/Ops/Guards2.v).  Two implementation-only families without a model:
numeric structures (matrices / vectors against float32 arithmetic) and aliased operands (`_a op _a` against the same call on a copy).  Exploration (NOT proof, counted separately): a registry-wide sweep of every
registered signature with type-correct arguments from per-type value pools; a sweep case only has to end without
crash / escaping exception / hang / allocation blow-up, and its "unknown type combination" diagnostic has to agree
with the dispatch model."""
import json, os, re, struct, sys
from fractions import Fraction
import vcommon as V

PID = "C09"
BROKEN = "correspondence Ops/Guards.v (guard models) vs the operators of src/operators, d_array.cpp, fileio.cpp"
# defect switches of Ops.OpsBase.defects in the order of the driver's flag string; a switch is on (the model
# describes the unrepaired code) only while the finding of that key is recorded in known_findings.txt
SWITCHES = ["float-int-casts", "select-range-overflow", "sort-comparator", "format-stoi", "selectrandom-empty",
            "param-scalar-as-array", "bom-short-file", "array-size-limit", "fromassembly-decode", "config-iterator"]
RAND1 = 1804289383          # first rand() after srand(1) (glibc): the harness reseeds before every case
ARR_MAX = 9999999


# ------------------------------------------------------------------------------------------------ floats
class Fl:
    """a binary32 value: its SQF source text, its model token, how `str` prints it (small values only)"""
    def __init__(self, sqf, tok, prt=None, val=None):
        self.sqf, self.tok, self.prt, self.val = sqf, tok, prt, val


def fin(x, text=None):
    f32 = struct.unpack("f", struct.pack("f", float(x)))[0]
    k = Fraction(f32) * (1 << 149)
    assert k.denominator == 1
    if text is None:
        text = repr(int(f32)) if f32 == int(f32) and abs(f32) < 1e15 else repr(x)
    prt = ("%g" % f32)
    sq = text if not text.startswith("-") else "(" + text + ")"
    return Fl(sq, "N%d" % k.numerator, prt, f32)


INF = Fl("(1e38 * 10)", "Qpinf", "inf")
NINF = Fl("(-1e38 * 10)", "Qninf", "-inf")
NAN = Fl("(sqrt -1)", "Qnan", None)

IDX_POOL = [fin(-2147483904), fin(-2147483648), fin(-1), fin(-0.5), fin(-0.4), fin(0), fin(0.4), fin(0.5), fin(0.6),
            fin(1), fin(1.5), fin(2), fin(2.5), fin(3), fin(4), fin(5), fin(7), fin(199.5), fin(200), fin(2147483520),
            fin(2147483648), fin(4294967296), fin(1e10, "1e10"), fin(1e20, "1e20"), fin(18446744073709551616.0, "18446744073709551616"),
            fin(1e30, "1e30"), INF, NINF, NAN]
SIZE_POOL = IDX_POOL + [fin(20), fin(1000), fin(9999999), fin(10000000), fin(10000001, "10000001")]


# ------------------------------------------------------------------------------------------------ values
class Vl:
    def __init__(self, sqf, tok, prt):
        self.sqf, self.tok, self.prt = sqf, tok, prt


def vnum(f):
    return Vl(f.sqf, f.tok, f.prt)


def vint(i):
    return vnum(fin(i))


def vstr(b):
    if isinstance(b, str):
        b = b.encode("latin-1")
    q = '"' + b.decode("latin-1").replace('"', '""') + '"'
    return Vl(q, "S" + V.hx(b), q)


def vbool(b):
    return Vl("true" if b else "false", "B1" if b else "B0", "true" if b else "false")


def varr(items):
    return Vl("[" + ",".join(i.sqf for i in items) + "]", "A(" + ",".join(i.tok for i in items) + ")",
              "[" + ",".join(i.prt if i.prt is not None else "?" for i in items) + "]")


OTHERS = [Vl("{}", "O1", "{  }"), Vl("objNull", "O2", None), Vl("grpNull", "O3", None), Vl("configNull", "O4", None),
          Vl("scriptNull", "O5", None), Vl("west", "O6", "WEST"), Vl("missionNamespace", "O7", "missionNamespace"),
          Vl("createHashMap", "O8", "[]")]
CODE, OBJNULL = OTHERS[0], OTHERS[1]


def ints(n):
    return [vint(i) for i in range(n)]


# ------------------------------------------------------------------------------------------------ cases
class Case:
    """sqf (+config / file bytes) for the implementation, model = driver line fields (op, args...), render = how the
    model's result descriptor shows in the printed value of the script (None: the value is not compared)"""
    def __init__(self, kind, sqf, model, render=None, config="", file=None, defect=None):
        self.kind, self.sqf, self.model, self.render, self.config, self.file, self.defect = kind, sqf, model, render, config, file, defect

    def to_json(self):
        return {"kind": self.kind, "sqf": self.sqf, "model": self.model, "render": self.render, "config": self.config,
                "file_hex": None if self.file is None else V.hx(self.file), "defect": self.defect}

    @staticmethod
    def from_json(j):
        return Case(j.get("kind", "replay"), j.get("sqf"), j.get("model"), j.get("render"), j.get("config", ""),
                    None if j.get("file_hex") is None else V.unhx(j["file_hex"]), j.get("defect"))

    def impl_line(self):
        if self.file is not None:
            return "F\t" + V.hx(self.file)
        return "X\t%s\t%s" % (V.hx(self.config), V.hx(self.sqf))


def render_value(render, res, alloc):
    """expected printed value of the script for the model's result descriptor; None = do not compare"""
    if render is None:
        return None
    r = render["r"]
    f = res.split(":")
    if r == "none":
        return None
    if r == "const":
        return render["v"]
    if r == "elem":
        if f[0] == "elem":
            return render["prints"][int(f[1])]
        if f[0] == "default":
            return render.get("default", "nil")
        return "nil"
    if r == "slice_arr":
        if f[0] == "slice":
            a, n = int(f[1]), int(f[2])
            return "[" + ",".join(render["prints"][a:a + n]) + "]"
        return "nil"
    if r == "slice_str":
        if f[0] == "slice":
            a, n = int(f[1]), int(f[2])
            s = render["s"][a:a + n]
            return '"' + s.replace('"', '""') + '"'
        return "nil"
    if r == "count":
        return "%g" % int(f[1]) if f[0] == "resized" else render["old"]
    if r == "after_erase":
        p = list(render["prints"])
        if f[0] == "erased":
            a, n = int(f[1]), int(f[2])
            del p[a:a + n]
        return "[" + ",".join(p) + "]"
    if r == "deleted_elem":
        return render["prints"][int(f[1])] if f[0] == "elem" else "nil"
    if r == "after_delete_at":
        p = list(render["prints"])
        if f[0] == "elem":
            del p[int(f[1])]
        return "[" + ",".join(p) + "]"
    if r == "after_set":
        p = list(render["prints"])
        if f[0] == "stored":
            i, n = int(f[1]), int(f[2])
            if n > 4000:
                return None
            p = p + ["nil"] * (n - len(p))
            p[i] = render["val"]
        return "[" + ",".join(p) + "]"
    if r == "count_after_set":
        return "%g" % int(f[2]) if f[0] == "stored" else render["old"]
    if r == "num":
        return "%g" % int(f[1]) if f[0] == "num" else "nil"
    if r == "tokens":
        s = render["s"]
        toks = [] if len(f) < 2 or f[1] == "" else [t.split(".") for t in f[1].split(",")]
        return "[" + ",".join('"' + s[int(a):int(a) + int(n)].replace('"', '""') + '"' for a, n in toks) + "]"
    if r == "strlen":
        return ("LEN", int(alloc))
    if r == "walk":
        ids = [] if len(f) < 2 or f[1] == "" else f[1].split(",")
        return "[" + ",".join(render["names"][i] for i in ids) + "]"
    if r == "fixed_unary":
        d = int(f[1])
        x = render.get("x", 0.5)
        if d < 0:
            return '"0.5"' if x == 0.5 else None
        return '"%s"' % ("%.*f" % (d, x))
    if r == "fixed_binary":
        return '"%s"' % ("%.*f" % (int(f[1]), 1.25))
    if r == "sorted":
        return ("SORTED", render)
    if r == "shape":
        return ("SHAPE", int(f[1]), int(f[2])) if f[0] == "shape" else "nil"
    if r == "nil_or_value":
        return "nil" if f[0] == "nil" else ("NOTNIL",)
    if r == "by_res":
        # expected printed value per result descriptor of the model ("*" = any other descriptor; absent = not compared)
        return render["map"].get(res, render["map"].get(f[0], render["map"].get("*")))
    raise ValueError(render)


def unquote(v):
    """content of a printed SQF string"""
    if len(v) >= 2 and v[0] == '"' and v[-1] == '"':
        return v[1:-1].replace('""', '"')
    return None


# ------------------------------------------------------------------------------------------------ generators
def arr_sqf(n):
    return "[" + ",".join(str(i) for i in range(n)) + "]"


def prints(n):
    return [str(i) for i in range(n)]


def gen_cases(rng, thorough):
    cs = []
    sizes = [0, 1, 2, 3, 5, 200]
    # ---- select ARRAY SCALAR / BOOL
    for n in sizes:
        for f in IDX_POOL:
            cs.append(Case("select-scalar", "%s select %s" % (arr_sqf(n), f.sqf), ["select_scalar", str(n), f.tok],
                           {"r": "elem", "prints": prints(n)}, defect="float-int-casts"))
        for b in (True, False):
            cs.append(Case("select-bool", "%s select %s" % (arr_sqf(n), "true" if b else "false"),
                           ["select_bool", str(n), "1" if b else "0"], {"r": "elem", "prints": prints(n)}))
    # ---- select ARRAY [start, length], STRING [start, length]
    odd = [vstr("a"), vbool(True), varr([]), CODE, OBJNULL]
    starts = [fin(-1), fin(-0.5), fin(0), fin(0.5), fin(1), fin(2), fin(3), fin(5), fin(128), fin(199), fin(200), fin(201), fin(2147483520),
              fin(2147483648), fin(1e20, "1e20"), INF, NINF, NAN]
    lens = [fin(-1), fin(0), fin(0.5), fin(1), fin(2), fin(3), fin(200), fin(2147483392), fin(2147483520), fin(2147483648),
            fin(1e20, "1e20"), INF, NINF, NAN]

    def range_args():
        out = [[]]
        for s in starts:
            out.append([vnum(s)])
            for l in lens:
                out.append([vnum(s), vnum(l)])
        for o in odd:
            out += [[o], [vint(1), o], [o, vint(1)], [vint(0), vint(1), o]]
        out += [[vint(1), vint(1), vint(1)], [vint(0)] * 5]
        return out

    ra = range_args()
    for n in ([0, 1, 3, 200] if thorough else [0, 3, 200]):
        for a in (ra if thorough or n == 200 else rng.sample(ra, 90)):
            v = varr(a)
            cs.append(Case("select-range", "%s select %s" % (arr_sqf(n), v.sqf), ["select_range", str(n), v.tok],
                           {"r": "slice_arr", "prints": prints(n)},
                           defect="select-range-overflow" if n == 200 else "float-int-casts"))
    strs = ["", "a", "abc", 'ab"c', "x" * 200]
    for s in strs:
        for a in (ra if thorough else rng.sample(ra, 60)):
            v = varr(a)
            cs.append(Case("select-string", "%s select %s" % (vstr(s).sqf, v.sqf), ["select_string", str(len(s)), v.tok],
                           {"r": "slice_str", "s": s}, defect="float-int-casts"))
    # ---- resize
    for n in [0, 3]:
        for f in SIZE_POOL:
            cs.append(Case("resize", "_a = %s; _a resize %s; count _a" % (arr_sqf(n), f.sqf), ["resize", str(n), f.tok],
                           {"r": "count", "old": str(n)}, defect="array-size-limit"))
    # ---- deleteRange, deleteAt, set
    pair_pool = [fin(-2147483904), fin(-1), fin(-0.5), fin(0), fin(0.5), fin(1), fin(1.5), fin(2), fin(3), fin(4), fin(5), fin(2147483520),
                 fin(2147483648), fin(1e20, "1e20"), INF, NINF, NAN]
    for n in [0, 1, 3, 5]:
        args = [[]] + [[vnum(a)] for a in pair_pool[:4]] + [[vnum(a), vnum(b)] for a in pair_pool for b in pair_pool]
        args += [[o, vint(1)] for o in odd] + [[vint(1), o] for o in odd] + [[vint(0), vint(1), vint(2)], [odd[0], odd[1]]]
        for a in (args if thorough else rng.sample(args, 110)):
            v = varr(a)
            cs.append(Case("deleteRange", "_a = %s; _a deleteRange %s; _a" % (arr_sqf(n), v.sqf), ["delete_range", str(n), v.tok],
                           {"r": "after_erase", "prints": prints(n)}, defect="float-int-casts"))
        for f in IDX_POOL:
            cs.append(Case("deleteAt", "_a = %s; _a deleteAt %s" % (arr_sqf(n), f.sqf), ["delete_at", str(n), f.tok],
                           {"r": "deleted_elem", "prints": prints(n)}, defect="float-int-casts"))
            cs.append(Case("deleteAt-after", "_a = %s; _a deleteAt %s; _a" % (arr_sqf(n), f.sqf), ["delete_at", str(n), f.tok],
                           {"r": "after_delete_at", "prints": prints(n)}, defect="float-int-casts"))
        set_idx = IDX_POOL + [fin(20), fin(3000), fin(9999998), fin(9999999), fin(10000000)]
        for f in set_idx:
            v = varr([vnum(f), vint(77)])
            big = f.val is not None and f.val > 4000
            cs.append(Case("set", "_a = %s; _a set %s; %s" % (arr_sqf(n), v.sqf, "count _a" if big else "_a"), ["set", str(n), v.tok],
                           {"r": "count_after_set", "old": str(n)} if big else {"r": "after_set", "prints": prints(n), "val": "77"},
                           defect="array-size-limit" if big else "float-int-casts"))
        for a in [[], [vint(1)], [vint(1), vint(2), vint(3)]] + [[o, vint(1)] for o in odd] + [[vint(1), o] for o in odd[:2]]:
            v = varr(a)
            val = a[1].prt if len(a) == 2 and a[1].prt else "77"
            cs.append(Case("set", "_a = %s; _a set %s; _a" % (arr_sqf(n), v.sqf), ["set", str(n), v.tok],
                           {"r": "after_set", "prints": prints(n), "val": val}))
    # ---- pushBack, pushBackUnique, append
    for n in [0, 1, 5, 1000]:
        cs.append(Case("pushBack", "_a = %s; _a pushBack 7" % arr_sqf(n), ["push_back", str(n)], {"r": "num"}))
        cs.append(Case("pushBackUnique", "_a = %s; _a pushBackUnique -7" % arr_sqf(n), ["push_back_unique", str(n), "0"], {"r": "num"}))
        if n:
            cs.append(Case("pushBackUnique", "_a = %s; _a pushBackUnique 0" % arr_sqf(n), ["push_back_unique", str(n), "1"], {"r": "num"}))
        for m in [0, 3, 1000]:
            cs.append(Case("append", "_a = %s; _a append %s; count _a" % (arr_sqf(n), arr_sqf(m)), ["append", str(n), str(m)],
                           {"r": "const", "v": str(n + m)}))
    # ---- sort
    numpool = [fin(0), fin(1), fin(-1), fin(2.5), fin(1e20, "1e20"), INF, NINF, NAN, fin(3), fin(3), fin(0.5)]
    strpool = ["", "a", "b", "ab", "B", "a", "zz", "\xe9"]

    def sort_arrays():
        out = [[], [vint(1)], [vstr("x")], [vbool(True), vbool(False)], [CODE, CODE], [vint(1), vstr("a")], [vstr("a"), vint(1), vint(2)],
               [varr([vint(1)]), vint(2)], [varr([vint(1)]), varr([vint(1), vint(2)])], [varr([vint(1)]), varr([vstr("a")])],
               [varr([]), varr([])], [varr([vbool(True)]), varr([vbool(False)])]]
        for k in ([2, 3, 5, 16, 17, 40, 100] if thorough else [2, 3, 17, 40]):
            for _ in range(25 if thorough else 3):
                out.append([vnum(rng.choice(numpool)) for _ in range(k)])
                out.append([vstr(rng.choice(strpool)) for _ in range(k)])
                out.append([varr([vnum(rng.choice(numpool)), vstr(rng.choice(strpool))]) for _ in range(k)])
                out.append([varr([vint(rng.randint(0, 2)), vbool(True), vint(rng.randint(0, 2))]) for _ in range(k)])
            out.append([varr([vint(1), vstr("a")])] * k)                                  # all rows equal
            out.append([varr([vint(i % 3)]) for i in range(k)])
        return out

    for a in sort_arrays():
        for flag in (True, False):
            v = varr(a)
            cs.append(Case("sort", "_a = %s; _a sort %s; _a" % (v.sqf, "true" if flag else "false"), ["sort", v.tok, "1" if flag else "0"],
                           {"r": "sorted", "toks": [x.tok for x in a], "flag": flag}, defect="sort-comparator"))
    # ---- sort: rows whose NESTED arrays (depth 2 and 3) differ in length, element type or depth.  sort's structure check
    # looks at one level only (every row has the size and element types of row 0); whatever compares rows must not
    # trust it any deeper.  Ordered pairs give both row orders (std::sort hands the later row over first), the longer
    # lists make it compare in both directions; prefixes of one another keep a recursing comparison going to the end.
    P = [vint(1), vint(2), vint(3)]
    inner = [varr([]), varr(P[:1]), varr(P[:2]), varr(P), varr([vstr("a")]), varr([vint(1), vstr("a")]), varr([varr([vint(1)])]),
             varr([varr(P)]), varr([vnum(NAN)])]
    shapes = [lambda x: [x], lambda x: [vint(1), x], lambda x: [x, vstr("leaf")], lambda x: [varr([x])],
              lambda x: [vstr("k"), varr([vint(1), x])]]
    nested = []
    for sh in shapes:
        for x in inner:
            for y in inner:
                if x is not y:
                    nested.append([varr(sh(x)), varr(sh(y))])
    for k in ([3, 5, 17, 20, 40] if thorough else [3, 5, 17, 20]):
        for sh in shapes:
            for _ in range(6 if thorough else 1):
                nested.append([varr(sh(rng.choice(inner[:4]))) for _ in range(k)])
                nested.append([varr(sh(rng.choice(inner))) for _ in range(k)])
    for a in nested:
        for flag in (True, False):
            v = varr(a)
            cs.append(Case("sort-nested", "_a = %s; _a sort %s; _a" % (v.sqf, "true" if flag else "false"), ["sort", v.tok, "1" if flag else "0"],
                           {"r": "sorted", "toks": [x.tok for x in a], "flag": flag}, defect="sort-comparator"))
    # ---- param / params
    inputs = [[], [vint(5)], [vint(5), vstr("s")], [varr([vint(1), vint(2)])], [vint(5), varr([]), vbool(True), CODE]]
    descr = [[], [vint(0)], [vint(1)], [vint(7)], [vnum(fin(-1))], [vnum(fin(0.9))], [vnum(fin(1e20, "1e20"))], [vnum(NAN)], [vnum(INF)],
             [vstr("a")], [vint(0), vint(9)], [vint(3), vint(9)], [vint(0), vint(9), varr([])], [vint(0), vint(9), varr([vint(0)])],
             [vint(0), vint(9), varr([vstr("")])], [vint(1), vint(9), varr([vstr(""), varr([])])], [vint(0), vint(9), vint(1)],
             [vint(0), vint(9), varr([]), vint(2)], [vint(0), vint(9), varr([varr([])]), vint(2)], [vint(0), vint(9), varr([varr([])]), varr([vint(2)])],
             [vint(0), vint(9), varr([vint(0)]), varr([vint(2), vstr("x")])], [vint(0), vint(9), varr([]), vstr("x")],
             [vint(0), vint(9), varr([varr([])]), varr([])], [vint(0), vint(9), varr([]), varr([]), vint(1)], [vint(5), vint(9), varr([]), vint(1)]]
    for i in inputs:
        for d in descr:
            iv, dv = varr(i), varr(d)
            dflt = d[1].prt if len(d) >= 2 else "nil"
            cs.append(Case("param", "%s param %s" % (iv.sqf, dv.sqf), ["param", iv.tok, dv.tok],
                           {"r": "elem", "prints": [x.prt for x in i], "default": dflt},
                           defect="param-scalar-as-array" if len(d) >= 4 else "float-int-casts"))
    cs.append(Case("param", "7 param [0]", ["param", varr([vint(7)]).tok, varr([vint(0)]).tok], {"r": "elem", "prints": ["7"]}))
    cs.append(Case("param", '"s" param [1, 3]', ["param", varr([vstr("s")]).tok, varr([vint(1), vint(3)]).tok],
                   {"r": "elem", "prints": ['"s"'], "default": "3"}))
    fmts = [[], [vstr("_a")], [vstr("_a"), vstr("_b"), vstr("_c")], [vint(1)], [varr([])], [varr([vint(1)])], [varr([vstr("_a")])],
            [varr([vstr("_a"), vint(0)])], [varr([vstr("_a"), vint(0), vint(1)])], [varr([vstr("_a"), vint(0), varr([vstr("")])])],
            [varr([vstr("_a"), varr([]), varr([vstr("")]), vint(1)])], [varr([vstr("_a"), vint(0), varr([varr([])]), varr([vint(1), vstr("x")])])],
            [varr([vstr("_a"), vint(0), varr([]), vstr("x")])], [varr([vstr("_a"), vint(0), varr([]), varr([vint(2)])]), vstr("_b"), CODE, varr([])],
            [vstr(""), varr([vstr("")])], [varr([vstr("_a"), varr([vint(1)]), varr([vint(0)]), vint(3)])]]
    for i in inputs:
        for d in fmts:
            iv, dv = varr(i), varr(d)
            cs.append(Case("params", "%s params %s" % (iv.sqf, dv.sqf), ["params", iv.tok, dv.tok], {"r": "none"}))
    # ---- format
    fstrings = ["", "abc", "%", "%%", "a%", "%1", "%2", "%0", "%1%1%1", "a%1b%2c%3", "%a", "%1%", "%99999999999", "%2147483647", "%2147483648",
                "%00000000001", "%1x%", "%%1", "% 1", "%12", "%9", "x" * 300 + "%1" * 50]
    fargs = [[], [vint(5)], [vstr('q"q'), varr([vint(1), vstr("a")])], [vbool(True), CODE, vint(3), vint(4), vint(5), vint(6), vint(7), vint(8), vint(9), vint(10), vint(11), vint(12)]]
    for s in fstrings:
        for a in fargs:
            full = [vstr(s)] + a
            v = varr(full)
            plens = [len(s)] + [len(x.prt) if not x.tok.startswith("S") else len(unquote(x.prt)) for x in a]
            cs.append(Case("format", "format %s" % v.sqf, ["format", v.tok, ",".join(str(p) for p in plens)], {"r": "strlen"},
                           defect="format-stoi"))
    for a in [[], [vint(1)], [CODE, vstr("%1")], [varr([])]]:
        v = varr(a)
        cs.append(Case("format", "format %s" % v.sqf, ["format", v.tok, "-"], {"r": "strlen"}))
    # ---- toArray / toString / splitString
    for s in ["", "a", "abc", "x" * 500]:
        cs.append(Case("toArray", "count toArray %s" % vstr(s).sqf, ["to_array", str(len(s))], {"r": "const", "v": str(len(s))}))
    ts_pool = [fin(65), fin(66.9), fin(97), fin(126), fin(300), fin(-1), fin(1e10, "1e10"), fin(1e20, "1e20"), INF, NINF, NAN, fin(2147483648), fin(-2147483904)]
    for _ in range(400 if thorough else 25):
        a = [rng.choice([vnum(rng.choice(ts_pool)), vnum(rng.choice(ts_pool[:4])), vnum(rng.choice(ts_pool[:4])), rng.choice(odd)])
             for _ in range(rng.choice([0, 1, 2, 4, 9]))]
        v = varr(a)
        cs.append(Case("toString", "toString %s" % v.sqf, ["to_string", v.tok], {"r": "none"}, defect="float-int-casts"))
    for s in ["", "a", "a,b", "a,b,,c", ",,,", ",a", "a,", "abc def;ghi", "x" * 100]:
        for d in ["", ",", ";, ", "a", "xyz"]:
            cs.append(Case("splitString", "%s splitString %s" % (vstr(s).sqf, vstr(d).sqf),
                           ["split_string", V.hx(s.encode()), V.hx(d.encode())], {"r": "tokens", "s": s}))
    # ---- selectMax / selectMin / selectRandom / toFixed
    mm = [[], [vint(1)], [vint(1), vbool(True), vstr("a")], [vnum(NAN), vint(2)], [CODE, OBJNULL, varr([])], [vnum(INF), vnum(NINF)], ints(50)]
    for a in mm:
        v = varr(a)
        for op in ("selectMax", "selectMin"):
            cs.append(Case(op, "%s %s" % (op, v.sqf), ["select_minmax", v.tok], {"r": "none"}))
    for n in [0, 1, 2, 3, 7, 200]:
        cs.append(Case("selectRandom", "selectRandom %s" % arr_sqf(n), ["select_random", str(n), str(RAND1)],
                       {"r": "elem", "prints": prints(n)}, defect="selectrandom-empty"))
    for f in IDX_POOL + [fin(19), fin(20), fin(21), fin(20.9)]:
        cs.append(Case("toFixed", "toFixed %s; str 0.5" % f.sqf, ["to_fixed_unary", f.tok], {"r": "fixed_unary"}, defect="float-int-casts"))
        cs.append(Case("toFixed", "1.25 toFixed %s" % f.sqf, ["to_fixed_binary", f.tok], {"r": "fixed_binary"}, defect="float-int-casts"))
        # the same print mode on numbers with many digits in front of the point (the longest texts a scalar can print as)
        for lit in ("1e38", "(-1e30)", "3.4e38", "1e26", "(-3.4e38)", "16777216", "1e20"):
            xv = struct.unpack("f", struct.pack("f", float(lit.strip("()"))))[0]
            cs.append(Case("toFixed", "toFixed %s; str %s" % (f.sqf, lit), ["to_fixed_unary", f.tok], {"r": "fixed_unary", "x": xv},
                           defect="float-int-casts"))
    # ---- configClasses / configProperties
    for _ in range(200 if thorough else 14):
        k = rng.choice([0, 1, 2, 3, 6])
        names = ["c%d" % i for i in range(k)]
        body, children, live = [], [], {}
        for i, nm in enumerate(names):
            body.append("class %s { v = %d; };" % (nm, i))
            children.append(i + 1)
            live[nm] = len(children) - 1
        for nm in names:
            if rng.random() < 0.4:
                body.append("delete %s;" % nm)
                children[live[nm]] = -1
        if rng.random() < 0.3 and names:
            nm = rng.choice(names)
            if children[live[nm]] == -1:
                body.append("class %s { w = 1; };" % nm)          # declared again after the delete: appended
                children.append(100 + live[nm])
        cfg = "class A { %s }; class E {};" % " ".join(body)
        idn = {}
        for nm in names:
            idn[str(live[nm] + 1)] = nm
            idn[str(100 + live[nm])] = nm
        ids = ",".join(str(c) for c in children) if children else "-"
        cs.append(Case("configClasses", '"true" configClasses (configFile >> "A")', ["cfg_iterate", ids, "1000"],
                       {"r": "walk", "names": idn}, config=cfg, defect="config-iterator"))
        cs.append(Case("configProperties", 'configProperties [configFile >> "A", "true", true]', ["cfg_iterate", ids, "1000"],
                       {"r": "walk", "names": idn}, config=cfg, defect="config-iterator"))
    cs.append(Case("configClasses", '"true" configClasses (configFile >> "E")', ["cfg_iterate", "-", "1000"], {"r": "walk", "names": {}},
                   config="class E {};", defect="config-iterator"))
    # ---- fromAssembly__
    REG = "select"
    asm = [(["callBinary select"], "I"), (["callBinary SELECT"], "I"), (["CALLBINARY Select"], "I"), (["callBinary nosuchop"], "I"),
           (["callBinary"], "I"), (["callBinary "], "I"), (["makeArray 0"], "V" + fin(0).tok), (["makeArray 1"], "V" + fin(1).tok),
           (["push 1", "push 2", "makeArray 2"], "V" + fin(2).tok), (["push 1", "makeArray 2"], "V" + fin(2).tok),
           (["makeArray x"], "I"), (["makeArray"], "I"), (["makeArray "], "I"), (["makeArray -1"], "V" + fin(-1).tok),
           (["makeArray 1e30"], "V" + fin(1e30, "1e30").tok), (["makeArray 1e99"], "R"), (["makeArray nan"], "VQnan"),
           (["makeArray 99999999999999999999"], "V" + fin(1e20, "1e20").tok), (["makeArray 1.5"], "V" + fin(1.5).tok),
           (["assignTo"], "I"), (["assignTo "], "I"), (['assignTo "x"'], "I"), (['assignTo "'], "I"), (["assignTo x"], "I"),
           (["assignToLocal"], "I"), (['assignToLocal "_x"'], "I"), (["getVariable"], "I"), (['getVariable "a""b"'], "I"),
           (["endStatement"], "I"), (["callUnary str"], "I"), (["callNular nil"], "I"), ([""], "I"), ([" "], "I"), (["bogus 1"], "I"),
           (["push 1"], "I"), (["endStatement", "endStatement x"], "I")]
    for instrs, sf in asm:
        v = varr([vstr(i) for i in instrs])
        cs.append(Case("fromAssembly", "fromAssembly__ %s" % v.sqf, ["from_assembly", v.tok, sf, V.hx(REG.encode())], {"r": "none"},
                       defect="fromassembly-decode"))
    for a in [[vint(1)], [vstr("endStatement"), CODE], []]:
        v = varr(a)
        cs.append(Case("fromAssembly", "fromAssembly__ %s" % v.sqf, ["from_assembly", v.tok, "I", V.hx(REG.encode())], {"r": "none"}))
    # ---- BOM sniff of read_file_from_disk
    marks = [b"\xef\xbb\xbf", b"\xfe\xff", b"\xfe\xfe", b"\x00\x00\xff\xff", b"\xff\xff\x00\x00", b"\x2b\x2f\x76\x38", b"\x2b\x2f\x76\x2f",
             b"\xf7\x64\x4c", b"\xdd\x73\x66\x73", b"\x0e\xfe\xff", b"\xfb\xee\x28", b"\xfb\xee\x28\xff", b"\x84\x31\x95\x33"]
    files = [b"", b"a", b"ab", b"hello world"]
    for m in marks:
        for cut in range(1, len(m) + 1):
            files += [m[:cut], m[:cut] + b"x", m[:cut] + b"xyz"]
    for _ in range(3000 if thorough else 40):
        files.append(bytes(rng.choice([0, 0xef, 0xbb, 0xbf, 0xfe, 0xff, 0x2b, 0x2f, 0x76, 0xfb, 0xee, 0x28, 0x84, 0x31, 0x41]) for _ in range(rng.choice([1, 2, 3, 4, 5]))))
    for fb in files:
        cs.append(Case("bom", None, ["bom", V.hx(fb)], None, file=fb, defect="bom-short-file"))
    return cs


# ------------------------------------------------------------------------------------------------ second list of guard models
CFG_CAR = "class CfgVehicles { class Car { transportSoldier = 3; }; };"
LIVE_OBJ = Vl('("Car" createVehicle [0,0,0])', "O2", None)


def vcode(n):
    """a CODE value that leaves the number n"""
    return Vl("{%d}" % n, "O1", str(n))


def gen_cases2(rng, thorough):
    """operators of coq/Ops/Guards2.v: matrices, vectors, IF then ARRAY, private, getVariable / setVariable with an array,
    markers, CONFIG select SCALAR, callExtension with an argument array"""
    cs = []
    odd = [vstr("a"), vbool(True), varr([]), CODE, OBJNULL, vnum(NAN)]

    # ---- matrixTranspose / matrixMultiply
    def mat(r, c, base=1):
        return [[vint(base + i * c + j) for j in range(c)] for i in range(r)]

    def mv(rows):
        return varr([varr(r) if isinstance(r, list) else r for r in rows])

    good = [mat(1, 1), mat(1, 3), mat(3, 1), mat(2, 3), mat(3, 2), mat(3, 3), mat(5, 4), mat(1, 40), mat(40, 1), mat(2, 2, -3)]
    bad = [[], [[]], [[], []], [vint(1)], [[vint(1)], vint(2)], [vint(2), [vint(1)]], [[vint(1), vint(2)], [vint(3)]], [[vint(1)], [vint(2), vint(3)]],
           [[vint(1), vint(2)], [vint(3), vint(4), vint(5)]], [[vint(1), vstr("a")]], [[vstr("a")]], [[vint(1)], [vbool(True)]], [[vint(1)], [varr([vint(1)])]],
           [[vint(1), vint(2)], []], [vstr("a")], [[vint(1), vint(2)], vstr("x")], [CODE], [[CODE]], [[vint(1)], [OBJNULL]], [[vint(1), vint(2)], OBJNULL],
           [[vnum(NAN), vnum(INF)]], [[varr([])]], [varr([]), [vint(1)]]]
    mats = [m for m in good] + bad
    for _ in range(300 if thorough else 40):
        r, c = rng.choice([1, 2, 3, 4]), rng.choice([1, 2, 3, 4])
        m = mat(r, c)
        how = rng.choice(["cell", "row", "short", "long", "drop"])
        i, j = rng.randrange(r), rng.randrange(c)
        if how == "cell":
            m[i][j] = rng.choice(odd)
        elif how == "row":
            m[i] = rng.choice(odd)
        elif how == "short":
            m[i] = m[i][:-1]
        elif how == "long":
            m[i] = m[i] + [vint(0)]
        else:
            del m[i]
        mats.append(m)
    for m in mats:
        v = mv(m)
        cs.append(Case("matrixTranspose", "matrixTranspose %s" % v.sqf, ["matrix_transpose", v.tok], {"r": "shape"}))
    pairs = [(a, b) for a in good[:7] for b in good[:7]] + [(a, b) for a in bad for b in (good[0], good[3])] + [(b, a) for a in bad for b in (good[0], good[4])]
    pairs += [(a, b) for a in mats[len(good) + len(bad):] for b in (good[3], good[4])][:60]
    for a, b in pairs:
        va, vb = mv(a), mv(b)
        cs.append(Case("matrixMultiply", "%s matrixMultiply %s" % (va.sqf, vb.sqf), ["matrix_multiply", va.tok, vb.tok], {"r": "shape"}))

    # ---- the vector operators
    vecs = [[vint(1), vint(2), vint(3)], [], [vint(1)], [vint(1), vint(2)], [vint(1), vint(2), vint(3), vint(4)], [vint(1), vstr("a"), vint(3)],
            [vstr("a"), vstr("b"), vstr("c")], [vint(1), vint(2), OBJNULL], [vnum(NAN), vnum(INF), vnum(NINF)], [varr([vint(1)]), vint(2), vint(3)],
            [vbool(True), vint(2), vint(3)], [vint(0), vint(0), vint(0)], [vnum(fin(1e20, "1e20")), vnum(fin(-1e30, "-1e30")), vint(5)], [CODE, CODE, CODE]]
    binary = [("vectorAdd", "at"), ("vectorDiff", "at"), ("vectorCrossProduct", "at"), ("vectorCos", "conv"), ("vectorDistance", "conv"),
              ("vectorDistanceSqr", "conv"), ("vectorDotProduct", "conv")]
    allpairs = [(a, b) for a in vecs for b in vecs]
    for op, kind in binary:
        for a, b in (allpairs if thorough else rng.sample(allpairs, 45) + [(vecs[0], vecs[0]), (vecs[0], vecs[3]), (vecs[3], vecs[0])]):
            va, vb = varr(a), varr(b)
            cs.append(Case("vector", "%s %s %s" % (va.sqf, op, vb.sqf), ["vec3_binary", kind, va.tok, vb.tok], {"r": "nil_or_value"}))
    for a in vecs:
        va = varr(a)
        for op, kind in (("vectorMagnitude", "conv"), ("vectorMagnitudeSqr", "conv"), ("vectorNormalized", "at")):
            cs.append(Case("vector", "%s %s" % (op, va.sqf), ["vec3_unary", kind, va.tok], {"r": "nil_or_value"}))
        for f in (fin(2), NAN, fin(0)):
            cs.append(Case("vector", "%s vectorMultiply %s" % (va.sqf, f.sqf), ["vec3_unary", "at", va.tok], {"r": "nil_or_value"}))

    # ---- IF then ARRAY
    els = [vcode(10), vcode(20), vint(1), vstr("s"), varr([]), OBJNULL, vbool(True)]
    arrs = [[a, b] for a in els for b in els] + [[], [vcode(10)], [vcode(10), vcode(20), vcode(30)], [vint(1)], [vint(1), vint(2), vint(3)]]
    for a in arrs:
        for cond in (True, False):
            v = varr(a)
            cs.append(Case("if-then-array", "if %s then %s" % ("true" if cond else "false", v.sqf), ["then_if_array", "1" if cond else "0", v.tok],
                           {"r": "elem", "prints": [x.prt if x.prt is not None else "?" for x in a]}))

    # ---- private ARRAY
    for a in [[], [vstr("_a")], [vstr("_a"), vstr("_b")], [vstr("_a"), vint(1)], [vint(1), vint(2)], [varr([]), vstr("_a"), CODE], [vstr("_a")] * 30,
              [OBJNULL], [vstr("_a"), vstr("_a")], [varr([vstr("_a")])], [vbool(False), vstr("_b"), vnum(NAN)]]:
        v = varr(a)
        cs.append(Case("private", "private %s" % v.sqf, ["private_array", v.tok], {"r": "const", "v": "nil"}))

    # ---- NAMESPACE getVariable ARRAY / setVariable ARRAY
    heads = [vstr("vq"), vstr("vz"), vint(1), varr([]), CODE, OBJNULL, vbool(True)]
    tails = [vint(5), vstr("d"), varr([vint(1), vint(2)]), vbool(False)]
    nsarrs = [[h, t] for h in heads for t in tails] + [[], [vstr("vq")], [vstr("vz")], [vint(1)], [vstr("vq"), vint(5), vint(6)], [vstr("vz"), vint(5), vint(6)], [vint(1), vint(2), vint(3)]]
    for a in nsarrs:
        v = varr(a)
        for ns in ("missionNamespace", "uiNamespace"):
            found = ns == "missionNamespace" and len(a) >= 1 and a[0].tok == vstr("vq").tok
            mp = {"nil": "nil", "other": "7"}
            if len(a) == 2:
                mp["elem:1"] = a[1].prt
            cs.append(Case("getVariable-ns", "vq = 7; %s getVariable %s" % (ns, v.sqf), ["ns_getvar", "1" if found else "0", v.tok], {"r": "by_res", "map": mp}))
        mp = {"nil": "nil"}
        if len(a) == 2:
            mp["stored:1:2"] = a[1].prt
        name = unquote(a[0].prt) if a and a[0].tok.startswith("S") else "vq"
        cs.append(Case("setVariable-ns", "missionNamespace setVariable %s; %s" % (v.sqf, name), ["ns_setvar", v.tok], {"r": "by_res", "map": mp}))

    # ---- markers
    mk = 'createMarker ["m", %s]; ' % LIVE_OBJ.sqf
    posarrs = vecs + [[vint(4), vint(5)], [vint(4), vstr("a")], [vstr("a"), vint(5)], [vint(4), vint(5), vstr("z")], [vint(4), vint(5), vint(6), vint(7)],
                      [vnum(NAN), vnum(INF)], [varr([]), varr([])]]

    def nums(a):
        return [x.prt for x in a]

    for a in posarrs:
        v = varr(a)
        p3 = "[" + ",".join((nums(a) + ["0"])[:3]) + "]" if len(a) >= 2 and all(x.prt is not None for x in a) else None
        cs.append(Case("setMarkerPos", mk + '"m" setMarkerPos %s; getMarkerPos "m"' % v.sqf, ["set_marker_pos", "1", v.tok],
                       {"r": "by_res", "map": {"stored": norm_print(p3) if p3 else None}}, config=CFG_CAR))
        cs.append(Case("setMarkerPos", '"m" setMarkerPos %s' % v.sqf, ["set_marker_pos", "0", v.tok], {"r": "const", "v": "nil"}))
        p2 = "[" + ",".join(nums(a)[:2]) + "]" if len(a) >= 2 and all(x.prt is not None for x in a) else None
        cs.append(Case("setMarkerSize", mk + '"m" setMarkerSize %s; getMarkerSize "m"' % v.sqf, ["set_marker_size", "1", v.tok],
                       {"r": "by_res", "map": {"stored": norm_print(p2) if p2 else None}}, config=CFG_CAR))
        cs.append(Case("setMarkerSize", '"m" setMarkerSizeLocal %s' % v.sqf, ["set_marker_size", "0", v.tok], {"r": "const", "v": "nil"}))
    cm = [[vstr("m"), LIVE_OBJ], [vstr("m"), OBJNULL], [vstr("m"), varr([vint(1), vint(2)])], [vstr("m"), varr([vint(1), vint(2), vint(3)])],
          [vstr("m"), varr([vint(1)])], [vstr("m"), varr([])], [vstr("m"), varr([vint(1), vint(2), vint(3), vint(4)])], [vstr("m"), varr([vstr("a"), vint(2)])],
          [vstr("m"), varr([vint(1), vint(2), OBJNULL])], [vstr("m"), vint(1)], [vstr("m")], [], [vstr("m"), LIVE_OBJ, vint(1)], [vint(1), LIVE_OBJ],
          [vint(1), varr([vint(1), vint(2)])], [LIVE_OBJ, vstr("m")], [vstr("m"), vstr("s")], [varr([]), varr([])], [OBJNULL, OBJNULL], [vstr(""), LIVE_OBJ],
          [vstr("m"), varr([vnum(NAN), vnum(INF)])], [CODE, CODE, CODE]]
    for a in cm:
        v = varr(a)
        named_m = bool(a) and a[0].tok == vstr("m").tok
        null = len(a) == 2 and a[1] is OBJNULL
        mp = {"nil": "nil", "other": '""'}
        if a and a[0].tok.startswith("S"):
            mp["stored"] = a[0].prt
        cs.append(Case("createMarker", "createMarker %s" % v.sqf, ["create_marker", "1" if null else "0", "0", v.tok], {"r": "by_res", "map": mp}, config=CFG_CAR))
        cs.append(Case("createMarker", mk + "createMarker %s" % v.sqf, ["create_marker", "1" if null else "0", "1" if named_m else "0", v.tok],
                       {"r": "by_res", "map": mp}, config=CFG_CAR))

    # ---- CONFIG select SCALAR
    sel_idx = [fin(-2147483904), fin(-1), fin(-0.5), fin(0), fin(0.5), fin(0.99), fin(1), fin(1.5), fin(2), fin(2.9), fin(3), fin(4), fin(5), fin(6), fin(7),
               fin(2147483520), fin(2147483648), fin(1e10, "1e10"), fin(1e20, "1e20"), INF, NINF, NAN]
    for _ in range(60 if thorough else 8):
        k = rng.choice([0, 1, 2, 3, 6])
        names = ["c%d" % i for i in range(k)]
        body, children = [], []
        for i, nm in enumerate(names):
            body.append("class %s { v = %d; };" % (nm, i))
            children.append(i + 1)
        idn = {"-1": ""}
        for i, nm in enumerate(names):
            idn[str(i + 1)] = nm
            if rng.random() < 0.4:
                body.append("delete %s;" % nm)
                children[i] = -1
                if rng.random() < 0.4:
                    body.append("class %s { w = 1; };" % nm)      # declared again after the delete: a new slot at the end
                    children.append(100 + i)
                    idn[str(100 + i)] = nm
        cfg = "class A { %s }; class E {};" % " ".join(body)
        ids = ",".join(str(c) for c in children) if children else "-"
        for f in sel_idx:
            cs.append(Case("config-select", '(configFile >> "A") select %s' % f.sqf, ["cfg_select", "0", ids, f.tok],
                           {"r": "by_res", "map": dict([("num:" + i, n) for i, n in idn.items()] + [("nil", "")])}, config=cfg, defect="float-int-casts"))
    for f in sel_idx[:8] + [NAN, INF]:
        cs.append(Case("config-select", "configNull select %s" % f.sqf, ["cfg_select", "1", "-", f.tok], {"r": "none"}, defect="float-int-casts"))
        cs.append(Case("config-select", '(configFile >> "E") select %s' % f.sqf, ["cfg_select", "0", "-", f.tok], {"r": "by_res", "map": {"nil": ""}},
                       config="class E {};", defect="float-int-casts"))

    # ---- STRING callExtension ARRAY (no such library: the call ends where the library would be loaded)
    ce = [[vstr("f"), varr([vint(1), vint(2)])], [vstr("f")], [], [vstr("f"), vint(1)], [vstr("f"), vstr("s")], [vstr("f"), vbool(True)], [vstr("f"), varr([CODE])],
          [vstr("f"), CODE], [vstr("f"), OBJNULL], [vstr("f"), varr([vint(1), OBJNULL, vint(2)])], [vint(1), varr([vint(1)])], [varr([]), varr([])], [CODE, CODE],
          [vstr("f"), varr([vint(1)]), vint(3)], [vstr("f"), CODE, vint(3)], [vint(1), vint(2), vint(3)], [vstr("f"), varr([vint(0)] * 2048)],
          [vstr("f"), varr([vint(0)] * 2049)], [vstr("f"), varr([vint(0)] * 2049), vint(1)], [vstr("f"), varr([CODE] * 2049)],
          [vstr("f"), varr([varr([vint(1), vint(2)]), vstr("a"), vbool(True), vnum(NAN)])], [vstr("f"), varr([])], [vstr(""), varr([])]]
    for a in ce:
        v = varr(a)
        for lib, hp in (("verif_no_such_extension", "0"), ("no/such", "1"), ("no\\such", "1")):
            cs.append(Case("callExtension", '"%s" callExtension %s' % (lib, v.sqf), ["callext_args", hp, "0", v.tok],
                           {"r": "by_res", "map": {"nil": "nil", "other": '""', "num:201": '["",0,201]', "num:101": '["",0,101]', "num:102": '["",0,102]',
                                                   "num:501": '["",0,501]'}}))
    return cs


# ------------------------------------------------------------------------------------------------ comparison
CRASHY = ("CRASH", "TIMEOUT", "OOM", "EXCEPTION", "EXIT", "HARNESS-LOST", "HARNESS")


def model_float(tok):
    if tok == "Qnan":
        return float("nan")
    if tok == "Qpinf":
        return float("inf")
    if tok == "Qninf":
        return float("-inf")
    return float(Fraction(int(tok[1:]), 1 << 149))


def sort_key(tok):
    """key of one element under the repaired comparator: NaN first, rows lexicographic, other types ignored"""
    if tok.startswith("N") or tok.startswith("Q"):
        x = model_float(tok)
        return (0, (0, 0.0) if x != x else (1, x))
    if tok.startswith("S"):
        return (1, V.unhx(tok[1:]))
    return (2, 0)


def split_top(tok):
    """elements of an A(...) token"""
    assert tok.startswith("A(") and tok.endswith(")")
    body, out, depth, cur = tok[2:-1], [], 0, ""
    for ch in body:
        if ch == "," and depth == 0:
            out.append(cur); cur = ""
        else:
            depth += ch == "("
            depth -= ch == ")"
            cur += ch
    if cur:
        out.append(cur)
    return out


def elem_key(tok):
    if tok.startswith("A("):
        return (3, tuple(sort_key(t) for t in split_top(tok)))
    return sort_key(tok)


def parse_print_array(v):
    """top-level elements of a printed array (strings may contain commas and brackets)"""
    if not (v.startswith("[") and v.endswith("]")):
        return None
    body, out, depth, cur, instr = v[1:-1], [], 0, "", False
    i = 0
    while i < len(body):
        ch = body[i]
        if instr:
            cur += ch
            if ch == '"':
                if i + 1 < len(body) and body[i + 1] == '"':
                    cur += '"'; i += 1
                else:
                    instr = False
        elif ch == '"':
            instr = True; cur += ch
        elif ch == "," and depth == 0:
            out.append(cur); cur = ""
        else:
            depth += ch in "[{"
            depth -= ch in "]}"
            cur += ch
        i += 1
    if cur:
        out.append(cur)
    return out


NEGATIVE_CODES = {"1:60011", "2:60012", "1:60016", "2:60017"}      # NegativeIndex(Weak), NegativeSize(Weak)
NEGATIVE_ARG = re.compile(r"N-|Qninf|Qnan")


def compare(case, impl, model):
    """-> None when the implementation behaves as the model says, else (what, is_crash)"""
    if impl.split("\t")[0].split(";")[0].split(" ")[0] in CRASHY or impl.startswith("HARNESS"):
        return ("the call killed the process or left the VM by a C++ exception: " + impl.replace("\t", " "), True)
    if case.file is not None:
        if model == "UB":
            return ("the model of get_bom_skip reads behind the buffer here", True)
        k = int(model.split(":")[1])
        exp = "OK;" + V.hx(case.file[k:])
        return None if impl == exp else ("read_file_from_disk returned %s, the model skips %d bytes (%s)" % (impl, k, exp), False)
    m = model.split(";")
    if m[0] != "R":
        return ("the guard model of the code under test ends in %s on these arguments" % model, True)
    f = impl.split(";")
    if len(f) != 3:
        return ("unparseable harness output " + impl, False)
    codes = m[1]
    err = codes != "-" and any(c.split(":")[0] in ("0", "1") for c in codes.split(","))
    exp_rc, exp_codes = ("2", codes + ",0:60001") if err else ("-1", codes)
    if f[0] != exp_rc or f[1] != exp_codes:
        # property-level: a diagnostic about a NEGATIVE index / size although every number among the arguments is >= 0
        # (no negative number, no -inf, no NaN): a float -> int conversion left the range of int (undefined; the usual
        # symptom is INT_MIN for a value at or above 2^31)
        neg = set(f[1].split(",")) & NEGATIVE_CODES
        if neg and not (set(exp_codes.split(",")) & NEGATIVE_CODES) and not NEGATIVE_ARG.search("\t".join(case.model)):
            return ("the operator reports a negative index / size (%s) although no argument is negative or NaN: a number at or above "
                    "2^31 was converted to a negative int (float -> int conversion outside the range of int); expected %s;%s, got %s;%s"
                    % (",".join(sorted(neg)), exp_rc, exp_codes, f[0], f[1]), True)
        return ("result class / diagnostics differ: implementation %s;%s, model %s;%s" % (f[0], f[1], exp_rc, exp_codes), False)
    if err:
        return None
    want = render_value(case.render, m[2], m[3])
    if want is None:
        return None
    got = None if f[2] == "NONE" else V.unhx(f[2]).decode("latin-1")
    if isinstance(want, tuple) and want[0] == "LEN":
        c = unquote(got) if got is not None else None
        if c is None or len(c) != want[1]:
            return ("format wrote %s, the model counts %d bytes" % (got if got is None else repr(got[:80]), want[1]), False)
        return None
    if isinstance(want, tuple) and want[0] == "SHAPE":
        rows = parse_print_array(got or "")
        if rows is None:
            return ("value differs: implementation %s, the model builds a %d x %d array" % (repr(got)[:120], want[1], want[2]), False)
        cols = [parse_print_array(x) for x in rows]
        if len(rows) != want[1] or any(c is None or len(c) != want[2] for c in cols):
            return ("value differs: implementation %s, the model builds a %d x %d array" % (repr(got)[:120], want[1], want[2]), False)
        return None
    if isinstance(want, tuple) and want[0] == "NOTNIL":
        if got is None or got == "nil":
            return ("value differs: implementation %s, the model answers with a value" % repr(got), False)
        return None
    if isinstance(want, tuple) and want[0] == "SORTED":
        r = want[1]
        if m[2] == "nil" and codes != "-":
            return None
        toks = r["toks"]
        if len(toks) <= 1:
            return None
        items = parse_print_array(got or "")
        if items is None or len(items) != len(toks):
            return ("sort left %s (not a permutation of the %d elements)" % (got, len(toks)), False)
        pos = {}
        for t in toks:
            pos.setdefault(norm_print(print_of_tok(t)), elem_key(t))
        got_prints = [norm_print(x) for x in items]
        if sorted(got_prints) != sorted(norm_print(print_of_tok(t)) for t in toks):
            return ("sort changed the elements: " + (got or "")[:200], False)
        ks = [pos[g] for g in got_prints]
        if any((a > b) if r["flag"] else (a < b) for a, b in zip(ks, ks[1:])):
            return ("sort left the elements out of order: " + (got or "")[:200], False)
        return None
    if got != want:
        # a printed value with control bytes in it: text the operator never wrote (a read past the end of a buffer)
        if got is not None and any(ord(ch) < 9 or ch == "\x7f" for ch in got) and not any(ord(ch) < 9 for ch in (want or "")):
            return ("the printed value contains bytes no printing of a value produces (a read past the end of the text): implementation %s, "
                    "expected %s (%s)" % (repr(got)[:120], repr(want)[:120], m[2]), True)
        return ("value differs: implementation %s, model %s (%s)" % (repr(got)[:120], repr(want)[:120], m[2]), False)
    return None


def print_of_tok(tok):
    if tok.startswith("A("):
        return "[" + ",".join(print_of_tok(t) for t in split_top(tok)) + "]"
    if tok.startswith("S"):
        return '"' + V.unhx(tok[1:]).decode("latin-1").replace('"', '""') + '"'
    if tok == "B1":
        return "true"
    if tok == "B0":
        return "false"
    if tok[0] in "NQ":
        x = model_float(tok)
        return "nan" if x != x else "%g" % x
    return "?"


def norm_print(s):
    return s.replace("-nan", "nan")


# ------------------------------------------------------------------------------------------------ sweep (exploration)
SWEEP_EXCLUDED = {
    # side effects outside the VM, process control, or blocking by design
    "exit__", "exitcode__", "quit__", "halt", "halt__", "breakpoint__", "vmctrl__", "sleep", "uisleep", "callextension",
    "copytoclipboard", "copyfromclipboard", "loadfile", "preprocessfile", "preprocessfilelinenumbers", "execvm", "execfsm",
    "savefile__", "writefile__", "connect__", "close__", "send__", "provide__", "allfiles__", "pwd__", "currentdirectory__",
    "diag_log", "systemchat", "hint", "hintsilent", "hintc", "help__", "cmds__", "cmdsimplemented__", "prettyprintsqf__",
    "parsesqf__", "parseconfig__", "mergefrom__", "respawn__", "remoteconnect__", "closeconnection__", "sqfvm__", "runtests__",
    "waituntil", "while", "for", "foreach", "spawn", "terminate",
}
CFG_SWEEP = ("class CfgVehicles { class Man { isMan = 1; }; class Car { transportSoldier = 3; }; class Empty {}; }; "
             "class A { x = 1; s = \"t\"; arr[] = {1,2}; class B { y = 2; }; }; "
             # a class whose slot list holds markers of deleted entries next to live ones (count of slots != count of entries)
             "class D { a = 1; delete b; class E {}; delete F; c = 2; }; class G : A { delete x; z = 3; };")
TYPE_POOL = {
    "SCALAR": ["0", "1", "-1", "0.5", "(-0.5)", "3", "2", "4", "5", "2147483648", "1e20", "(1e38 * 10)", "(-1e38 * 10)", "(sqrt -1)", "9999999"],
    "BOOL": ["true", "false"],
    "STRING": ['""', '"a"', '"abc def"', '"%1%2"', '"Car"', '"x"', '"' + "y" * 600 + '"', '"[1,2"', '"A"'],
    "ARRAY": ["[]", "[0]", "[1,2,3]", "[[]]", '["a",1,true]', "[[1,2],[3,4]]", "[objNull]", "[1e20,-1]", "[0,0,0]", '["Car",[0,0,0],[],0,"NONE"]',
              "[[[[[[]]]]]]", "[" + ",".join(str(i) for i in range(300)) + "]", "[(sqrt -1),(1e38 * 10)]", '[configFile,"true"]',
              '["a","b"]', "[{true},{false}]", "[objNull,grpNull,configNull,scriptNull]",
              "[nil]", '["a",nil,1]', "[1,nil]", "[[nil],nil]"],          # nil is a wrong element type everywhere
    "CODE": ["{}", "{true}", "{1}", "{_x}", "{nil}"],
    "OBJECT": ["objNull", '("Car" createVehicle [0,0,0])', '((createGroup west) createUnit ["Man",[0,0,0],[],0,"NONE"])'],
    "GROUP": ["grpNull", "(createGroup west)"],
    "CONFIG": ["configNull", "configFile", '(configFile >> "A")', '(configFile >> "A" >> "x")', '(configFile >> "CfgVehicles" >> "Empty")',
               '(configFile >> "D")', '(configFile >> "G")', '(configFile >> "D" >> "E")'],
    "SCRIPT": ["scriptNull", "([] spawn {})"],
    "SIDE": ["west", "sideUnknown", "civilian"],
    "NAMESPACE": ["missionNamespace", "uiNamespace"],
    "HASHMAP": ["createHashMap", "(createHashMapFromArray [[1,2],[\"a\",[]]])"],
    "TEXT": ['(text "a")', '(text "")'],
    "IF": ["(if true)", "(if false)"],
    "FOR": ['(for "_i")', '(for "_i" from 0 to 2)'],
    "SWITCH": ["(switch 1)"],
    "WHILE": ["(while {false})"],
    "WITH": ["(with missionNamespace)"],
    "EXCEPTION": ["(try {})"],
}
ANY_POOL = ["0", "(sqrt -1)", '""', '"a"', "[]", "[1,2,3]", "{}", "objNull", "grpNull", "configNull", "scriptNull", "true", "west",
            "missionNamespace", "createHashMap", '("Car" createVehicle [0,0,0])', "(1e38 * 10)", "[[],[[]]]"]
UNKNOWN_CODES = {"1:60076", "1:60077", "1:60078"}


def value_types():
    """dynamic type of every pool expression (ANY pool included), for the dispatch model"""
    t = {}
    for ty, vals in TYPE_POOL.items():
        for v in vals:
            t[v] = ty
    t.update({"0": "SCALAR", "(sqrt -1)": "SCALAR", "(1e38 * 10)": "SCALAR", '""': "STRING", '"a"': "STRING", "[]": "ARRAY", "[1,2,3]": "ARRAY",
              "{}": "CODE", "objNull": "OBJECT", "grpNull": "GROUP", "configNull": "CONFIG", "scriptNull": "SCRIPT", "true": "BOOL", "west": "SIDE",
              "missionNamespace": "NAMESPACE", "createHashMap": "HASHMAP", '("Car" createVehicle [0,0,0])': "OBJECT", "[[],[[]]]": "ARRAY"})
    return t


def pool_for(ty):
    if ty == "ANY":
        return ANY_POOL
    return TYPE_POOL.get(ty)


def byte_text_cases():
    """string operators on texts that are not well-formed UTF-8: multi-byte characters cut by the byte-wise `select`, bytes produced by
    toString, lone lead and continuation bytes - every one must come back (a value or a diagnostic), none may throw out of the VM"""
    u = lambda t: t.encode("utf-8").decode("latin-1")          # the harness receives latin-1 encoded text: this sends the UTF-8 bytes
    texts = ['("a%s" select [0,2])' % u("\u00e4"), '("%s" select [0,1])' % u("\u20ac"), '("%s" select [0,2])' % u("\u20ac"),
             '("%s" select [1,1])' % u("\u20ac"), '("x%s" select [0,2])' % u("\U0001F600"), '("x%s" select [0,4])' % u("\U0001F600"),
             "(toString [228])", "(toString [195])", "(toString [-30])", "(toString [226,130])", "(toString [240,159,152])",
             "(toString [97,255])", "(toString [128])", "(toString [191,191])", '"%s"' % u("a\u00e4\u20ac")]
    ops_u = ["toArray", "count", "toLower", "toUpper", "str", "parseNumber", "reverse", "text"]
    ops_b = [("find", '"a"', "STRING"), ("splitString", '"a"', "STRING"), ("select", "[0,1]", "ARRAY"), ("select", "[1]", "ARRAY"),
             ("in", '"ab"', "STRING"), ("+", '"z"', "STRING"), ("isEqualTo", '"a"', "STRING"), ("==", '"a"', "STRING")]
    out = []
    for t in texts:
        for o in ops_u:
            out.append(("U", o.lower(), "-", "STRING", "%s %s" % (o, t), ["dispatch_u", o.lower(), "STRING"]))
        for o, rhs, ty in ops_b:
            out.append(("B", o.lower(), "STRING", ty, "%s %s %s" % (t, o, rhs), ["dispatch_b", o.lower(), "STRING", ty]))
    return out


def sweep_cases(rng, registry, per_sig, only=None):
    """-> list of (kind, name, left type, right type, sqf, model line fields); unreachable = signatures without pool"""
    nu, un, bi = registry
    out, unreachable, excluded = [], [], []
    vt = value_types()
    # the few signatures over configs always meet every config of the pool (classes with deleted entries, properties, the
    # null config) with every other operand
    cap = lambda n, *tys: max(n, 160) if "CONFIG" in tys else n
    for n in nu:
        if n in SWEEP_EXCLUDED:
            excluded.append(("N", n)); continue
        out.append(("N", n, "-", "-", n, ["dispatch_n", n]))
    for n, r in un:
        if n in SWEEP_EXCLUDED:
            excluded.append(("U", n, r)); continue
        pr = pool_for(r)
        if not pr:
            unreachable.append(("U", n, r)); continue
        for v in (pr if len(pr) <= cap(per_sig, r) else rng.sample(pr, cap(per_sig, r))):
            out.append(("U", n, "-", r, "%s %s" % (n, v), ["dispatch_u", n, vt[v]]))
    for n, l, r in bi:
        if n in SWEEP_EXCLUDED:
            excluded.append(("B", n, l, r)); continue
        pl, pr = pool_for(l), pool_for(r)
        if not pl or not pr:
            unreachable.append(("B", n, l, r)); continue
        pairs = [(a, b) for a in pl for b in pr]
        for a, b in (pairs if len(pairs) <= cap(per_sig, l, r) else rng.sample(pairs, cap(per_sig, l, r))):
            out.append(("B", n, l, r, "%s %s %s" % (a, n, b), ["dispatch_b", n, vt[a], vt[b]]))
    return out, unreachable, excluded


# ------------------------------------------------------------------------------------------------ numeric structures
# Operators whose ARRAY arguments have to be structures of numbers (matrices: n x k, n, k > 0, every row an array of k numbers;
# 3D vectors; positions of 2 or 3 numbers).  Implementation-only oracle, computed here from the argument trees:
#   * a well-formed argument tuple gives exactly the mathematical result (float32, compared through the 6 printed digits);
#   * anything else (an element that is no number - nil included - at ANY position, a row of another length, a row that is no
#     array, an empty row / matrix, inner dimensions that do not fit) has no result: the call has to come back with a
#     diagnostic or with nil / [].  A result that holds numbers was computed from an element that is not a number (its
#     storage read as a float: type confusion, a read outside the object), and a crash is a crash.
class Num:
    def __init__(self, sqf, val):
        self.sqf, self.val = sqf, val


class Raw:
    """a value that is neither a number nor an array"""
    def __init__(self, sqf):
        self.sqf = sqf


def na_f32(x):
    if x != x or x in (float("inf"), float("-inf")):
        return x
    try:
        return struct.unpack("f", struct.pack("f", x))[0]
    except OverflowError:
        return float("inf") if x > 0 else float("-inf")


def na_num(text):
    return Num(text, na_f32(float(text)))


NA_TAME = [na_num(t) for t in ("0", "1", "2", "3", "-1", "-2", "0.5", "-0.25", "1.5", "7", "10", "0.1", "100", "-3.75", "4", "5", "6", "-0.7")]
NA_SPECIAL = [na_num("1e20"), na_num("-1e20"), na_num("3e38"), na_num("1e-30"), na_num("16777216"), na_num("123456.7"),
              Num("(1e38 * 10)", float("inf")), Num("(-1e38 * 10)", float("-inf")), Num("(sqrt -1)", float("nan"))]
# every kind of value that is not a number; arrays among them (an array where a number has to stand)
NA_BAD = [Raw("nil"), Raw('"a"'), Raw('""'), Raw('"1"'), Raw("true"), Raw("false"), [], [na_num("1")], [[na_num("1"), na_num("2")]], Raw("{}"),
          Raw("{1}"), Raw("objNull"), Raw("grpNull"), Raw("configNull"), Raw("scriptNull"), Raw("west"), Raw("missionNamespace"),
          Raw("createHashMap"), Raw('(text "a")'), Raw("configFile"), Raw("(if true)")]
NA_NOROW = [Raw("nil"), Raw('"a"'), na_num("5"), Raw("objNull"), Raw("true"), []]       # what can stand where a row has to stand

NA_OPS = {      # name -> (operand kinds, None = unary)
    "matrixTranspose": (None, "mat"), "matrixMultiply": ("mat", "mat"),
    "vectorAdd": ("v3", "v3"), "vectorDiff": ("v3", "v3"), "vectorCrossProduct": ("v3", "v3"), "vectorDotProduct": ("v3", "v3"),
    "vectorCos": ("v3", "v3"), "vectorDistance": ("v3", "v3"), "vectorDistanceSqr": ("v3", "v3"), "vectorMultiply": ("v3", "num"),
    "vectorMagnitude": (None, "v3"), "vectorMagnitudeSqr": (None, "v3"), "vectorNormalized": (None, "v3"),
    "distance": ("v23", "v23"), "distance2D": ("v23", "v23"),
}


def na_sqf(t):
    return "[" + ",".join(na_sqf(x) for x in t) + "]" if isinstance(t, list) else t.sqf


def na_json(t):
    if isinstance(t, list):
        return [na_json(x) for x in t]
    return {"n": t.sqf, "v": repr(t.val)} if isinstance(t, Num) else {"x": t.sqf}


def na_from_json(j):
    if isinstance(j, list):
        return [na_from_json(x) for x in j]
    return Num(j["n"], float(j["v"])) if "n" in j else Raw(j["x"])


def na_show(t):
    """the argument as a reader sees it (numbers by value)"""
    if isinstance(t, list):
        return "[" + ",".join(na_show(x) for x in t) + "]"
    return ("%g" % t.val) if isinstance(t, Num) else t.sqf


def na_malformed(kind, t):
    """None when t is a well-formed operand of this kind, else what is wrong with it"""
    if kind == "num":
        return None if isinstance(t, Num) else "not a number"
    if not isinstance(t, list):
        return "not an array"
    if kind in ("v3", "v23"):
        lo, hi = (3, 3) if kind == "v3" else (2, 3)
        if not lo <= len(t) <= hi:
            return "%d elements where %s are required" % (len(t), "3" if lo == hi else "2 or 3")
        for j, x in enumerate(t):
            if not isinstance(x, Num):
                return "element %d (%s) is not a number" % (j, na_show(x))
        return None
    if len(t) == 0:
        return "no rows"
    for i, row in enumerate(t):
        if not isinstance(row, list):
            return "row %d (%s) is not an array" % (i, na_show(row))
    if len(t[0]) == 0:
        return "empty rows"
    for i, row in enumerate(t):
        if len(row) != len(t[0]):
            return "row %d has %d elements, row 0 has %d" % (i, len(row), len(t[0]))
        for j, x in enumerate(row):
            if not isinstance(x, Num):
                return "element %d of row %d (%s) is not a number" % (j, i, na_show(x))
    return None


def na_leaf(val, scale):
    """expected number with the magnitude its rounding error is measured against; None = not compared (beyond float32's range,
    or computed from inf / NaN: only that a number stands there)"""
    if scale != scale or scale > 1e37:
        return None
    return (na_f32(val), scale)


def na_sum(terms):
    acc = 0.0
    for t in terms:
        acc = na_f32(acc + t)
    return na_leaf(acc, max([abs(t) for t in terms] + [0.0]))


def na_expect(op, args):
    """-> ("reject", why) | ("value", tree of leaves)"""
    kinds = [k for k in NA_OPS[op] if k is not None]
    for pos, (k, a) in enumerate(zip(kinds, args)):
        bad = na_malformed(k, a)
        if bad:
            return ("reject", ("%s operand: " % (["left", "right"][pos] if len(kinds) == 2 else "the")) + bad)
    vals = [[[x.val for x in row] for row in a] if k == "mat" else ([x.val for x in a] if k != "num" else a.val) for k, a in zip(kinds, args)]
    prod = lambda a, b: na_f32(a * b)
    if op == "matrixTranspose":
        m = vals[0]
        return ("value", [[(m[i][j], abs(m[i][j])) for i in range(len(m))] for j in range(len(m[0]))])
    if op == "matrixMultiply":
        l, r = vals
        if len(l[0]) != len(r):
            return ("reject", "the left matrix has %d columns, the right one %d rows" % (len(l[0]), len(r)))
        return ("value", [[na_sum([prod(l[i][k], r[k][j]) for k in range(len(r))]) for j in range(len(r[0]))] for i in range(len(l))])
    if op in ("vectorAdd", "vectorDiff"):
        l, r = vals
        s = 1.0 if op == "vectorAdd" else -1.0
        return ("value", [na_leaf(l[i] + s * r[i], max(abs(l[i]), abs(r[i]))) for i in range(3)])
    if op == "vectorMultiply":
        l, r = vals
        return ("value", [na_leaf(l[i] * r, abs(l[i] * r)) for i in range(3)])
    if op == "vectorDotProduct":
        l, r = vals
        return ("value", na_sum([prod(l[i], r[i]) for i in range(3)]))
    if op == "vectorCrossProduct":
        l, r = vals
        return ("value", [na_sum([prod(l[a], r[b]), -prod(l[b], r[a])]) for a, b in ((1, 2), (2, 0), (0, 1))])
    # the remaining ones take roots / quotients: compared on moderate numbers only
    flat = [x for v in vals for x in (v if isinstance(v, list) else [v])]
    tame = all(x == x and abs(x) <= 1e6 for x in flat)
    pad = lambda v: (list(v) + [0.0, 0.0, 0.0])[:3]
    shape = {"vectorNormalized": [None, None, None]}.get(op)
    if not tame:
        return ("value", shape)
    if op in ("vectorMagnitude", "vectorMagnitudeSqr", "vectorNormalized"):
        v = vals[0]
        sq = sum(x * x for x in v)
        if op == "vectorMagnitudeSqr":
            return ("value", na_leaf(sq, sq))
        mag = sq ** 0.5
        if op == "vectorMagnitude":
            return ("value", na_leaf(mag, mag))
        return ("value", [na_leaf(0.0, 0.0)] * 3 if sq == 0 else ([na_leaf(x / mag, 1.0) for x in v] if na_f32(sq) > 1e-30 else shape))
    l, r = pad(vals[0]), pad(vals[1])
    if op == "vectorCos":
        den = (sum(x * x for x in l) ** 0.5) * (sum(x * x for x in r) ** 0.5)
        return ("value", na_leaf(sum(a * b for a, b in zip(l, r)) / den, 1.0) if den > 1e-12 else None)
    n = 2 if op == "distance2D" else 3
    sq = sum((a - b) ** 2 for a, b in list(zip(l, r))[:n])
    # a difference of nearly equal numbers carries the rounding of the operands
    scale = max(abs(x) for x in l + r)
    if op == "vectorDistanceSqr":
        return ("value", na_leaf(sq, max(sq, scale * scale)))
    return ("value", na_leaf(sq ** 0.5, max(sq ** 0.5, scale)))


NUM_TOKEN = re.compile(r"[-+]?(?:nan|inf|(?:[0-9]+\.?[0-9]*|\.[0-9]+)(?:e[-+]?[0-9]+)?)")


def na_parse(text):
    """printed value -> tree of floats; None when anything but numbers and arrays stands in it"""
    pos = [0]

    def item():
        if text.startswith("[", pos[0]):
            pos[0] += 1
            out = []
            if text.startswith("]", pos[0]):
                pos[0] += 1
                return out
            while True:
                out.append(item())
                if text.startswith(",", pos[0]):
                    pos[0] += 1
                elif text.startswith("]", pos[0]):
                    pos[0] += 1
                    return out
                else:
                    raise ValueError(text)
        m = NUM_TOKEN.match(text, pos[0])
        if not m:
            raise ValueError(text)
        pos[0] = m.end()
        return float(m.group(0))
    try:
        t = item()
        return t if pos[0] == len(text) else None
    except ValueError:
        return None


def na_same(exp, got):
    """the first difference between the expected tree of leaves and the printed tree, None when there is none"""
    if isinstance(exp, list):
        if not isinstance(got, list) or len(got) != len(exp):
            return "an array of %d elements is expected here, found %s" % (len(exp), "a number" if not isinstance(got, list) else "%d" % len(got))
        for e, g in zip(exp, got):
            d = na_same(e, g)
            if d:
                return d
        return None
    if isinstance(got, list):
        return "a number is expected where an array stands"
    if exp is None:
        return None
    val, scale = exp
    if val != val:
        return None if got != got else "NaN expected, found %g" % got
    if val in (float("inf"), float("-inf")) or got != got or got in (float("inf"), float("-inf")):
        return None if got == val else "%g expected, found %g" % (val, got)
    return None if abs(got - val) <= 2e-5 * max(scale, abs(val)) + 1e-44 else "%g expected, found %g" % (val, got)


def na_has_number(t):
    return any(na_has_number(x) for x in t) if isinstance(t, list) else True


class NCase:
    def __init__(self, sub, op, args, twice=False):
        self.sub, self.op, self.args, self.twice = sub, op, args, twice

    def sqf(self):
        a = [na_sqf(x) if isinstance(x, list) else "(" + x.sqf + ")" for x in self.args]
        if len(a) == 1:
            return ("%s %s %s" % (self.op, self.op, a[0])) if self.twice else "%s %s" % (self.op, a[0])
        return "%s %s %s" % (a[0], self.op, a[1])

    def to_json(self):
        return {"kind": "numarr:" + self.sub, "sqf": self.sqf(), "numarr": {"sub": self.sub, "op": self.op, "args": [na_json(a) for a in self.args], "twice": self.twice}}

    @staticmethod
    def from_json(j):
        n = j["numarr"]
        return NCase(n.get("sub", "replay"), n["op"], [na_from_json(a) for a in n["args"]], n.get("twice", False))

    def judge(self, impl):
        """-> None | (what, expected as text; None = no verdict about the implementation)"""
        exp = na_expect(self.op, self.args)
        if self.twice and exp[0] == "value":
            exp = ("value", [[(x.val, abs(x.val)) for x in row] for row in self.args[0]])     # transposed twice: the matrix itself
        shown = "%s on %s" % (self.op + (" twice" if self.twice else ""), " and ".join(na_show(a) for a in self.args))
        if impl.split("\t")[0].split(";")[0].split(" ")[0] in CRASHY or impl.startswith("HARNESS"):
            return ("%s killed the process or left the VM by a C++ exception: %s" % (shown, impl.replace("\t", " ")),
                    "a value or a diagnostic" if exp[0] == "value" else "a diagnostic or nil / [] (%s)" % exp[1])
        f = impl.split(";")
        if len(f) != 3 or f[0] == "PARSEFAIL":
            return ("MACHINERY: the generated script was not run: " + impl, None)
        got = None if f[2] == "NONE" else V.unhx(f[2]).decode("latin-1")
        if exp[0] == "reject":
            if f[1] != "-" or got in (None, "nil", "[]"):
                return None
            tree = na_parse(got)
            how = ("numbers that no argument determines - an element that is not a number was read as one (type confusion: its storage taken for a float)"
                   if tree is not None and na_has_number(tree) else "a value although this argument has no result")
            return ("%s: the arguments are no %s (%s), yet the call returned %s without any diagnostic: %s"
                    % (shown, "matrices that can be multiplied / transposed" if self.op.startswith("matrix") else "vectors of numbers", exp[1], got[:160], how),
                    "a diagnostic or nil / []")
        if f[0] != "-1" or f[1] != "-":
            return ("%s: well-formed arguments, yet the call ended with result %s and diagnostics %s" % (shown, f[0], f[1]), "the value, no diagnostic")
        tree = None if got is None else na_parse(got)
        if tree is None:
            return ("%s: well-formed arguments, the call returned %s (no number structure)" % (shown, got if got is None else got[:160]), "the value")
        d = na_same(exp[1], tree)
        if d:
            return ("%s: the call returned %s, which is not the result for these numbers (%s)" % (shown, got[:200], d), "the value computed from the numbers")
        return None


def numarr_cases(rng):
    cs = []
    tame = lambda: rng.choice(NA_TAME)
    anynum = lambda: rng.choice(NA_TAME + NA_SPECIAL) if rng.random() < 0.35 else rng.choice(NA_TAME)
    mat = lambda n, k, pick=tame: [[pick() for _ in range(k)] for _ in range(n)]

    def put(m, i, j, x):
        c = [list(r) for r in m]
        c[i][j] = x
        return c

    def bads(full):
        return NA_BAD if full else [NA_BAD[0]] + rng.sample(NA_BAD[1:], 4)

    def broken_matrices(m, full):
        """(what, matrix) for every way this well-formed matrix stops being one at one place"""
        out = []
        for i in range(len(m)):
            for j in range(len(m[0])):
                for b in bads(full):
                    out.append(("elem", put(m, i, j, b)))
            out.append(("arity", m[:i] + [m[i][:-1]] + m[i + 1:]))
            out.append(("arity", m[:i] + [m[i] + [tame()]] + m[i + 1:]))
            for b in NA_NOROW:
                out.append(("row", m[:i] + [b] + m[i + 1:]))
        return out

    degenerate = [[], [[]], [[], []], [tame(), tame(), tame()], [Raw("nil")], [[[tame()]]], [Raw('"a"')], [[tame()], []], [[], [tame()]]]
    # ---- matrixTranspose: every shape up to 4 x 4, every position
    for n in range(1, 5):
        for k in range(1, 5):
            m = mat(n, k)
            cs.append(NCase("ok", "matrixTranspose", [m]))
            cs.append(NCase("ok", "matrixTranspose", [mat(n, k, anynum)]))
            cs.append(NCase("ok", "matrixTranspose", [m], twice=True))
            for what, b in broken_matrices(m, n * k <= 6):
                cs.append(NCase(what, "matrixTranspose", [b]))
    for d in degenerate:
        cs.append(NCase("degenerate", "matrixTranspose", [d]))
    # ---- matrixMultiply: n x k times k x m, the broken place in the left or in the right operand, or in both
    shapes = [(n, k, m) for n in (1, 2, 3) for k in (1, 2, 3) for m in (1, 2, 3)] + [(4, 1, 4), (1, 4, 1), (4, 4, 4), (2, 4, 3)]
    for n, k, m in shapes:
        l, r = mat(n, k), mat(k, m)
        cs.append(NCase("ok", "matrixMultiply", [l, r]))
        cs.append(NCase("ok", "matrixMultiply", [mat(n, k, anynum), mat(k, m, anynum)]))
        full = max(n, k, m) <= 2
        bl, br = broken_matrices(l, full), broken_matrices(r, full)
        for what, b in bl:
            cs.append(NCase(what + "-left", "matrixMultiply", [b, r]))
        for what, b in br:
            cs.append(NCase(what + "-right", "matrixMultiply", [l, b]))
        for _ in range(3):
            cs.append(NCase("both", "matrixMultiply", [rng.choice(bl)[1], rng.choice(br)[1]]))
        for k2 in (1, 2, 3, 4):
            if k2 != k:
                cs.append(NCase("inner-dimension", "matrixMultiply", [l, mat(k2, m)]))
        for d in rng.sample(degenerate, 3):
            cs.append(NCase("degenerate", "matrixMultiply", [d, r]))
            cs.append(NCase("degenerate", "matrixMultiply", [l, d]))
    # ---- vectors and positions
    for op, (lk, rk) in sorted(NA_OPS.items()):
        if op.startswith("matrix"):
            continue
        kinds = [x for x in (lk, rk) if x is not None]

        def good(kind, pick=tame):
            if kind == "num":
                return pick()
            return [pick() for _ in range(3 if kind == "v3" else rng.choice((2, 3)))]

        for _ in range(8):
            cs.append(NCase("ok", op, [good(x) for x in kinds]))
        for _ in range(4):
            cs.append(NCase("ok", op, [good(x, anynum) for x in kinds]))
        cs.append(NCase("ok", op, [good(x, lambda: NA_TAME[0]) for x in kinds]))             # zero vectors
        same = good(kinds[0])
        if len(kinds) == 2 and kinds[1] != "num":
            cs.append(NCase("ok", op, [same, list(same)]))                                   # a vector with itself
        for p, kind in enumerate(kinds):
            if kind == "num":
                continue
            for ln in ((3,) if kind == "v3" else (2, 3)):
                base = [good(x) for x in kinds]
                base[p] = [tame() for _ in range(ln)]
                for j in range(ln):
                    for b in NA_BAD:
                        a = list(base)
                        a[p] = base[p][:j] + [b] + base[p][j + 1:]
                        cs.append(NCase("elem", op, a))
            for ln in (0, 1, 2, 4, 5, 9):
                if not (ln == 2 and kind == "v23"):
                    a = [good(x) for x in kinds]
                    a[p] = [tame() for _ in range(ln)]
                    cs.append(NCase("arity", op, a))
            for d in ([[tame(), tame(), tame()]], [[tame()], [tame()], [tame()]], [Raw("nil")] * 3):
                a = [good(x) for x in kinds]
                a[p] = d
                cs.append(NCase("degenerate", op, a))
        if len(kinds) == 2 and kinds[1] != "num":
            for _ in range(4):
                a = [good(x) for x in kinds]
                for p in (0, 1):
                    a[p] = list(a[p])
                    a[p][rng.randrange(len(a[p]))] = rng.choice(NA_BAD)
                cs.append(NCase("both", op, a))
    return cs


NUMARR_RULE = ("Numeric-structure family (implementation-only oracle, no model): matrixTranspose, matrixMultiply, the eleven vector* operators and "
               "distance / distance2D on ARRAY operands. From every well-formed operand (matrices of every shape up to 4 x 4 resp. n x k times k x m "
               "with n, k, m <= 3 and some with 4; 3D vectors; positions of 2 or 3 numbers; moderate numbers, also 1e20, 3e38, 1e-30, +-inf, NaN) the "
               "generator derives every argument that is broken at ONE place: each element of each row (first, inner, last row and column; one-row and "
               "one-column matrices; left operand, right operand, both) replaced by each kind of value that is not a number (nil, strings, booleans, "
               "arrays, code, null handles, side, namespace, hashmap, text, config, if-type), each row shortened / lengthened / replaced by a value that is "
               "no array, plus empty / flat / too deep arguments and inner dimensions that do not fit; vectors with 0, 1, 2, 4, 5, 9 elements. "
               "Oracle: the well-formed calls return the mathematical result (computed in float32 by the generator, compared through the printed "
               "digits; matrixTranspose twice returns the matrix; roots and quotients compared for moderate numbers only); every other call comes back "
               "with a diagnostic or nil / [] - a crash, or a result that holds numbers, is a concrete violation (an element that is no number was read "
               "as a float). ")


def run_numarr(run, himpl, ncases):
    """runs the family, reports at most 3 violations per operator (the shortest inputs); -> kinds, statistics for the evidence"""
    _, impl, _ = V.run_lines_parallel([himpl], ["X\t-\t%s" % V.hx(c.sqf()) for c in ncases], timeout=6000)
    kinds, bad, rejected_with = {}, {}, {"diagnostic": 0, "nil-or-empty": 0}
    for c, il in zip(ncases, impl):
        k = "numarr-" + c.sub
        kinds[k] = kinds.get(k, 0) + 1
        f = il.split(";")
        if len(f) == 3 and na_expect(c.op, c.args)[0] == "reject":
            rejected_with["diagnostic" if f[1] != "-" else "nil-or-empty"] += 1
        v = c.judge(il)
        if v is not None:
            bad.setdefault(c.op, []).append((len(c.sqf()), c, il, v))
    for op in sorted(bad):
        # per operator the shortest input that kills the process and the two shortest others
        died = lambda il: il.split("\t")[0].split(";")[0].split(" ")[0] in CRASHY or il.startswith("HARNESS")
        by_len = sorted(bad[op], key=lambda x: x[0])
        for _, c, il, (what, expected) in [x for x in by_len if died(x[2])][:1] + [x for x in by_len if not died(x[2])][:2]:
            rep = c.to_json()
            rep.update({"impl_out": il, "expected": expected, "cases_of_this_operator_failing": len(bad[op])})
            run.violation(what, rep, found_input=expected is not None)
    per_op = {}
    for c in ncases:
        per_op[c.op] = per_op.get(c.op, 0) + 1
    return kinds, {"cases": len(ncases), "per_operator": per_op, "well_formed": sum(1 for c in ncases if na_expect(c.op, c.args)[0] == "value"),
                   "rejected_by": rejected_with, "failing": {op: len(v) for op, v in bad.items()},
                   "values_that_are_no_number": [na_show(b) for b in NA_BAD]}


# ------------------------------------------------------------------------------------------------ aliased operands
# Operators whose two operands - or an operand and an element of the other operand - are the SAME container object.
# Implementation-only, metamorphic oracle: the call on the aliased operand has to leave exactly what the same call leaves
# when that operand is a separate, equal container (the literal evaluated a second time): same result, same final
# content of the container, same diagnostics; and neither call may kill the process.  An operator that reads its
# argument array through a reference while it grows / shrinks the very same array reads freed or shifted storage;
# with a copy on the other side it cannot.
# Exclusions (the documented behaviour depends on identity there), stated once:
#   * the aliased call reports ArrayRecursion (1:60018): the container would become an element of itself, which the
#     recursion test refuses, while a copy may be inserted;
#     (pushBack / pushBackUnique / set / hashmap set with the container itself as the value all report it);
#   * the iteration scripts (forEach / apply / select / count / findIf over an array their body resizes, sorts or
#     cuts through an alias) have no copy-equivalent: they only have to come back.
ALIAS_RULE = ("Aliased-operand family (implementation-only, metamorphic): every registered binary signature over ARRAY / HASHMAP / ANY operands "
              "(ANY,ANY only for isEqualTo / isNotEqualTo / isEqualType) is called as `_a op _a`, `_p = _a; _a op _p`, `{ _x op _x } forEach [_a]`, "
              "`_a op [.., _a, ..]` and `[.., _a, ..] op _a` over argument arrays that are valid parameter arrays of the indexing operators with "
              "indices beyond the current size (growth: the vector reallocates), inside it, 0, negative; vectors, matrices, nested arrays, hashmaps. "
              "Oracle: result, final `str` of the container and diagnostics equal those of the same call with the literal evaluated a second time "
              "in place of the alias; no crash / exception / hang. The family runs with GLIBC_TUNABLES=glibc.malloc.tcache_count=0:glibc.malloc.perturb=165 (glibc overwrites freed blocks), so a read "
              "through a dangling reference yields garbage also without the sanitizer build. Excluded from the comparison (still run): calls that report ArrayRecursion, "
              "and the operators that would store the container inside itself without a diagnostic (pushBackUnique of itself). Iteration over an "
              "array the body resizes / sorts / cuts through an alias: must come back, nothing compared. ")
ALIAS_ARRAYS = ['[3,"x"]', "[2,7]", '[17,"y"]', "[0,1]", "[1,0]", "[1,5]", "[0,5]", "[-1,2]", "[5,[1,2]]", "[1,2,3]", "[]", "[0]", '["_q","_w"]',
                "[[0,1],[2,3]]", "[2,[2,[2]]]", "[7,7,7,7,7,7,7,7,7]", "[2,2]", '[40,"z"]', "[[1,2],[3,4]]"]
ALIAS_HASHMAPS = ["createHashMap", '(createHashMapFromArray [[1,2],["a",[3]]])', "(createHashMapFromArray [[0,1],[1,0]])"]
ALIAS_ANYANY = {"isequalto", "isnotequalto", "isequaltype"}
ALIAS_SHOW = '[if (isNil "_r") then {"<nil>"} else {str _r}, str _a]'
ALIAS_ITERATIONS = [
    "_a = [1,2,3,4,5]; { _a resize 1 } forEach _a; _a", "_a = [1,2,3,4,5]; { _a deleteRange [0,3] } forEach _a; _a",
    "_a = [5,4,3,2,1]; { _a sort true } forEach _a; _a", "_a = [1,2,3,4,5]; _r = _a apply { _a resize 2; _x }; [_r, _a]",
    "_a = [1,2,3,4,5]; _r = _a select { _a deleteAt 0; true }; [_r, _a]", "_a = [1,2,3,4,5]; _r = _a findIf { _a resize 0; false }; [_r, _a]",
    "_a = [1,2,3,4,5]; _r = { _a deleteRange [1,9]; true } count _a; [_r, _a]", "_a = [1,2,3]; { if (count _a < 40) then { _a pushBack _forEachIndex } } forEach _a; count _a",
    "_a = [1,2,3]; { if (count _a < 40) then { _a append _a } } forEach _a; count _a", "_a = [3,2,1]; { _a set [count _a + 20, _x] } forEach +_a; count _a",
    "_a = [[2,1],[1,2]]; { _x sort true; _a sort false } forEach _a; _a", "_a = [1,2,3]; _a resize 100; _a resize 0; _a pushBack _a; _a",
]


class ACase:
    def __init__(self, op, form, alias, copy):
        self.op, self.form, self.alias, self.copy = op, form, alias, copy

    def to_json(self):
        return {"alias": True, "op": self.op, "form": self.form, "sqf": self.alias, "sqf_copy": self.copy}

    @staticmethod
    def from_json(j):
        return ACase(j["op"], j["form"], j["sqf"], j.get("sqf_copy"))


def alias_cases(rng, registry, thorough):
    nu, un, bi = registry
    out = []
    ok = lambda t, ty: ty in (t, "ANY")
    sigs = sorted(set((n, l, r) for n, l, r in bi if n not in SWEEP_EXCLUDED and l in ("ARRAY", "HASHMAP", "ANY") and r in ("ARRAY", "HASHMAP", "ANY")
                      and ((l, r) != ("ANY", "ANY") or n in ALIAS_ANYANY)))
    for n, l, r in sigs:
        for t, lits in (("ARRAY", ALIAS_ARRAYS), ("HASHMAP", ALIAS_HASHMAPS)):
            if ok(t, l) and ok(t, r):
                for i, lit in enumerate(lits):
                    pre = "_a = %s; " % lit
                    out.append(ACase(n, "self", pre + "_r = _a %s _a; %s" % (n, ALIAS_SHOW), pre + "_b = %s; _r = _a %s _b; %s" % (lit, n, ALIAS_SHOW)))
                    if thorough or i % 3 == 0:
                        out.append(ACase(n, "alias-variable", pre + "_p = _a; _r = _a %s _p; %s" % (n, ALIAS_SHOW),
                                         pre + "_p = %s; _r = _a %s _p; %s" % (lit, n, ALIAS_SHOW)))
                        body = '_r = "unset"; { _t = _x %s %s; _r = if (isNil "_t") then {"<nil>"} else {str _t} } forEach [_a]; [_r, str _a]'
                        out.append(ACase(n, "forEach", pre + body % (n, "_x"), pre + "_y = %s; " % lit + body % (n, "_y")))
            # the container as an element of the other operand
            elems = ["[%s]", "[0,%s]", "[5,%s]", "[%s,0]", "[%s,%s]", "[[%s]]", "[17,%s]"]
            if ok(t, l) and r in ("ARRAY", "ANY"):
                for i, lit in enumerate(lits):
                    for j, e in enumerate(elems):
                        if thorough or (i + j) % 4 == 0:
                            pre = "_a = %s; " % lit
                            out.append(ACase(n, "element-right", pre + "_r = _a %s %s; %s" % (n, e.replace("%s", "_a"), ALIAS_SHOW),
                                             pre + "_b = %s; _r = _a %s %s; %s" % (lit, n, e.replace("%s", "_b"), ALIAS_SHOW)))
            if ok(t, r) and l in ("ARRAY", "ANY"):
                for i, lit in enumerate(lits):
                    for j, e in enumerate(elems):
                        if thorough or (i + j) % 7 == 0:
                            pre = "_a = %s; " % lit
                            out.append(ACase(n, "element-left", pre + "_r = %s %s _a; %s" % (e.replace("%s", "_a"), n, ALIAS_SHOW),
                                             pre + "_b = %s; _r = %s %s _a; %s" % (lit, e.replace("%s", "_b"), n, ALIAS_SHOW)))
    for s in ALIAS_ITERATIONS:
        out.append(ACase("iteration", "iteration", s, None))
    return out, sigs


def run_alias(run, himpl, acases):
    """-> kinds, statistics; reports per operator the shortest failing script"""
    lines = []
    for c in acases:
        lines.append("X\t-\t%s\t4000" % V.hx(c.alias))
        if c.copy is not None:
            lines.append("X\t-\t%s\t4000" % V.hx(c.copy))
    # glibc fills every freed block with a byte pattern (tunable glibc.malloc.perturb; the thread cache is switched off because blocks
    # parked there are not overwritten): a value read through a reference into storage the
    # operator has just released (a vector that reallocated) is garbage instead of the stale, still plausible bytes - the
    # quick tier sees a use-after-free without the sanitizer build
    _, impl, _ = V.run_lines_parallel([himpl], lines, timeout=6000, env=dict(os.environ, GLIBC_TUNABLES="glibc.malloc.tcache_count=0:glibc.malloc.perturb=165"))
    kinds, bad, excluded, k = {}, {}, {"array-recursion": 0}, 0
    died = lambda il: il.split("\t")[0].split(";")[0].split(" ")[0] in CRASHY or il.startswith("HARNESS")
    for c in acases:
        a = impl[k]; k += 1
        b = None
        if c.copy is not None:
            b = impl[k]; k += 1
        kd = "alias-" + c.form
        kinds[kd] = kinds.get(kd, 0) + 1
        for which, il, sqf in (("aliased", a, c.alias), ("copy", b, c.copy)):
            if il is not None and (died(il) or "0:60002" in il):
                bad.setdefault(c.op, []).append((len(sqf), c, "the call on the %s operand killed the process, let an exception escape or did not come back: %s"
                                                 % (which, il.replace("\t", " ")[:200]), a, b, True))
                break
        else:
            if b is None or a == b:
                continue
            if "1:60018" in a.split(";")[1].split(","):
                excluded["array-recursion"] += 1
                continue
            show = lambda il: il.split(";")[0] + ";" + il.split(";")[1] + ";" + (V.unhx(il.split(";")[2]).decode("latin-1") if il.count(";") == 2 and il.split(";")[2] != "NONE" else "NONE")
            bad.setdefault(c.op, []).append((len(c.alias), c, "an operand that is the same container as the other operand (or an element of it) changes what the "
                                             "operator does: aliased %s, with an equal separate container %s (the operator reads its argument while it changes "
                                             "the container: storage that was freed or moved)" % (show(a)[:160], show(b)[:160]), a, b, True))
    for op in sorted(bad):
        for _, c, what, a, b, concrete in sorted(bad[op], key=lambda x: x[0])[:2]:
            rep = c.to_json()
            rep.update({"impl_out": a, "impl_out_copy": b, "cases_of_this_operator_failing": len(bad[op])})
            run.violation(what, rep, found_input=concrete)
    return kinds, {"cases": len(acases), "compared_pairs": sum(1 for c in acases if c.copy is not None), "excluded_from_comparison": excluded,
                   "failing": {op: len(v) for op, v in bad.items()}}


# ------------------------------------------------------------------------------------------------ main
def asan_fc_flavour():
    """ASan + UBSan + float-cast-overflow (GCC's -fsanitize=undefined leaves the float -> int check out)"""
    V.FLAVOURS["asanfc"] = V.FLAVOURS["asan"].replace("-fsanitize=address,undefined", "-fsanitize=address,undefined,float-cast-overflow")
    V.LINKFLAGS["asanfc"] = "-fsanitize=address,undefined,float-cast-overflow"
    return "asanfc"


def main(replay=None):
    run = V.Run(PID, "proof")
    rng = run.rng
    thorough = run.tier == "thorough"
    problems = run.prove()
    flavour = asan_fc_flavour() if (thorough or os.environ.get("C09_SANITIZE")) else "plain"
    himpl = V.build_harness("h_ops", flavour)
    drv = V.ocaml_driver("ops")
    sys.path.insert(0, os.path.join(V.VERIF, "translators"))
    import registry_full
    registry = registry_full.read_registry()
    flags = "".join("1" if run.known.has(PID, k) else "0" for k in SWITCHES)

    cases, corpus_sweep, ncases, acases, alias_sigs, corpus_alias = [], [], [], [], [], []
    if replay:
        j = json.load(open(replay))["replay"]
        if j.get("sweep"):
            cases = []
            sweep = [tuple(j["sweep"])]
        elif j.get("numarr"):
            ncases = [NCase.from_json(j)]
            sweep = []
        elif j.get("alias"):
            acases = [ACase.from_json(j)]
            sweep = []
        else:
            cases.append(Case.from_json(j))
            sweep = []
    else:
        cdir = os.path.join(V.VERIF, "corpus", PID)
        if os.path.isdir(cdir):
            for fn in sorted(os.listdir(cdir)):
                j = json.load(open(os.path.join(cdir, fn)))
                if j.get("sweep"):
                    corpus_sweep.append(tuple(j["sweep"]))
                    continue
                if j.get("alias"):
                    corpus_alias.append(ACase.from_json(j))
                    continue
                c = Case.from_json(j)
                c.kind = "corpus:" + fn
                cases.append(c)
        cases += gen_cases(rng, thorough)
        import random as _random
        cases += gen_cases2(_random.Random("guards2-%d" % run.seed), thorough)     # its own generator state, as for the numeric structures
        sweep = None
        # its own generator state: the pools drawn above and the sweep below stay what they were for a given seed
        import random
        for rnd in range(4 if thorough else 1):
            ncases += numarr_cases(random.Random("numarr-%d-%d" % (run.seed, rnd)))
        acases, alias_sigs = alias_cases(random.Random("alias-%d" % run.seed), registry, thorough)
        acases = corpus_alias + acases

    # ---- modelled operators: implementation and model on the same arguments
    ilines = [c.impl_line() for c in cases]
    rc, impl, err = V.run_lines_parallel([himpl], ilines, timeout=6000)
    mlines = [flags + "\t" + "\t".join(c.model) for c in cases]
    rc2, model, err2 = V.run_lines_parallel([drv], mlines, timeout=3000)
    kinds, distinct, samples, ndis = {}, set(), [], 0
    for c, il, ml in zip(cases, impl, model):
        k = c.kind.split(":")[0]
        kinds[k] = kinds.get(k, 0) + 1
        if ml.startswith("BAD") or ml.startswith("MODEL-"):
            run.violation("MODEL/driver cannot evaluate a generated case (machinery bug): " + ml, {"case": c.to_json(), "broken": BROKEN}, found_input=False)
            continue
        nontrivial = not (ml.startswith("R;-;") and c.kind in ("select-scalar", "select-bool") and ";elem:" in ml)
        if nontrivial:
            distinct.add((c.sqf, c.config, c.file))
        if len([s for s in samples if s["kind"] == k]) < 1 and len(samples) < 12:
            samples.append({"kind": k, "sqf": (c.sqf or "")[:160], "file_hex": None if c.file is None else V.hx(c.file), "impl": il[:160], "model": ml[:160]})
        bad = compare(c, il, ml)
        if bad is None:
            continue
        what, crash = bad
        rep = c.to_json()
        rep.update({"impl_out": il, "model_out": ml, "flags": flags})
        # attribution to a recorded finding: the model with the recorded switches predicts the failure, and with that
        # finding's switch off the model ends in Ret
        if crash and ml.split(";")[0] in ("UB", "THROW") and c.defect and run.known.has(PID, c.defect):
            i = SWITCHES.index(c.defect)
            rcx, m2, _ = V.run_lines([drv], [flags[:i] + "0" + flags[i + 1:] + "\t" + "\t".join(c.model)])
            if m2 and m2[0].startswith("R;"):
                run.known_finding(c.defect)
                continue
        if crash:
            run.violation(what, rep)
        else:
            ndis += 1
            rep["broken"] = BROKEN
            run.violation("implementation and guard model disagree: " + what, rep, found_input=False)

    # ---- numeric structures (matrices, vectors, positions): implementation-only oracle
    na_stats = {}
    if ncases:
        na_kinds, na_stats = run_numarr(run, himpl, ncases)
        kinds.update(na_kinds)
        distinct.update((c.sqf(), "", None) for c in ncases)

    # ---- aliased operands: implementation-only, metamorphic
    al_stats = {}
    if acases:
        al_kinds, al_stats = run_alias(run, himpl, acases)
        al_stats["signatures"] = ["%s(%s,%s)" % x for x in alias_sigs]
        kinds.update(al_kinds)
        distinct.update((c.alias, "", None) for c in acases)

    # ---- registry-wide sweep: exploration, not proof
    sw_stats = {}
    if sweep is None:
        per_sig = 40 if thorough else 1
        sw, unreachable, excluded = sweep_cases(rng, registry, per_sig)
        if not thorough:
            keep = [x for x in sw if "CONFIG" in (x[2], x[3])]
            rest = [x for x in sw if "CONFIG" not in (x[2], x[3])]
            sw = keep + rng.sample(rest, min(len(rest), 600))
        sw = corpus_sweep + byte_text_cases() + sw
    else:
        sw, unreachable, excluded = sweep, [], []
    if sw:
        slines = ["X\t%s\t%s\t3000" % (V.hx(CFG_SWEEP), V.hx(s[4])) for s in sw]
        rc3, simpl, err3 = V.run_lines_parallel([himpl], slines, timeout=20000)
        rc4, smodel, err4 = V.run_lines_parallel([drv], [flags + "\t" + "\t".join(s[5]) for s in sw], timeout=3000)
        crashes, unknown_mismatch = {}, 0
        for s, il, ml in zip(sw, simpl, smodel):
            head = il.split("\t")[0].split(";")[0].split(" ")[0]
            if head in CRASHY or il.startswith("HARNESS"):
                crashes.setdefault((s[0], s[1], s[2], s[3]), []).append((s[4], il))
                continue
            f = il.split(";")
            if len(f) != 3 or f[0] == "PARSEFAIL":
                continue
            if "0:60002" in f[1].split(","):
                # the VM's own 3 s limit ended the call: for these one-operator expressions over small operands that is an operator
                # that does not come back by itself (loops without bound), cut only because the sweep runs under a limit
                crashes.setdefault((s[0], s[1], s[2], s[3]), []).append((s[4], "TIMEOUT (the VM's run-time limit of 3000 ms ended it) " + il[:80]))
                continue
            got_unknown = any(c in UNKNOWN_CODES for c in f[1].split(","))
            # the sweep expression evaluates its operands first: an operand that fails (error before the call) is no dispatch
            first_err = [c for c in f[1].split(",") if c.split(":")[0] in ("0", "1")][:1]
            if ml in ("unknown",) and not got_unknown and not first_err:
                unknown_mismatch += 1
                run.violation("dispatch model says no signature accepts these operand types, the implementation dispatched",
                              {"sweep": list(s), "impl": il, "model": ml, "broken": "correspondence Ops/Dispatch.v vs call_unary.h / call_binary.h"}, found_input=False)
            if ml.startswith("found") and got_unknown and first_err and first_err[0] in UNKNOWN_CODES and f[1].split(",")[0] in UNKNOWN_CODES:
                # an unknown-combination diagnostic as the very first message although the model finds a signature
                unknown_mismatch += 1
                run.violation("dispatch model finds a registered signature, the implementation reports an unknown type combination",
                              {"sweep": list(s), "impl": il, "model": ml, "broken": "correspondence Ops/Dispatch.v vs call_unary.h / call_binary.h"}, found_input=False)
        for sig, lst in sorted(crashes.items()):
            sqf, il = min(lst, key=lambda x: len(x[0]))
            key = "sweep-" + sig[1]
            if run.known.has(PID, key):
                run.known_finding(key)
                continue
            run.violation("registry sweep: %s %s (%s, %s) killed the process or let an exception escape: %s" % (sig[0], sig[1], sig[2], sig[3], il.replace("\t", " ")),
                          {"sweep": [sig[0], sig[1], sig[2], sig[3], sqf, next(s[5] for s in sw if s[4] == sqf)], "impl": il, "cases_of_this_signature": len(lst)})
        sw_stats = {"cases": len(sw), "signatures_with_crash": len(crashes), "dispatch_mismatches": unknown_mismatch,
                    "signatures_without_constructible_value": len(unreachable), "signatures_excluded_by_name": len(excluded),
                    "excluded_names": sorted(SWEEP_EXCLUDED), "types_without_pool": sorted(set(x for u in unreachable for x in u[2:] if x not in TYPE_POOL and x not in ("ANY", "-")))}

    for p in problems:
        run.violation("proof obligation not discharged: " + p, {"broken": p, "theorems": run.cov["theorems"]}, found_input=False)
    run.cov["evaluations"] = len(cases) + len(ncases) + len(acases)
    run.cov["distinct_nontrivial"] = len(distinct)
    run.cov["rule"] = ("modelled operators only (select x4, resize, deleteRange, deleteAt, set, pushBack, pushBackUnique, append, sort, param, params, "
                       "format, toArray, toString, splitString, selectMax, selectMin, selectRandom, toFixed x2, configClasses, configProperties, "
                       "fromAssembly__, BOM sniff of read_file_from_disk; second list (Ops/Guards2.v): matrixTranspose, matrixMultiply, the eleven vector operators, IF then ARRAY, "
                       "private ARRAY, NAMESPACE getVariable / setVariable ARRAY, setMarkerPos(Local), setMarkerSize(Local), createMarker, CONFIG select SCALAR, "
                       "STRING callExtension ARRAY up to the library load - matrices of every shape up to 5 x 4 and 1 x 40 with one cell / row replaced, shortened, "
                       "lengthened or dropped, vectors of 0-4 elements with every kind of non-number, all pairs of seven element kinds for IF then ARRAY, markers "
                       "that exist / do not exist, classes with deleted and re-declared entries, argument arrays of 2048 / 2049 entries): boundary pools (empty / 1 / 2 / 3 / 5 / 200 element arrays, wrong inner types "
                       "and arity, -2147483904 .. 1e30, halves, +-inf, NaN, empty strings, null handles); every case runs in a forked child of the "
                       "harness and is compared with the extracted guard model on result class, diagnostics (level:code) and the printed value; "
                       "evaluations = cases of modelled operators + cases of the numeric-structure family + cases of the aliased-operand family; a case is trivial when it is an in-range select; distinct by script text / file bytes. "
                       "sort also runs on rows whose nested arrays (depth 2 and 3) differ in length, element type or depth, in both row orders and both directions; "
                       "a negative-index / negative-size diagnostic for arguments without a negative number or NaN is a concrete violation (float -> int conversion left the range of int). "
                       + NUMARR_RULE + ALIAS_RULE +
                       "The registry sweep is reported separately under 'sweep_exploration' and is NOT part of the proof.")
    run.cov["numeric_structure_family"] = na_stats
    run.cov["aliased_operand_family"] = al_stats
    run.cov["input_distribution"] = kinds
    run.cov["samples"] = samples
    run.cov["disagreements_checked"] = ndis
    run.cov["flavour"] = flavour
    run.cov["defect_switches_on"] = [k for k, b in zip(SWITCHES, flags) if b == "1"]
    run.cov["sweep_exploration"] = sw_stats
    run.cov["guard_models"] = ["select(ARRAY,SCALAR)", "select(ARRAY,BOOL)", "select(ARRAY,ARRAY)", "select(STRING,ARRAY)", "resize", "deleteRange", "deleteAt",
                               "set", "pushBack", "pushBackUnique", "append", "sort", "param", "params", "format", "toArray", "toString", "splitString",
                               "selectMax", "selectMin", "selectRandom", "toFixed(SCALAR)", "toFixed(SCALAR,SCALAR)", "configClasses/configProperties iterator",
                               "fromAssembly__ decode (split, from_sqf, makeArray, callBinary)", "d_array::check_type x2", "get_bom_skip",
                               "is_matrix", "matrixTranspose", "matrixMultiply", "vectorAdd / vectorDiff / vectorCrossProduct / vectorMultiply / vectorNormalized (at)",
                               "vectorCos / vectorDistance / vectorDistanceSqr / vectorDotProduct / vectorMagnitude / vectorMagnitudeSqr (vec3 conversion)",
                               "then(IF,ARRAY)", "private(ARRAY)", "getVariable(NAMESPACE,ARRAY)", "setVariable(NAMESPACE,ARRAY)", "setMarkerPos(Local)",
                               "setMarkerSize(Local)", "createMarker", "select(CONFIG,SCALAR)", "callExtension(STRING,ARRAY) argument validation"]
    run.cov["trusted_base"] = ["Coq 8.16.1 kernel (vm_compute in the finite-table facts, the witnesses and the Examples)",
                               "ExtrOcamlBasic extraction + ocaml/ops_driver.ml (value parser, printing)",
                               "harness/h_ops.cpp + sqfrt.hpp + fork / rlimit / watchdog plumbing; sanitizers in the thorough tier",
                               "generators, renderers and the sort oracle in checks/C09.py; translators/registry_full.py",
                               "guard models Ops/Guards.v are hand-written; tied to the C++ only by this differential run",
                               "NOT covered by any theorem: the operator bodies outside the listed guards, the C++ library, std::bad_alloc"]
    return run.finish()
