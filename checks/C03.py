"""C03 - variable scoping: dynamic lookup of locals, nearest-holder assignment, private / private _x = in the
current scope, bindings that end with their scope or iteration, spawn, case-insensitive globals in the
namespace selected by with-do, getVariable/setVariable on the same storage.

Proof: coq/Properties_C03.v (about the VM model).  Correspondence: the extracted model and the real
interpreter on the same generated programs (listing, per-step trace, final observation).  Oracle: a direct
interpreter of the documented scoping rules for the generated programs (no frames, no instruction set);
the implementation's markers / VariableNotFound diagnostics must be what the rules say."""
import json, os, re, shutil, sys
import vcommon as V
import vmcommon as M
from vmcommon import N, B, S, Var, Arr, Code, Nul, Un, Bin, E, Asg, Loc, Prog

PID = "C03"
SPAWN_BASE = 10000          # marker ids of spawned script k are k*SPAWN_BASE + j
DEFAULT_NS = "missionNamespace"
NAMESPACES = ["uiNamespace", "missionNamespace"]


# =========================================================================== the oracle
class Throw(Exception):
    def __init__(self, v):
        self.v = v


class ExitScope(Exception):
    pass


def show(v):
    """diag_log's rendering of the values the generator uses"""
    if v is None:
        return ""
    if v is True:
        return "true"
    if v is False:
        return "false"
    if isinstance(v, list):
        return "[" + ",".join(show(x) for x in v) + "]"
    return str(v)


class Oracle:
    """The property, executed directly: a chain of scopes (dicts keyed by lower-cased name), one dict per
    namespace, the namespace selected by the innermost enclosing with-do passed down the recursion."""

    def __init__(self):
        self.ns = {}                 # namespace -> {lower name: value}; a key bound to None is "defined as nil"
        self.events = {0: []}        # script -> [("M", text) | ("NF",) | ("AN",)]
        self.pending = []            # spawned scripts: (id, this, block)
        self.stats = {"read_dist": {}, "assign_dist": {}, "created": 0, "shadowing_private": 0, "undefined_reads": 0,
                      "max_depth": 0, "global_rw_in_with": 0, "iterations_checked": 0, "case_mixed_hits": 0,
                      "scopes_ended_holding": 0}
        self.script = 0

    # ---- variables
    def ev(self, *e):
        self.events[self.script].append(tuple(e))

    def bump(self, d, k):
        d[k] = d.get(k, 0) + 1

    def find(self, chain, key):
        for dist, sc in enumerate(reversed(chain)):
            if key in sc:
                return dist, sc
        return None, None

    def read(self, name, chain, ns):
        key = name.lower()
        if key.startswith("_"):
            dist, sc = self.find(chain, key)
            if sc is None:
                self.ev("NF"); self.stats["undefined_reads"] += 1
                return None
            self.bump(self.stats["read_dist"], min(dist, 3))
            if name != key:
                self.stats["case_mixed_hits"] += 1
            return sc[key]
        store = self.ns.setdefault(ns, {})
        if key not in store:
            self.ev("NF"); self.stats["undefined_reads"] += 1
            return None
        if ns != DEFAULT_NS:
            self.stats["global_rw_in_with"] += 1
        if name != key:
            self.stats["case_mixed_hits"] += 1
        return store[key]

    def assign(self, name, v, chain, ns):
        if v is None:
            self.ev("AN")
        key = name.lower()
        if key.startswith("_"):
            dist, sc = self.find(chain, key)
            if sc is None:
                chain[-1][key] = v; self.stats["created"] += 1
            else:
                sc[key] = v; self.bump(self.stats["assign_dist"], min(dist, 3))
        else:
            self.ns.setdefault(ns, {})[key] = v
            if ns != DEFAULT_NS:
                self.stats["global_rw_in_with"] += 1

    def is_nil(self, name, chain, ns):
        key = name.lower()
        dist, sc = self.find(chain, key)
        if sc is not None:
            return sc[key] is None
        store = self.ns.setdefault(ns, {})
        return store.get(key) is None

    # ---- expressions
    def expr(self, e, chain, ns):
        k = e[0]
        if k == "lit":
            return e[1]
        if k == "var":
            return self.read(e[1], chain, ns)
        if k == "isnil":
            return self.is_nil(e[1], chain, ns)
        if k == "getvar":
            store = self.ns.setdefault(e[1], {})
            key = e[2].lower()
            if key in store:
                return store[key]
            return e[3]          # None for the string form
        if k == "arr":
            return [self.expr(x, chain, ns) for x in e[1]]
        if k == "plus1":          # counter + 1 (the generator keeps the counter a number)
            return self.read(e[1], chain, ns) + 1
        if k == "less":
            return self.read(e[1], chain, ns) < e[2]
        raise ValueError("expr " + str(e))

    # ---- scopes
    def scope(self, block, chain, ns, init=None):
        """run a block in a new scope; returns False when the scope was left by exitWith"""
        sc = dict(init or {})
        chain.append(sc)
        self.stats["max_depth"] = max(self.stats["max_depth"], len(chain))
        try:
            self.block(block, chain, ns)
            return True
        except ExitScope:
            return False
        finally:
            if len(sc) > len(init or {}):
                self.stats["scopes_ended_holding"] += 1
            while chain[-1] is not sc:      # scopes abandoned by a throw
                chain.pop()
            chain.pop()

    def block(self, block, chain, ns):
        for s in block:
            self.stmt(s, chain, ns)

    def stmt(self, s, chain, ns):
        k = s[0]
        if k == "mark":
            vals = [s[1]] + [self.expr(x, chain, ns) for x in s[2]]
            self.ev("M", show(vals))
        elif k == "asg":
            self.assign(s[1], self.expr(s[2], chain, ns), chain, ns)
        elif k == "loc":
            v = self.expr(s[2], chain, ns)
            if v is None:
                self.ev("AN")
            key = s[1].lower()
            if self.find(chain[:-1], key)[1] is not None:
                self.stats["shadowing_private"] += 1
            chain[-1][key] = v
        elif k == "priv":
            for n in s[1]:
                key = n.lower()
                if key not in chain[-1]:
                    if self.find(chain[:-1], key)[1] is not None:
                        self.stats["shadowing_private"] += 1
                    chain[-1][key] = None
        elif k == "params":
            d, sc = self.find(chain, "_this")
            this = sc["_this"] if sc is not None else None
            if not isinstance(this, list):
                this = [this]
            for i, (n, dflt) in enumerate(s[1]):
                chain[-1][n.lower()] = this[i] if i < len(this) else dflt
        elif k == "call":
            if s[2] is None:
                d, sc = self.find(chain, "_this")
                this = sc["_this"] if sc is not None else None
            else:
                this = self.expr(s[2], chain, ns)
            self.scope(s[1], chain, ns, {"_this": this})
        elif k == "if":
            c = self.expr(s[1], chain, ns)
            if c:
                self.scope(s[2], chain, ns)
            elif s[3] is not None:
                self.scope(s[3], chain, ns)
        elif k == "foreach":
            for i, x in enumerate(s[2]):
                self.stats["iterations_checked"] += 1
                if not self.scope(s[1], chain, ns, {"_x": x, "_foreachindex": i}):
                    break
        elif k in ("count", "apply", "select", "findif"):
            for x in s[2]:
                self.stats["iterations_checked"] += 1
                self.scope(s[1], chain, ns, {"_x": x})
        elif k == "for":
            i = s[2]
            while i <= s[3]:
                self.stats["iterations_checked"] += 1
                if not self.scope(s[4], chain, ns, {s[1].lower(): i}):
                    break
                i += 1
        elif k == "while":
            # condition and body run in the loop's scope, emptied before each of them
            while True:
                chain.append({})
                try:
                    # statements of the condition block (reads / isNil / plain assignments) run in the emptied loop scope
                    for cs in (s[4] if len(s) > 4 else []):
                        self.stmt(cs, chain, ns)
                    go = self.expr(("less", s[1], s[2]), chain, ns)
                finally:
                    chain.pop()
                if not go:
                    break
                self.stats["iterations_checked"] += 1
                if not self.scope([("asg", s[1], ("plus1", s[1]))] + list(s[3]), chain, ns):
                    break
        elif k == "switch":
            chosen = None
            for cv, blk in s[2]:
                if cv == s[1]:
                    chosen = blk
                    break
            if chosen is None:
                chosen = s[3]
            # the chosen block runs in the scope of the switch body
            self.scope(chosen if chosen is not None else [], chain, ns, {"___switch": "<switch>"})
        elif k == "try":
            depth = len(chain)
            try:
                self.scope(s[1], chain, ns)
            except Throw as t:
                del chain[depth:]
                self.scope(s[2], chain, ns, {"_exception": t.v})
        elif k == "throw":
            raise Throw(s[1])
        elif k == "exitwith":
            if self.expr(s[1], chain, ns):
                self.scope(s[2], chain, ns)
                raise ExitScope()
        elif k == "with":
            self.scope(s[2], chain, ns=s[1])
        elif k == "lazy":              # isNil {..}, true && {..}, false || {..}: the code runs once in its own scope
            self.scope(s[2], chain, ns)
        elif k == "spawn":
            self.pending.append((s[3], self.expr(s[1], chain, ns), s[2]))
        elif k == "execvm":
            # a script started from a file: like spawn, its argument is what was written left of execVM - nothing (nil) in the unary form
            self.pending.append((s[3], None if s[1] is None else self.expr(s[1], chain, ns), s[2]))
        elif k == "setvar":
            self.ns.setdefault(s[1], {})[s[2].lower()] = self.expr(s[3], chain, ns)
        else:
            raise ValueError("stmt " + str(s))

    def run(self, prog):
        self.script = 0
        self.scope(prog, [], DEFAULT_NS)
        while self.pending:
            sid, this, blk = self.pending.pop(0)
            self.script = sid
            self.events.setdefault(sid, [])     # instances of one spawn site run one after the other (they are short)
            # a spawned script: one scope holding _thisScript and _this, default namespace, no parent scopes
            self.scope(blk, [], DEFAULT_NS, {"_thisscript": "<script>", "_this": this})
        return self.events


# =========================================================================== rendering to the driver's tokens
def r_expr(e):
    k = e[0]
    if k == "lit":
        return N(e[1])
    if k == "var":
        return Var(e[1])
    if k == "isnil":
        return Un("isNil", S(e[1]))
    if k == "getvar":
        return Bin("getVariable", Nul(e[1]), S(e[2]) if e[3] is None else Arr(S(e[2]), N(e[3])))
    if k == "arr":
        return Arr(*[r_expr(x) for x in e[1]])
    raise ValueError(e)


def r_block(b, tail=None):
    ss = [r_stmt(s) for s in b]
    if tail is not None:
        ss.append(tail)
    return Code(*ss)


def r_stmt(s):
    k = s[0]
    if k == "mark":
        return E(Un("diag_log", Arr(N(s[1]), *[r_expr(x) for x in s[2]])))
    if k == "asg":
        return Asg(s[1], r_expr(s[2]))
    if k == "loc":
        return Loc(s[1], r_expr(s[2]))
    if k == "priv":
        return E(Un("private", S(s[1][0]) if len(s[1]) == 1 else Arr(*[S(n) for n in s[1]])))
    if k == "params":
        return E(Un("params", Arr(*[S(n) if d is None else Arr(S(n), N(d)) for n, d in s[1]])))
    if k == "call":
        return E(Un("call", r_block(s[1])) if s[2] is None else Bin("call", r_expr(s[2]), r_block(s[1])))
    if k == "if":
        c = Un("if", r_expr(s[1]) if s[1][0] != "lit" else B(bool(s[1][1])))
        return E(Bin("then", c, r_block(s[2]) if s[3] is None else Bin("else", r_block(s[2]), r_block(s[3]))))
    if k == "foreach":
        return E(Bin("forEach", r_block(s[1]), Arr(*[N(x) for x in s[2]])))
    if k == "count":
        return E(Bin("count", r_block(s[1], E(B(True))), Arr(*[N(x) for x in s[2]])))
    if k == "apply":
        return E(Bin("apply", Arr(*[N(x) for x in s[2]]), r_block(s[1], E(N(0)))))
    if k == "select":
        return E(Bin("select", Arr(*[N(x) for x in s[2]]), r_block(s[1], E(B(True)))))
    if k == "findif":
        return E(Bin("findIf", Arr(*[N(x) for x in s[2]]), r_block(s[1], E(B(False)))))
    if k == "lazy":
        if s[1] == "isnil":
            return E(Un("isNil", r_block(s[2], E(N(0)))))
        return E(Bin("&&" if s[1] == "and" else "||", B(s[1] == "and"), r_block(s[2], E(B(True)))))
    if k == "for":
        return E(Bin("do", Bin("to", Bin("from", Un("for", S(s[1])), N(s[2])), N(s[3])), r_block(s[4])))
    if k == "while":
        body = Code(Asg(s[1], Bin("+", Var(s[1]), N(1))), *[r_stmt(x) for x in s[3]])
        pre = [r_stmt(x) for x in (s[4] if len(s) > 4 else [])]
        return E(Bin("do", Un("while", Code(*(pre + [E(Bin("<", Var(s[1]), N(s[2])))]))), body))
    if k == "switch":
        parts = []
        for cv, blk in s[2]:
            parts.append(E(Bin(":", Un("case", N(cv)), r_block(blk))))
        if s[3] is not None:
            d = E(Un("default", r_block(s[3])))
            parts = ([d] + parts) if s[4] else (parts + [d])
        return E(Bin("do", Un("switch", N(s[1])), Code(*parts)))
    if k == "try":
        return E(Bin("catch", Un("try", r_block(s[1])), r_block(s[2])))
    if k == "throw":
        return E(Un("throw", N(s[1])))
    if k == "exitwith":
        c = Un("if", r_expr(s[1]) if s[1][0] != "lit" else B(bool(s[1][1])))
        return E(Bin("exitWith", c, r_block(s[2])))
    if k == "with":
        return E(Bin("do", Un("with", Nul(s[1])), r_block(s[2])))
    if k == "spawn":
        return E(Bin("spawn", r_expr(s[1]), r_block(s[2])))
    if k == "execvm":
        path = "/cv/" + s[4]
        return E(Un("execVM", S(path))) if s[1] is None else E(Bin("execVM", r_expr(s[1]), S(path)))
    if k == "setvar":
        return E(Bin("setVariable", Nul(s[1]), Arr(S(s[2]), r_expr(s[3]))))
    raise ValueError(s)


FILEDIR = [None]     # where the files of execVM'd scripts are written for this run


def execvm_sites(x, out):
    if isinstance(x, (list, tuple)):
        if len(x) == 5 and x[0] == "execvm":
            out.append(x)
        for y in x:
            execvm_sites(y, out)
    return out


def write_children(asts, drv):
    """every execVM site names a file: the text of its block, as the model driver prints a program, written where the site's path points"""
    sites = []
    for a in asts:
        execvm_sites(a, sites)
    if not sites:
        return 0
    os.makedirs(FILEDIR[0], exist_ok=True)
    rc, out, err = V.run_lines_parallel([drv], [";0;0;10000;150\t" + Prog(*[r_stmt(st) for st in s_[2]]) for s_ in sites])
    for s_, o in zip(sites, out):
        with open(os.path.join(FILEDIR[0], s_[4]), "wb") as fh:
            fh.write(V.unhx(o.split("\t")[0]))
    return len(sites)


def render(prog):
    return Prog(*[r_stmt(s) for s in prog])


# =========================================================================== generator
LOOPS = ("foreach", "for", "while", "count", "apply", "select", "findif")
CONSTRUCTS = ["call", "callarg", "then", "else", "foreach", "for", "while", "count", "apply", "select", "findif",
              "switch", "default", "try", "catch", "exitwith", "isnil", "and", "or", "with_ui", "with_mission"]


class ScopeGen(M.Gen):
    """Programs aimed at scoping: every name is written in a random letter case of one canonical name;
    every assigned value is a fresh number, so a marker tells which binding was read."""

    LOCALS = ["_abc", "_xy", "_q"]
    GLOBALS = ["gv", "hw"]

    def __init__(self, rng):
        super().__init__(rng)
        self.reset()

    # the names of a program come from pools that cover the whole alphabet (first and last letters included: a lower-casing that
    # misses one letter shows only on names that contain it), digits and inner underscores
    LOCAL_SETS = [["_abc", "_xy", "_q"], ["_zed", "_maxz", "_q"], ["_abc", "_jklmz", "_nopr"], ["_stuw", "_dfi", "_z"], ["_a1_z9", "_xy", "_aZyB".lower()],
                  ["_egh", "_zz", "_vw0"]]
    GLOBAL_SETS = [["gv", "hw"], ["zone", "hw"], ["gv", "jkz"], ["mpq", "edit"], ["az", "za"], ["lnr_t", "cfbz"]]

    def reset(self, script=0):
        k = self.rng.randrange(len(self.LOCAL_SETS))
        self.LOCALS = self.LOCAL_SETS[k]
        self.GLOBALS = self.GLOBAL_SETS[self.rng.randrange(len(self.GLOBAL_SETS))]
        self.mid = 0
        self.val = 100
        self.wn = 0
        self.nspawn = 0
        self.script = script

    # ---- names and values
    def case(self, name):
        r = self.rng
        k = r.random()
        if k < 0.3:
            return name
        if k < 0.45:
            return name.upper()
        if k < 0.6:
            i = 1 if name.startswith("_") else 0
            return name[:i] + name[i].upper() + name[i + 1:]
        return "".join(ch.upper() if r.random() < 0.5 else ch for ch in name)

    def fresh(self):
        self.val += 1
        return self.val

    def next_mark(self):
        self.mid += 1
        return self.script * SPAWN_BASE + self.mid

    def local(self):
        return self.case(self.rng.choice(self.LOCALS))

    def glob(self):
        if self.script:
            return self.case("sg%d" % self.script)
        return self.case(self.rng.choice(self.GLOBALS))

    def special(self):
        return self.case(self.rng.choice(["_this", "_x", "_forEachIndex", "_i", "_exception"]))

    # ---- leaf statements
    def mark_read(self, names=None):
        r = self.rng
        names = names or [self.local() if r.random() < 0.6 else (self.glob() if r.random() < 0.7 else self.special())]
        return ("mark", self.next_mark(), [("var", n) for n in names])

    def mark_nil(self, name=None):
        return ("mark", self.next_mark(), [("isnil", name or (self.local() if self.rng.random() < 0.7 else self.glob()))])

    def mark_getvar(self, name=None):
        r = self.rng
        g = name or self.glob()
        return ("mark", self.next_mark(), [("getvar", ns, self.case(g.lower()), -1 if r.random() < 0.7 else None)
                                           for ns in NAMESPACES])

    def rhs(self):
        r = self.rng
        if r.random() < 0.85:
            return ("lit", self.fresh())
        return ("var", self.local() if r.random() < 0.7 else self.glob())

    def leaf(self):
        r = self.rng
        k = r.random()
        if k < 0.22:
            return self.mark_read()
        if k < 0.34:
            return self.mark_nil()
        if k < 0.50:
            return ("asg", self.local(), self.rhs())
        if k < 0.60:
            return ("asg", self.glob(), self.rhs())
        if k < 0.72:
            return ("loc", self.local(), self.rhs())
        if k < 0.80:
            n = r.choice([1, 1, 2])
            return ("priv", [self.local() for _ in range(n)])
        if k < 0.87:
            return ("setvar", r.choice(NAMESPACES), self.glob(), ("lit", self.fresh()))
        if k < 0.95:
            return self.mark_getvar()
        return self.mark_read([self.special()])

    # ---- a construct around a block
    def wrap(self, kind, inner, ctx):
        """statements that run [inner] (a statement list) inside one scope opened by construct [kind]"""
        r = self.rng
        if kind == "call":
            return [("call", inner, None)]
        if kind == "callarg":
            return [("call", inner, ("arr", [("lit", self.fresh()), ("var", self.local())]))]
        if kind == "then":
            return [("if", ("lit", 1), inner, None if r.random() < 0.5 else [self.mark_read()])]
        if kind == "else":
            return [("if", ("lit", 0), [self.mark_read()], inner)]
        if kind == "foreach":
            return [("foreach", inner, [self.fresh() for _ in range(r.choice([1, 2, 2, 3]))])]
        if kind == "for":
            a = r.randint(0, 2)
            return [("for", self.case(r.choice(["_i", "_k"])), a, a + r.choice([0, 1, 1, 2]), inner)]
        if kind == "while":
            self.wn += 1
            w = "_w%d" % self.wn
            # the condition block looks at (and sometimes plainly assigns) names the body may bind: what the body bound
            # in one round must be gone when the condition runs again
            pre = []
            if r.random() < 0.7:
                pre.append(self.mark_read([self.local()]))
            if r.random() < 0.5:
                pre.append(self.mark_nil(self.local()))
            if r.random() < 0.3:
                pre.append(("asg", self.local(), ("lit", self.fresh())))
            return [("loc", w, ("lit", 0)), ("while", w, r.choice([2, 2, 3]), inner, pre)]
        if kind == "count":
            return [("count", inner, [self.fresh() for _ in range(r.choice([1, 2]))])]
        if kind in ("apply", "select", "findif"):
            return [(kind, inner, [self.fresh() for _ in range(r.choice([1, 2]))])]
        if kind in ("isnil", "and", "or"):
            return [("lazy", kind, inner)]
        if kind == "switch":
            v = r.randint(1, 3)
            cases = [(c, inner if c == v else [self.mark_read()]) for c in sorted(r.sample([1, 2, 3], r.choice([1, 2, 3])) + ([v] if r.random() < 2 else []))]
            seen, cs = set(), []
            for c, b in cases:
                if c not in seen:
                    seen.add(c); cs.append((c, b))
            return [("switch", v, cs, [self.mark_read()] if r.random() < 0.5 else None, r.random() < 0.3)]
        if kind == "default":
            return [("switch", 9, [(1, [self.mark_read()])], inner, r.random() < 0.5)]
        if kind == "try":
            return [("try", inner, [self.mark_read([self.case("_exception")])])]
        if kind == "catch":
            pre = [self.leaf() for _ in range(r.randint(0, 2))]
            thrower = [("throw", self.fresh())]
            if r.random() < 0.4:
                thrower = [("call", [self.leaf(), ("throw", self.fresh()), self.mark_read()], None)]
            return [("try", pre + thrower + [self.mark_read()], [self.mark_read([self.case("_exception")])] + inner)]
        if kind == "exitwith":
            # the handler runs above the scope it ends; contain it in a call so the program goes on
            tail = [self.mark_read()]
            return [("call", [self.leaf(), ("exitwith", ("lit", 1), inner)] + tail, None)]
        if kind == "with_ui":
            return [("with", "uiNamespace", inner)]
        if kind == "with_mission":
            return [("with", "missionNamespace", inner)]
        raise ValueError(kind)

    def direct_exit_ok(self, kind):
        return kind not in ("count", "apply", "select", "findif", "isnil", "and", "or")

    def inner_ctx(self, ctx, kind):
        c = dict(ctx, exit_ok=self.direct_exit_ok(kind))
        if kind == "try":
            c["in_try"] = True
        if kind in LOOPS:
            c["in_loop"] = True       # a spawn site inside a loop would start several instances sharing their globals
        return c

    def stmts(self, depth, n, ctx):
        out = []
        for _ in range(n):
            out += self.stmt(depth, ctx)
        return out

    def stmt(self, depth, ctx):
        r = self.rng
        if depth <= 0 or r.random() < 0.45:
            return [self.leaf()]
        k = r.random()
        if k < 0.06 and ctx.get("exit_ok", True):
            # a bare exitWith: ends the enclosing scope (a loop when directly in its body)
            cond = ("lit", 1) if r.random() < 0.5 else ("isnil", self.local())
            return [("exitwith", cond, self.stmts(depth - 1, r.randint(1, 2), dict(ctx, exit_ok=True)))]
        if k < 0.12 and self.script == 0 and self.nspawn < 3 and not ctx.get("in_loop"):
            return [self.spawn(depth - 1)]
        if k < 0.16 and ctx.get("in_try"):
            return [("throw", self.fresh())]
        kind = r.choice(CONSTRUCTS)
        inner_ctx = self.inner_ctx(ctx, kind)
        inner = self.stmts(depth - 1, r.randint(1, 3), inner_ctx)
        return self.wrap(kind, inner, ctx)

    def spawn(self, depth):
        self.nspawn += 1
        sid = self.nspawn
        saved = (self.script, self.mid)
        self.script, self.mid = sid, 0
        body = [self.mark_read([self.local()]), self.mark_nil(self.local())]
        body += self.stmts(depth, self.rng.randint(1, 3), {"exit_ok": True})
        body += [("asg", self.glob(), ("lit", self.fresh())), self.mark_getvar(self.glob()), self.mark_read([self.case("_this")])]
        self.script, self.mid = saved
        arg = ("arr", [("var", self.local()), ("lit", self.fresh())])
        return ("spawn", arg, body, sid)

    # ---- whole programs
    def random_program(self, depth=3):
        self.reset()
        r = self.rng
        prog = []
        for v in self.LOCALS:
            if r.random() < 0.6:
                prog.append(("loc", self.case(v), ("lit", self.fresh())))
        for g in self.GLOBALS:
            if r.random() < 0.5:
                prog.append(("asg", self.case(g), ("lit", self.fresh())))
        # at least one place where two scopes are open
        k1, k2 = r.choice(CONSTRUCTS), r.choice(CONSTRUCTS)
        c1 = self.inner_ctx({}, k1)
        inner2 = self.stmts(depth - 2, r.randint(1, 3), self.inner_ctx(c1, k2))
        inner1 = self.stmts(depth - 2, r.randint(0, 2), c1) \
            + self.wrap(k2, inner2, {}) + [self.leaf()]
        prog += self.wrap(k1, inner1, {})
        prog += self.stmts(depth, r.randint(1, 3), {"exit_ok": False})
        prog += [self.mark_read([self.case(v)]) for v in self.LOCALS] + [self.mark_getvar(self.case(g)) for g in self.GLOBALS]
        return prog

    def template_local(self, outer, inner, level, op):
        """name defined [level] scopes above the innermost one (0 = there, 1, 2, 3 = nowhere); [op] in the innermost"""
        self.reset()
        nm = "_abc"
        c = self.case
        probe = lambda: [("mark", self.next_mark(), [("var", c(nm)), ("isnil", c(nm))])]
        d = lambda: [("loc", c(nm), ("lit", self.fresh()))]
        if op == "assign":
            o = [("asg", c(nm), ("lit", self.fresh()))]
        elif op == "private":
            o = [("priv", [c(nm)])]
        elif op == "private_array":
            o = [("priv", [c("_xy"), c(nm)])]
        elif op == "private_assign":
            o = [("loc", c(nm), ("lit", self.fresh()))]
        elif op == "assign_after_private":
            o = [("priv", [c(nm)]), ("asg", c(nm), ("lit", self.fresh()))]
        else:
            o = []
        body2 = (d() if level == 0 else []) + probe() + o + probe()
        body1 = (d() if level == 1 else []) + probe() + self.wrap(inner, body2, {}) + probe()
        return (d() if level == 2 else []) + self.wrap(outer, body1, {}) + probe()

    def template_global(self, outer, inner, sel, op):
        """global written/read inside [outer [inner]] under with-do selections [sel]"""
        self.reset()
        nm = "gv"
        c = self.case
        probe = lambda: [("mark", self.next_mark(), [("var", c(nm)), ("isnil", c(nm)),
                                                     ("getvar", "uiNamespace", c(nm), -1), ("getvar", "missionNamespace", c(nm), -1)])]
        if op == "assign":
            o = [("asg", c(nm), ("lit", self.fresh()))]
        elif op == "setvar_ui":
            o = [("setvar", "uiNamespace", c(nm), ("lit", self.fresh()))]
        elif op == "setvar_mission":
            o = [("setvar", "missionNamespace", c(nm), ("lit", self.fresh()))]
        else:
            o = []
        body = probe() + o + probe()
        body = self.wrap(inner, body, {})
        if sel[1]:
            body = [("with", sel[1], body + probe())]
        body = self.wrap(outer, probe() + body + probe(), {})
        if sel[0]:
            body = [("with", sel[0], body + probe())]
        pre = [("asg", c(nm), ("lit", self.fresh()))] if self.rng.random() < 0.5 else []
        return pre + body + probe()

    def template_spawn(self, outer):
        self.reset()
        c = self.case
        pre = [("loc", c("_abc"), ("lit", self.fresh())), ("asg", c("gv"), ("lit", self.fresh()))]
        self.nspawn = 1
        saved = (self.script, self.mid)
        self.script, self.mid = 1, 0
        body = [("mark", self.next_mark(), [("var", c("_abc")), ("isnil", c("_abc")), ("var", c("_this"))]),
                ("asg", c("_abc"), ("lit", self.fresh())),
                ("asg", c("sg1"), ("lit", self.fresh())),
                ("mark", self.next_mark(), [("var", c("_abc")), ("var", c("sg1")),
                                            ("getvar", "uiNamespace", c("sg1"), -1), ("getvar", "missionNamespace", c("sg1"), -1)])]
        self.script, self.mid = saved
        sp = [("spawn", ("arr", [("var", c("_abc")), ("lit", self.fresh())]), body, 1)]
        return pre + self.wrap(outer, [("loc", c("_xy"), ("lit", self.fresh()))] + sp + [self.mark_read([c("_abc")])], {}) \
            + [self.mark_read([c("_abc")])]

    def template_execvm(self, outer, unary, source, n):
        """a script started from a file sees none of the starter's locals: not the ordinary ones, not the starter's _this / _x / _exception;
        its _this is what was written left of execVM (nil in the unary form). The starter has a _this of its own from: a call with
        arguments, being spawned itself, a plain local assignment, or has none (top)."""
        self.reset()
        c = self.case
        r = self.rng
        pre = [("loc", c("_abc"), ("lit", self.fresh())), ("asg", c("gv"), ("lit", self.fresh()))]
        sid = 2 if source == "spawn" else 1
        saved = (self.script, self.mid)
        self.script, self.mid = sid, 0
        body = [("mark", self.next_mark(), [("isnil", c("_this")), ("var", c("_this")), ("isnil", c("_abc")), ("isnil", c("_xy"))]),
                ("mark", self.next_mark(), [("isnil", c("_x")), ("isnil", c("_exception")), ("isnil", c("_forEachIndex")), ("isnil", c("_q"))]),
                ("asg", c("_abc"), ("lit", self.fresh())),
                ("asg", c("sg%d" % sid), ("lit", self.fresh())),
                ("mark", self.next_mark(), [("var", c("_abc")), ("getvar", "missionNamespace", c("sg%d" % sid), -1)])]
        self.script, self.mid = saved
        arg = None if unary else r.choice([("lit", self.fresh()), ("arr", [("var", c("_abc")), ("lit", self.fresh())])]
                                          + ([("var", c("_this"))] if source != "top" else []))
        site = [("execvm", arg, body, sid, "c%05d.sqf" % n)]
        if source == "spawn":
            self.script, self.mid = 1, 100      # the starter is script 1: its markers carry that number
        inner = [("loc", c("_xy"), ("lit", self.fresh()))] + site + [self.mark_read([c("_abc"), c("_xy")])]
        wrapped = self.wrap(outer, inner, {}) if outer else inner
        self.script, self.mid = saved
        if source == "callarg":
            mid = [("call", [("loc", c("_q"), ("lit", self.fresh()))] + wrapped, ("arr", [("lit", self.fresh()), ("lit", self.fresh())]))]
        elif source == "assign":
            mid = [("asg", c("_this"), ("lit", self.fresh()))] + wrapped
        elif source == "spawn":
            self.script, self.mid = 1, 0
            sb = [self.mark_read([c("_this")])] + wrapped + [self.mark_read([c("_this")])]
            self.script, self.mid = saved
            mid = [("spawn", ("arr", [("lit", self.fresh())]), sb, 1)]
        else:
            mid = wrapped
        return pre + mid + [self.mark_read([c("_abc")])]

    def template_iteration(self, kind):
        """a binding made in one iteration must be gone in the next"""
        self.reset()
        c = self.case
        body = [("mark", self.next_mark(), [("isnil", c("_q")), ("isnil", c("_abc"))]),
                ("loc", c("_q"), ("lit", self.fresh())),
                ("asg", c("_xy"), ("lit", self.fresh())),        # no holder: created in the iteration's scope
                ("asg", c("_abc"), ("lit", self.fresh())),       # held outside: updated there
                ("mark", self.next_mark(), [("var", c("_q")), ("var", c("_xy")), ("var", c("_abc"))])]
        if kind in ("foreach", "count", "apply", "select", "findif"):
            body.append(self.mark_read([c("_x")]))
        if kind == "foreach":
            body.append(self.mark_read([c("_forEachIndex")]))
        if kind == "for":
            body.append(self.mark_read([c("_i")]))
        if kind == "for":
            loop = [("for", c("_i"), 0, 2, body)]
        elif kind == "while":
            loop = [("loc", "_w1", ("lit", 0)), ("while", "_w1", 3, body,
                                                  [("mark", self.next_mark(), [("isnil", c("_q")), ("isnil", c("_xy"))])])]
        else:
            loop = [(kind, body, [self.fresh(), self.fresh(), self.fresh()])]
        return [("loc", c("_abc"), ("lit", self.fresh()))] + loop + \
               [("mark", self.next_mark(), [("var", c("_abc")), ("isnil", c("_q")), ("isnil", c("_xy")), ("isnil", c("_x"))])]

    def params_program(self):
        """params binds in the current scope (oracle only: params is not in the VM model)"""
        self.reset()
        r = self.rng
        c = self.case
        names = [c("_abc"), c("_xy"), c("_q")]
        r.shuffle(names)
        spec = [(n, None if r.random() < 0.5 else self.fresh()) for n in names[:r.randint(1, 3)]]
        args = ("arr", [("lit", self.fresh()) for _ in range(r.randint(0, 3))])
        inner = [("params", spec)] + [self.mark_read([c(n)]) for n in self.LOCALS] + [("asg", c("_abc"), ("lit", self.fresh()))]
        pre = [("loc", c(v), ("lit", self.fresh())) for v in self.LOCALS if r.random() < 0.6]
        mid = [("call", inner + [self.mark_read([c("_abc")])], args)]
        if r.random() < 0.5:
            mid = self.wrap(r.choice(["call", "then", "foreach", "with_ui"]), mid, {})
        return pre + mid + [self.mark_read([c(n)]) for n in self.LOCALS]


# =========================================================================== observation of a run
EV_RE = re.compile(r"M<(.*?)>,|(\d+):(\d+),")


def diag_codes():
    src = open(os.path.join(V.COQ, "Gen", "DiagCodes.v")).read()
    out = {}
    for name in ("VariableNotFound", "AssigningNilValue", "InfoMessage", "ContextValuePrint"):
        m = re.search(r"d_%s\s*:\s*Z \* Z\s*:=\s*\((\d+),\s*(\d+)\)" % name, src)
        out[name] = (int(m.group(1)), int(m.group(2)))
    return out


def observe(final, codes):
    """final observation -> (head, {script: events}, counts, other diagnostics)"""
    m = re.match(r"(-?\d+:\d+):(.*)$", final, re.S)
    if not m:
        return None
    head, rest = m.group(1), m.group(2)
    scripts = {0: []}
    flat = []
    other = []
    for mm in EV_RE.finditer(rest):
        if mm.group(1) is not None:
            t = mm.group(1)
            if t.startswith("VALUE "):
                continue
            im = re.match(r"\[(\d+)", t)
            sid = int(im.group(1)) // SPAWN_BASE if im else 0
            scripts.setdefault(sid, []).append(("M", t))
            flat.append(("M", t))
        else:
            lc = (int(mm.group(2)), int(mm.group(3)))
            if lc == codes["VariableNotFound"]:
                flat.append(("NF",))
            elif lc == codes["AssigningNilValue"]:
                flat.append(("AN",))
            elif lc in (codes["InfoMessage"], codes["ContextValuePrint"]):
                pass
            else:
                other.append("%d:%d" % lc)
    return head, scripts, flat, other


def expected_of(events):
    """oracle events -> the same shape as observe()"""
    scripts = {sid: [e for e in evs if e[0] == "M"] for sid, evs in events.items()}
    return scripts


def judge(final, events, codes):
    """None when the observation is what the scoping rules prescribe, else a description"""
    ob = observe(final, codes)
    if ob is None:
        return "unreadable outcome: " + final[:200]
    head, scripts, flat, other = ob
    if head != "-1:0":
        return "run did not finish cleanly (result:state %s)" % head
    if other:
        return "unexpected diagnostics " + ",".join(other[:5])
    exp = expected_of(events)
    for sid in sorted(set(exp) | set(scripts)):
        a, b = exp.get(sid, []), scripts.get(sid, [])
        if a != b:
            for i in range(max(len(a), len(b))):
                x = a[i][1] if i < len(a) else "<nothing>"
                y = b[i][1] if i < len(b) else "<nothing>"
                if x != y:
                    return "script %d, marker %d: the scoping rules give %s, observed %s" % (sid, i, x, y)
    if len(events) == 1:
        if flat != events[0]:
            return "order/number of VariableNotFound / assigning-nil diagnostics differs: rules %s, observed %s" % (
                [e[0] for e in events[0]][:40], [e[0] for e in flat][:40])
    else:
        for tag in ("NF", "AN"):
            want = sum(1 for evs in events.values() for e in evs if e[0] == tag)
            got = sum(1 for e in flat if e[0] == tag)
            if want != got:
                return "%d %s diagnostics expected by the rules, %d observed" % (want, tag, got)
    return None


def to_lists(x):
    if isinstance(x, (list, tuple)):
        return [to_lists(y) for y in x]
    return x


# =========================================================================== main
def main(replay=None):
    run = V.Run(PID, "proof")
    rng = run.rng
    thorough = run.tier == "thorough"
    problems = run.prove()
    himpl, drv = M.build()
    codes = diag_codes()
    gen = ScopeGen(rng)

    cases = []   # (kind, ast)

    if replay:
        rp = json.load(open(replay))["replay"]
        if rp.get("ast") is not None:
            cases.append((rp.get("kind", "replay"), rp["ast"]))
    else:
        cdir = os.path.join(V.VERIF, "corpus", PID)
        if os.path.isdir(cdir):
            for fn in sorted(os.listdir(cdir)):
                if fn.endswith(".json"):
                    cases.append(("corpus:" + fn, json.load(open(os.path.join(cdir, fn)))["ast"]))
        ops = ["read", "assign", "private", "private_array", "private_assign", "assign_after_private"]
        pairs = [(o, i) for o in CONSTRUCTS for i in CONSTRUCTS]
        # every ordered pair of constructs, with definition level and operation cycling through all combinations
        reps = 4 if thorough else 1
        n = 0
        for rep in range(reps):
            for o, i in pairs:
                for j in range(3):
                    level = (n + j) % 4
                    op = ops[(n // 4 + j) % len(ops)]
                    cases.append(("local:%s" % op, gen.template_local(o, i, level, op)))
                n += 1
        sels = [(None, None), ("uiNamespace", None), (None, "uiNamespace"), ("uiNamespace", "missionNamespace"),
                ("missionNamespace", "uiNamespace"), ("uiNamespace", "uiNamespace")]
        gops = ["assign", "setvar_ui", "setvar_mission", "read"]
        n = 0
        for rep in range(reps):
            for o, i in pairs:
                for k in range(2):
                    cases.append(("global:%s" % gops[(n + k) % 4], gen.template_global(o, i, sels[(n // 4 + k) % len(sels)], gops[(n + k) % 4])))
                n += 1
        for rep in range(4 * reps):
            for o in CONSTRUCTS:
                cases.append(("spawn", gen.template_spawn(o)))
        nx = 0
        for rep in range(reps):
            for o in [None] + CONSTRUCTS:
                for source in ("callarg", "assign", "spawn", "top"):
                    for unary in (True, False):
                        if o is not None and not thorough and (nx % 3) and source == "top":
                            nx += 1
                            continue
                        nx += 1
                        cases.append(("execvm(oracle only)", gen.template_execvm(o, unary, source, nx)))
        for rep in range(6 * reps):
            for kd in LOOPS:
                cases.append(("iteration", gen.template_iteration(kd)))
        for _ in range(12000 if thorough else 1000):
            cases.append(("random", gen.random_program(3 if rng.random() < 0.7 else 4)))
        for _ in range(1500 if thorough else 150):
            cases.append(("params(oracle only)", gen.params_program()))

    FILEDIR[0] = os.path.join(V.BUILD, "c03-files-%d" % os.getpid())
    os.environ["VH_FILES"] = FILEDIR[0]
    nfiles = write_children([ast for kind, ast in cases], drv)
    progs = [render(ast) for kind, ast in cases]
    res = M.run_programs(himpl, drv, progs)
    shutil.rmtree(FILEDIR[0], ignore_errors=True)

    kinds, distinct, samples = {}, set(), []
    totals = {}
    unsupported = oracle_only = compared = model_vs_rules = 0
    for (kind, ast), d in zip(cases, res):
        kk = kind.split(":")[0]
        kinds[kk] = kinds.get(kk, 0) + 1
        rep = {"kind": kind, "ast": to_lists(ast), "text": d.get("text"), "prog": d["prog"]}
        if d.get("text") is None:
            run.violation("model driver gave no answer for a generated program (machinery)", dict(rep, model=d.get("model_raw")), found_input=False)
            continue
        orc = Oracle()
        try:
            events = orc.run(ast)
        except RecursionError:
            continue
        for k, v in orc.stats.items():
            if isinstance(v, dict):
                t = totals.setdefault(k, {})
                for a, b in v.items():
                    t[str(a)] = t.get(str(a), 0) + b
            elif k == "max_depth":
                totals[k] = max(totals.get(k, 0), v)
            else:
                totals[k] = totals.get(k, 0) + v
        nmark = sum(1 for evs in events.values() for e in evs if e[0] == "M")
        if orc.stats["max_depth"] >= 3 and nmark > 0:     # main scope + two nested scopes
            distinct.add(d["text"])
        if len(samples) < 8 and kk not in [s["kind"].split(":")[0] for s in samples]:
            samples.append({"kind": kind, "text": d["text"][:600], "impl_final": d.get("i_final", "")[:300],
                            "rules": {str(s): [e[1] for e in evs if e[0] == "M"][:8] for s, evs in events.items()}})
        rep["impl_final"] = d.get("i_final")
        rep["model_final"] = d.get("m_final")
        # 1. the property itself
        why = judge(d.get("i_final", ""), events, codes)
        if why:
            rep["rules_expect"] = {str(s): [list(e) for e in evs] for s, evs in events.items()}
            run.violation("scoping rules violated: " + why, rep)
            continue
        # 2. correspondence with the model (params is not an operator of the model: rules only)
        if kk.startswith("params") or kk.startswith("execvm"):
            oracle_only += 1
            continue
        mo = (d.get("m_final", ""), d.get("m_trace", ""))
        if any(x.startswith("UNSUPPORTED") or "UNSUPPORTED" in x.split("|")[-1] for x in mo):
            unsupported += 1
            continue
        compared += 1
        mwhy = judge(d["m_final"], events, codes)
        if mwhy:
            model_vs_rules += 1
            rep["broken"] = "VM model (VmDefs.v) against the scoping rules"
            run.violation("MODEL disagrees with the scoping rules on a program the implementation gets right (machinery): " + mwhy, rep, found_input=False)
            continue
        for part in ("listing", "trace", "final"):
            if d["m_" + part] != d["i_" + part]:
                fd = M.first_diff(d["m_" + part], d["i_" + part], "|" if part == "trace" else ("," if part == "final" else ";"))
                rep["broken"] = "correspondence VmDefs.exec_instr/enact/do_iter (theorems of Properties_C03.v) vs runtime: " + part
                rep["first_difference"] = list(fd) if fd else None
                rep["model_" + part] = d["m_" + part]
                rep["impl_" + part] = d["i_" + part]
                run.violation("implementation and model disagree on the %s (scoping rules satisfied on this program)" % part, rep, found_input=False)
                break
    # 3. the namespaces are interchangeable: the property speaks of "the namespace selected by with-do", not of two particular ones.  The
    #    programs that name uiNamespace are run again with parsingNamespace / profileNamespace in its place (missionNamespace stays: it is
    #    the default), and fixed programs read the selected namespace back through currentNamespace.  Implementation only: markers,
    #    diagnostics and value must be the same as with uiNamespace, which the rules above have already judged.
    nsym = 0
    if replay and rp.get("ast") is None:
        # replay of a case of this family
        if "expected_markers" in rp:
            rc_, iout, err_ = V.run_lines_parallel([himpl], ["0;0;10000\t%s" % M.hexs(rp["text"])], timeout=600)
            f = iout[0].split("\t"); got = f[2] if len(f) == 3 else iout[0]
            if re.findall(r"M<[^>]*>", got)[:2] != rp["expected_markers"]:
                run.violation("scoping rules violated: with-do / currentNamespace / getVariable / setVariable do not name the same storage", dict(rp, impl_final=got))
        else:
            x = [k[5:] for k in rp if k.startswith("with_") and k != "with_uiNamespace"][0]
            il = ["0;0;10000\t%s" % M.hexs(t) for t in (rp["text"], rp["text"].replace(x, "uiNamespace"))]
            rc_, iout, err_ = V.run_lines_parallel([himpl], il, timeout=600)
            fin = [(io.split("\t")[2] if len(io.split("\t")) == 3 else io) for io in iout]
            if fin[0] != fin[1]:
                run.violation("scoping rules violated: the program behaves differently when %s stands where uiNamespace stood" % x, dict(rp, **{"with_uiNamespace": fin[1], "with_" + x: fin[0]}))
        nsym = 1
    elif not replay:
        base = [(kind, d) for (kind, ast), d in zip(cases, res) if d.get("text") and "uiNamespace" in d["text"] and "i_final" in d and not kind.startswith("execvm")]
        if len(base) > (4000 if thorough else 500):
            base = rng.sample(base, 4000 if thorough else 500)
        others = ["parsingNamespace", "profileNamespace"]
        vt, vmeta = [], []
        for n_, (kind, d) in enumerate(base):
            for x in (others if thorough else [others[n_ % 2]]):
                vt.append(d["text"].replace("uiNamespace", x)); vmeta.append((kind, d, x))
        # every namespace selected by with-do is the one currentNamespace names, and no other namespace sees the write
        ALLNS = ["missionNamespace", "uiNamespace", "parsingNamespace", "profileNamespace"]
        fixed = []
        for a in ALLNS:
            v = rng.randint(10, 99)
            rest = [b for b in ALLNS if b != a]
            t = ('with %s do { gq = %d; diag_log [currentNamespace getVariable "gq", %s getVariable "Gq", %s] }; '
                 'diag_log [currentNamespace getVariable ["gq", -2], gq]; 0'
                 % (a, v, a, ", ".join('%s getVariable ["gQ", -1]' % b for b in rest)))
            outer = [str(v), str(v)] if a == "missionNamespace" else ["-2", ""]
            fixed.append((t, "M<[%d,%d,-1,-1,-1]>" % (v, v), "M<[%s]>" % ",".join(outer)))
            for b in rest:
                w = rng.randint(100, 199)
                t2 = ('with %s do { with %s do { gq = %d }; currentNamespace setVariable ["gr", %d]; diag_log [gq, gr] }; '
                      'diag_log [%s getVariable ["gq", -1], %s getVariable ["gr", -1], %s getVariable ["gq", -1], %s getVariable ["gr", -1]]; 0'
                      % (a, b, v, w, a, a, b, b))
                # inside `with a`: gq was written to b, gr to a
                fixed.append((t2, "M<[,%d]>" % w, "M<[-1,%d,%d,-1]>" % (w, v)))
        # a global is found exactly in the namespace that holds it, whatever kind of value it holds (number, string, array, code, boolean,
        # hashmap, namespace): defined in a (through with-do, setVariable or - for missionNamespace - at top level), read in b
        VALS = ["7", '"s"', "[1]", "{ 7 }", "true", "createHashMap", "uiNamespace", "{ }", "[{ 1 }]"]
        nv_ = 0
        for a in ALLNS:
            for b in ALLNS:
                for how in ("with", "setvar", "top"):
                    if how == "top" and a != "missionNamespace":
                        continue
                    nv_ += 1
                    vals = VALS if thorough else [VALS[(nv_ + k) % len(VALS)] for k in (0, 3, 4)] + ["{ 7 }"]
                    for v in vals:
                        df = {"with": "with %s do { gQ = %s }" % (a, v), "setvar": '%s setVariable ["Gq", %s]' % (a, v), "top": "gq = %s" % v}[how]
                        t = ('%s; with %s do { diag_log [isNil "gq", isNil { gQ }, isNil { call { Gq } }, isNil { %s getVariable "gq" }, '
                             'isNil { currentNamespace getVariable "GQ" }, { isNil "gq" } forEach [1]] }; '
                             'diag_log [isNil "gq"]; 0' % (df, b, b))
                        e1 = "true" if a != b else "false"
                        e2 = "true" if a != "missionNamespace" else "false"
                        fixed.append((t, "M<[%s]>" % ",".join([e1] * 6), "M<[%s]>" % e2))
        il = ["0;0;10000\t%s" % M.hexs(t) for t in vt + [f[0] for f in fixed]]
        rc_, iout, err_ = V.run_lines_parallel([himpl], il, timeout=3000)
        for (kind, d, x), io in zip(vmeta, iout):
            f = io.split("\t")
            got = f[2] if len(f) == 3 else io
            nsym += 1
            if got != d["i_final"]:
                run.violation("scoping rules violated: the program behaves differently when %s stands where uiNamespace stood (every namespace is "
                              "selected by with-do and read / written by getVariable / setVariable in the same way)" % x,
                              {"kind": "namespace-symmetry:" + kind, "text": d["text"].replace("uiNamespace", x), "with_uiNamespace": d["i_final"],
                               "with_" + x: got, "ast": None})
        for (t, m1, m2), io in zip(fixed, iout[len(vt):]):
            f = io.split("\t")
            got = f[2] if len(f) == 3 else io
            marks = re.findall(r"M<[^>]*>", got)
            nsym += 1
            if marks[:2] != [m1, m2] or len(marks) != 3:
                run.violation("scoping rules violated: with-do / currentNamespace / getVariable / setVariable do not name the same storage: expected the markers %s %s" % (m1, m2),
                              {"kind": "namespace-fixed", "text": t, "impl_final": got, "expected_markers": [m1, m2], "ast": None})
    run.cov["namespace_symmetry_cases"] = nsym

    for p in problems:
        run.violation("proof obligation not discharged: " + p, {"broken": p, "theorems": run.cov["theorems"]}, found_input=False)

    run.cov["evaluations"] = len(cases)
    run.cov["distinct_nontrivial"] = len(distinct)
    run.cov["rule"] = ("programs over locals _abc/_xy/_q and globals gv/hw written in random letter case; every assigned value is a "
                       "fresh number, so a marker identifies the binding that was read. Templates: every ordered pair of %d scope-opening "
                       "constructs (%s) x name defined 0/1/2 scopes up or nowhere x {read, assign, private \"x\", private [..], "
                       "private x =, private then assign}; the same pairs for a global under 6 with-do selections x {assign, setVariable "
                       "ui/mission, read} observed through the plain read, isNil and getVariable on both namespaces; spawned readers inside "
                       "every construct; per-iteration clearing for the 7 loops; random nestings of depth 3-4 with throw / exitWith / spawn; "
                       "params programs (rules only); scripts started with execVM from a file (unary and with an argument) out of every construct, by a starter "
                       "that has a _this of its own (called with arguments, spawned, plainly assigned) or none: the started script sees none of the starter's "
                       "locals and its _this is the argument or nil (rules only). A case is non-trivial when at least two scopes are open below the main scope at some "
                       "point and a marker is logged; distinct by program text. Verdict per program: (1) markers per script, and the "
                       "sequence of VariableNotFound / assigning-nil diagnostics, against a direct interpreter of the scoping rules; "
                       "(2) model vs implementation: listing, per-step trace, final observation."
                       % (len(CONSTRUCTS), ", ".join(CONSTRUCTS)))
    run.cov["input_distribution"] = kinds
    run.cov["oracle_statistics"] = totals
    run.cov["model_compared"] = compared
    run.cov["model_unsupported"] = unsupported
    run.cov["oracle_only_params"] = oracle_only
    run.cov["samples"] = samples
    run.cov["trusted_base"] = ["Coq 8.16.1 kernel", "ExtrOcamlBasic extraction + ocaml/vm_driver.ml", "harness/h_vm.cpp (fork, virtual clock)",
                               "the Python scoping interpreter and generator in checks/C03.py",
                               "VM model VM/VmDefs.v, VM/VmExec.v: hand-written, tied to the C++ only by this differential run"]
    return run.finish()
