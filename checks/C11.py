"""C11 - Execution bounds hold: max runtime per run, loop cap in unscheduled code.

Proof side: coq/Properties_C11.v. Correspondence under the virtual clock (every clock query advances the clock by `tick`
on both sides): one VM, histories of loads / starts / single steps / aborts with the clock advanced in between
(harness/h_sched.cpp vs ocaml/sched_driver.ml running coq/VM/SchedDefs.v run_history).
ORACLE (the property): a run of a program that never ends by itself is cut: result 2 (runtime_error), state 0 (empty),
0:60002 logged, and the virtual time it took is at most limit + 5 ticks; the run after it on the same VM executes
normally however much time passed in between; a short program on an old VM completes; a while loop in unscheduled code
begins at most `cap` iterations (counter observed from inside the loop).
C API family (implementation only, harness line "api;.."): the same clauses for an instance created WITH the limit through
sqfvm_create_instance(_basic) and driven by sqfvm_call / sqfvm_load_config / sqfvm_status - what a run is given does not depend
on the calls made before it (executing or not: syntax error, preprocessing error, preprocess only, transpile, invalid type, config
load, status) nor on the time the host let pass between them: expected markers, return value, cut time computed by the generator.
Several instances in ONE process (implementation only, harness line "mapi;.."): 2 - 3 instances created with DIFFERENT limits
(0 = none), in every order of creation and of first execution (a run, an __EVAL while sqfvm_call / sqfvm_load_config preprocess a
text), also one destroyed before the next is created: every call is judged by the same oracle against the limit of ITS instance - a
run ends within its own instance's limit and not before it, an instance without a limit is never cut. The model has one VM; that a
run depends on no other VM of the process is the property's "every run" read per instance (metamorphic, no Coq theorem)."""
import json, os, sys
import vcommon as V
import vmcommon as M
import schedcommon as SC
from vmcommon import N, B, S, Var, Arr, Code, Nul, Un, Bin, E, Asg, Loc, Prog

PID = "C11"
SLACK_TICKS = 5


def dl(x):
    return E(Un("diag_log", x))


def wh(cond, body):
    return E(Bin("do", Un("while", Code(*cond)), Code(*body)))


def forloop(var, a, b, step, body):
    f = Bin("to", Bin("from", Un("for", S(var)), N(a)), N(b))
    if step is not None:
        f = Bin("step", f, N(step))
    return E(Bin("do", f, Code(*body)))


def spawn(*body):
    return E(Bin("spawn", N(0), Code(*body)))


INC_A = Asg("_a", Bin("+", Var("_a"), N(1)))


def endless_programs():
    """name -> (program tokens, needs max_loop = 0). None of them ends by itself."""
    p = {}
    p["while_empty_spawned"] = (Prog(spawn(wh([E(B(True))], [])), E(N(0))), False)
    p["while_body_spawned"] = (Prog(spawn(Asg("_a", N(0)), wh([E(B(True))], [INC_A])), E(N(0))), False)
    p["while_empty_nocap"] = (Prog(dl(N(1)), wh([E(B(True))], []), dl(N(999))), True)
    p["while_body_nocap"] = (Prog(Asg("_a", N(0)), wh([E(B(True))], [INC_A]), dl(N(999))), True)
    p["for_step0_empty"] = (Prog(dl(N(1)), forloop("_i", 0, 1, 0, []), dl(N(999))), False)
    p["for_step0_body"] = (Prog(Asg("_a", N(0)), forloop("_i", 0, 1, 0, [INC_A]), dl(N(999))), False)
    p["for_step0_empty_spawned"] = (Prog(spawn(forloop("_i", 0, 1, 0, [])), E(N(0))), False)
    p["for_long_empty"] = (Prog(dl(N(1)), forloop("_i", 0, 900000, None, []), dl(N(999))), False)
    p["for_long_body"] = (Prog(Asg("_a", N(0)), forloop("_i", 0, 900000, None, [INC_A]), dl(N(999))), False)
    p["recursion_call"] = (Prog(Asg("ff", Code(E(Un("call", Var("ff"))))), E(Un("call", Var("ff"))), dl(N(999))), False)
    p["recursion_call_spawned"] = (Prog(Asg("ff", Code(E(Un("call", Var("ff"))))), spawn(E(Un("call", Var("ff")))), E(N(0))), False)
    p["mutual_spawn"] = (Prog(Asg("ff", Code(E(Bin("spawn", N(0), Var("gg"))))), Asg("gg", Code(E(Bin("spawn", N(0), Var("ff"))))),
                              E(Bin("spawn", N(0), Var("ff"))), E(N(0))), False)
    p["spawn_tree"] = (Prog(Asg("ff", Code(E(Bin("spawn", N(0), Var("ff"))), E(Bin("spawn", N(0), Var("ff"))))),
                            E(Bin("spawn", N(0), Var("ff"))), E(N(0))), False)
    p["foreach_inner_while"] = (Prog(E(Bin("forEach", Code(wh([E(B(True))], [])), Arr(N(1), N(2)))), dl(N(999))), True)
    p["count_inner_while"] = (Prog(dl(Bin("count", Code(wh([E(B(True))], []), E(B(True))), Arr(N(1), N(2)))), dl(N(999))), True)
    p["apply_inner_for"] = (Prog(dl(Bin("apply", Arr(N(1), N(2)), Code(forloop("_i", 0, 1, 0, []), E(N(1))))), dl(N(999))), False)
    p["if_then_while"] = (Prog(E(Bin("then", Un("if", B(True)), Code(wh([E(B(True))], [])))), dl(N(999))), True)
    p["sleep_long"] = (Prog(spawn(dl(N(1)), E(Un("sleep", N(50))), dl(N(999))), E(N(0))), False)
    p["sleep_loop"] = (Prog(spawn(wh([E(B(True))], [E(Un("sleep", N(1)))])), E(N(0))), False)
    p["two_sleepers"] = (Prog(spawn(E(Un("sleep", N(40))), dl(N(998))), spawn(E(Un("sleep", N(70))), dl(N(999))), E(N(0))), False)
    p["sleeper_and_worker"] = (Prog(spawn(E(Un("sleep", N(60))), dl(N(998))), spawn(Asg("_a", N(0)), wh([E(B(True))], [INC_A])), E(N(0))), False)
    p["waituntil_sleep_loop"] = (Prog(spawn(wh([E(B(True))], [E(Un("waitUntil", Code(E(B(True))))), E(Un("sleep", N(2)))])), E(N(0))), False)
    p["switch_inner_for"] = (Prog(E(Bin("do", Un("switch", N(1)), Code(E(Bin(":", Un("case", N(1)), Code(forloop("_i", 0, 1, 0, []))))))), dl(N(999))), False)
    p["try_inner_while"] = (Prog(Asg("_a", N(0)), E(Bin("catch", Un("try", Code(wh([E(B(True))], [INC_A]))), Code(dl(N(5))))), dl(N(999))), True)
    return p


def straight(n, base=0):
    return Prog(*[dl(N(base + k)) for k in range(1, n + 1)])


def while_programs(cap):
    """name -> (tokens, bound on the printed counter for cap > 0)"""
    T = [E(B(True))]
    c = cap
    p = {}
    p["cond_counts_empty_body"] = (Prog(Asg("_i", N(0)), wh([Asg("_i", Bin("+", Var("_i"), N(1))), E(B(True))], []), dl(Var("_i"))), c)
    p["body_counts"] = (Prog(Asg("_i", N(0)), wh(T, [Asg("_i", Bin("+", Var("_i"), N(1)))]), dl(Var("_i"))), c)
    p["cond_stops_at_5_empty_body"] = (Prog(Asg("_i", N(0)), wh([Asg("_i", Bin("+", Var("_i"), N(1))), E(Bin("<", Var("_i"), N(5)))], []), dl(Var("_i"))), min(c, 5))
    p["in_call"] = (Prog(Asg("_i", N(0)), E(Un("call", Code(wh(T, [Asg("_i", Bin("+", Var("_i"), N(1)))])))), dl(Var("_i"))), c)
    p["in_foreach"] = (Prog(Asg("_n", N(0)), E(Bin("forEach", Code(wh(T, [Asg("_n", Bin("+", Var("_n"), N(1)))])), Arr(N(1), N(2)))), dl(Var("_n"))), 2 * c)
    p["never_entered"] = (Prog(Asg("_i", N(0)), wh([E(B(False))], [Asg("_i", Bin("+", Var("_i"), N(1)))]), dl(Var("_i"))), 0)
    if cap <= 12:
        p["log_every_iteration"] = (Prog(Asg("_i", N(0)), wh(T, [Asg("_i", Bin("+", Var("_i"), N(1))), dl(Var("_i"))]), dl(Var("_i"))), c)
        p["nested"] = (Prog(Asg("_n", N(0)), Asg("_i", N(0)),
                            wh([E(Bin("<", Var("_i"), N(3)))], [Asg("_i", Bin("+", Var("_i"), N(1))), wh(T, [Asg("_n", Bin("+", Var("_n"), N(1)))])]),
                            dl(Var("_n"))), min(3, c) * c)
        p["nested_empty_inner"] = (Prog(Asg("_n", N(0)), Asg("_i", N(0)),
                                        wh([E(Bin("<", Var("_i"), N(2)))],
                                           [Asg("_i", Bin("+", Var("_i"), N(1))), wh([Asg("_n", Bin("+", Var("_n"), N(1))), E(B(True))], [])]),
                                        dl(Var("_n"))), min(2, c) * c)
    return p


# ---- the C API family: histories of calls on ONE instance created with the limit (src/export/sqfvm.cpp)
# an op: ("K", type char, text) | ("G", config text) | ("Q",) | ("J", microseconds)
# expect: None | ("complete", markers) | ("cut", markers that the run logs before it is cut | None, all markers when it is a finite program)
API_RET_OK, API_RET_FAILED = 0, -6
API_EVAL_TICKS = 8      # `a + b` evaluated by __EVAL: three instructions and the bookkeeping of a run


def api_noexec(rng):
    """calls that end before anything executes (name, op): whatever they do inside, they are no run"""
    a, b = rng.randint(1, 40), rng.randint(1, 40)
    return rng.choice([
        ("syntax_error", ("K", "s", "diag_log (%d +" % a)),
        ("syntax_error_late", ("K", "s", "diag_log %d; x = [%d, ; diag_log 3" % (a, b))),
        ("syntax_error_after_eval", ("K", "s", "diag_log __EVAL(%d + %d) +" % (a, b))),
        ("pp_error", ("K", "s", "#bogus\ndiag_log %d" % a)),
        ("pp_error_open_ifdef", ("K", "s", "#ifdef X\ndiag_log %d" % a)),
        ("pp_error_after_eval", ("K", "s", "x = __EVAL(%d + %d);\n#bogus\n" % (a, b))),
        ("preprocess_only", ("K", "p", "#define ONE %d\ndiag_log ONE" % a)),
        ("preprocess_only_plain", ("K", "p", "diag_log %d" % a)),
        ("preprocess_only_eval", ("K", "p", "a __EVAL(%d + %d) b" % (a, b))),
        ("preprocess_only_fails", ("K", "p", "#bogus\n%d" % a)),
        ("transpile", ("K", "1", "diag_log %d" % a)),
        ("transpile_syntax_error", ("K", "1", "diag_log (%d" % a)),
        ("invalid_type", ("K", rng.choice(["x", "S", "c", "2", "P", " "]), "diag_log %d" % a)),
        ("invalid_type_pp_error", ("K", "x", "#bogus\n%d" % a)),
        ("config_load", ("G", "class A%d { x = %d; };" % (a, b))),
        ("config_syntax_error", ("G", "class A%d { x = %d; " % (a, b))),
        ("config_pp_error", ("G", "#bogus\nclass A {};")),
        ("status", ("Q",)),
    ])


def api_straight(n, base):
    return "; ".join("diag_log %d" % (base + k) for k in range(1, n + 1)), [str(base + k) for k in range(1, n + 1)]


API_ENDLESS = [   # (name, text with %d = a number to log first, markers the run logs before it is cut as offsets of that number)
    ("spawned_while_empty", "diag_log %d; [] spawn { while {true} do {} }; diag_log (%d + 1)", [0, 1]),
    ("spawned_while_body", "diag_log %d; [] spawn { _a = 0; while {true} do { _a = _a + 1 } }; diag_log (%d + 1)", [0, 1]),
    ("for_step0", "diag_log %d; for \"_i\" from 0 to 1 step 0 do {}; diag_log (%d + 1)", [0]),
    ("for_step0_body", "diag_log %d; _a = 0; for \"_i\" from 0 to 1 step 0 do { _a = _a + 1 }; diag_log (%d + 1)", [0]),
    ("spawned_for_step0", "diag_log %d; [] spawn { for \"_i\" from 0 to 1 step 0 do {} }; diag_log (%d + 1)", [0, 1]),
    ("for_in_foreach", "diag_log %d; { for \"_i\" from 0 to 1 step 0 do {} } forEach [1, 2]; diag_log (%d + 1)", [0]),
    ("for_in_isnil", "diag_log %d; isNil { for \"_i\" from 0 to 1 step 0 do {} }; diag_log (%d + 1)", [0]),
    ("recursion_call", "diag_log %d; ff = { call ff }; call ff; diag_log (%d + 1)", [0]),
    ("mutual_spawn", "diag_log %d; ff = { [] spawn gg }; gg = { [] spawn ff }; [] spawn ff; diag_log (%d + 1)", [0, 1]),
    ("sleep_loop", "diag_log %d; [] spawn { while {true} do { sleep 1 } }; diag_log (%d + 1)", [0, 1]),
    ("sleep_long", "diag_log %d; [] spawn { sleep 5000; diag_log 999 }; diag_log (%d + 1)", [0, 1]),
    ("eval_then_spawned_while", "diag_log __EVAL(%d + 0); [] spawn { while {true} do {} }; diag_log (%d + 1)", [0, 1]),
]


def api_exec(rng, units, base, which=None):
    """an executing call: (name, op, expect). units = limit / tick: every instruction costs at least one tick, a statement
    `diag_log n` is three instructions."""
    which = which or rng.choice(["short", "short", "medium", "medium", "eval", "silent", "endless", "endless", "long"])
    if which == "short":
        t, m = api_straight(rng.randint(1, 3), base)
        return which, ("K", "s", t), ("complete", m)
    if which == "medium":       # needs 50 .. 80 % of the limit for itself
        t, m = api_straight(max(1, units * rng.randint(50, 80) // 300), base)
        return which, ("K", "s", t), ("complete", m)
    if which == "eval":
        a, b = rng.randint(1, 40), rng.randint(1, 40)
        return which, ("K", "s", "#define TWO 2\ndiag_log __EVAL(%d + %d); diag_log (%d * TWO)" % (a, b, base)), ("complete", [str(a + b), str(base * 2)])
    if which == "silent":
        return which, ("K", "s", "x%d = %d; diag_log x%d" % (base, base, base)), ("complete", [str(base)])
    if which == "long":         # a finite program of 1.5 .. 3 limits: cut like an endless one
        t, m = api_straight(rng.randint(units // 2 + 2, units), base)
        return which, ("K", "s", t), ("cut", None, m)
    nm, text, offs = rng.choice(API_ENDLESS)
    return "endless:" + nm, ("K", "s", text % (base, base)), ("cut", [str(base + o) for o in offs], None)


def api_histories(rng, thorough):
    cases = []
    cfgs = [(400, 1000), (100, 250), (60, 500), (2000, 10000), (30, 100)] + ([(1000, 1000), (45, 300), (5000, 50000)] if thorough else [])

    def idles(lim):
        return [0, lim // 10, lim // 2, lim * 9 // 10, lim, lim + lim // 10, 3 * lim, 50 * lim, 100000 * lim]

    def mk(name, mx, tick, set_, pairs):
        cases.append({"kind": "api", "name": name, "cfg": (mx, tick, set_), "hist": [p[0] for p in pairs], "expect": [p[1] for p in pairs]})

    # 1. the shape: [something before], a call that executes nothing, idle time, a run, then a short run and an endless run
    #    every idle time x what came before x what kind of run comes after, the call that executes nothing drawn at random
    for rep in range(6 if thorough else 1):
        for before in ["nothing", "run", "cut_run", "idle", "noexec"]:
            for after in ["short", "medium", "eval", "silent", "endless", "long"]:
                for ii in range(9):
                    mx, tick = rng.choice(cfgs)
                    lim, units = mx * 1000, mx * 1000 // tick
                    idle = idles(lim)[ii]
                    pairs = []
                    if before == "run":
                        _, op, ex = api_exec(rng, units, 100, "short"); pairs.append((op, ex))
                    elif before == "cut_run":
                        _, op, ex = api_exec(rng, units, 100, "endless"); pairs.append((op, ex))
                    elif before == "idle":
                        pairs.append((("J", rng.choice(idles(lim)[2:])), None))
                    elif before == "noexec":
                        pairs += [(api_noexec(rng)[1], None), (("J", rng.choice(idles(lim))), None)]
                    nm, nop = api_noexec(rng)
                    pairs.append((nop, None))
                    if idle:
                        pairs.append((("J", idle), None))
                    n2, op, ex = api_exec(rng, units, 200, after); pairs.append((op, ex))
                    _, op, ex = api_exec(rng, units, 300, "short"); pairs.append((op, ex))
                    _, op, ex = api_exec(rng, units, 400, "endless"); pairs.append((op, ex))
                    pairs.append((("Q",), None))
                    mk("%s; %s; idle %d us; %s" % (before, nm, idle, n2), mx, tick, rng.choice(["full", "basic"]), pairs)
    # 2. random histories of 3 .. 9 calls of every kind with idle times between them
    for i in range(2000 if thorough else 130):
        mx, tick = rng.choice(cfgs)
        lim, units = mx * 1000, mx * 1000 // tick
        pairs, names = [], []
        for k in range(rng.randint(3, 9)):
            if rng.random() < 0.45:
                nm, op = api_noexec(rng); ex = None
            else:
                nm, op, ex = api_exec(rng, units, 100 * (k + 1))
            pairs.append((op, ex)); names.append(nm)
            if rng.random() < 0.6:
                pairs.append((("J", rng.choice(idles(lim)[1:])), None))
        if not any(e for _, e in pairs):
            _, op, ex = api_exec(rng, units, 1000, "medium"); pairs.append((op, ex))
        mk("random%d: %s" % (i, ", ".join(names)), mx, tick, rng.choice(["full", "basic"]), pairs)
    return cases


def api_line(c):
    mx, tick, set_ = c["cfg"]
    cs = []
    for op in c["hist"]:
        if op[0] == "K":
            cs.append("K%s:%s" % (V.hx(op[1].encode("latin-1")), V.hx(op[2].encode("latin-1"))))
        elif op[0] == "G":
            cs.append("G" + V.hx(op[1].encode("latin-1")))
        elif op[0] == "J":
            cs.append("J%d" % op[1])
        else:
            cs.append("Q")
    return "api;%d;%d;%s\t%s" % (mx, tick, set_, "@".join(cs))


def api_judge_call(n, op, exp, o, lim, tick, stats, who=""):
    """the property on ONE call of the C API. op = (kind, type, text) | ("G", text) | ("Q",); lim = the limit in us of the instance the call is
    made on (0 = none); returns None or the text of the violation"""
    if op[0] == "Q":
        if o != "Q0":
            return "call %d%s: sqfvm_status reports %s between the calls, the instance must be empty" % (n, who, o[1:])
        return None
    f = o[1:].split(":", 3)
    try:
        ret, status = int(f[0]), int(f[1])
        t0, t1 = [int(x) for x in f[2].split("-")]
        events = f[3]
    except (ValueError, IndexError):
        return "call %d%s did not come back: %s" % (n, who, o[:100])
    took = t1 - t0
    marks = SC.markers(events)
    tl = "TL," in events
    what = ("call %d (sqfvm_call type %r%s, %s %d us old)" % (n, op[1], who, "process" if who else "instance", t0) if op[0] == "K"
            else "call %d (sqfvm_load_config%s)" % (n, who))
    # an __EVAL(..) in the text is evaluated while the text is preprocessed: a short run of its own before the run of the call
    evals = op[-1].count("__EVAL") if op[0] in ("K", "G") else 0
    if lim == 0 and tl:
        return "%s was aborted by a time limit after %d us: the instance was created without one" % (what, took)
    if lim and took > lim + (SLACK_TICKS + API_EVAL_TICKS * evals) * tick:
        return "%s took %d us of virtual time, the limit is %d us (tick %d)" % (what, took, lim, tick)
    if tl and (ret != API_RET_FAILED or status != 0):
        return "%s logged 'maximum runtime reached' but returns %d and leaves status %d" % (what, ret, status)
    if tl and took < lim - 1000:
        return ("%s was aborted by the time limit %d us after it began: the limit of %d us is measured from the start of the run" % (what, took, lim))
    if exp is None:
        stats["noexec"] = stats.get("noexec", 0) + 1
        stats.setdefault("noexec_returns", {}).setdefault(str(ret), 0)
        stats["noexec_returns"][str(ret)] += 1
        return None
    if exp[0] == "complete":
        stats["complete"] = stats.get("complete", 0) + 1
        if ret != API_RET_OK or status != 0 or tl or marks != list(exp[1]):
            return ("%s: a program well within the limit did not execute normally: returns %d, status %d, %s, logged %s of %s"
                    % (what, ret, status, "aborted by the time limit after %d us" % took if tl else "not aborted by the limit", marks[:4], list(exp[1])[:4]))
    elif exp[0] == "cut":
        stats["cut"] = stats.get("cut", 0) + 1
        if ret != API_RET_FAILED or status != 0 or not tl:
            return "%s: a program that does not end within the limit: returns %d, status %d, 'maximum runtime reached' %s" % (
                what, ret, status, "logged" if tl else "not logged")
        if exp[1] is not None and marks[:len(exp[1])] != list(exp[1]):
            return "%s: cut by the limit after %d us, but of what the run logs at its start %s only %s came" % (what, took, list(exp[1]), marks[:4])
        if exp[2] is not None and (marks != list(exp[2])[:len(marks)] or 3 * (len(marks) + 2) * tick < lim - 1000):
            return "%s: a long program cut by the limit logged %d markers (%s..), not a prefix of its %d that fills the limit" % (what, len(marks), marks[:3], len(exp[2]))
    return None


def api_judge(c, out, stats):
    """the property on one C API history; returns None or the text of the violation"""
    mx, tick, set_ = c["cfg"]
    lim = mx * 1000
    obs = out.split("\t")[0].split("|") if "\t" in out else []
    c["impl"] = [o[:600] for o in obs] if obs else [out[:300]]
    if len(obs) != len(c["hist"]):
        return "the history of C API calls did not come back: %s" % out.replace("\t", " ")[:160]
    for n, (op, exp, o) in enumerate(zip(c["hist"], c["expect"], obs)):
        if op[0] == "J":
            continue
        bad = api_judge_call(n, op, exp, o, lim, tick, stats)
        if bad:
            return bad
    return None


# ---- the C API family over SEVERAL instances of one process, each created with its OWN limit (0 = none)
# an op: ("C", i) create instance i | ("D", i) destroy it | ("K", i, type char, text) | ("G", i, config text) | ("Q", i) | ("J", microseconds)
# The oracle is the one of the single-instance family with the limit of the instance the call is made on: what a run is given depends
# on nothing else in the process - not on which instance was created first, executed first (a run, an __EVAL while a text is preprocessed
# by sqfvm_call or sqfvm_load_config), is still alive, or what limits the others have.
MAPI_CFGS = [(250, [0, 30, 100, 110, 400, 1000]), (1000, [0, 60, 200, 2000]), (100, [0, 30, 64, 250])]     # tick us, limits ms
MAPI_FIRST = ["run_short", "run_medium", "run_cut", "eval_in_run", "eval_preprocess_only", "eval_then_syntax_error", "eval_then_pp_error", "config_eval"]


def mapi_quiet(rng, i):
    """a call on instance i that executes nothing at all (no __EVAL either)"""
    a = rng.randint(1, 40)
    return rng.choice([("K", i, "p", "#define ONE %d\ndiag_log ONE" % a), ("K", i, "s", "diag_log (%d +" % a), ("K", i, "s", "#bogus\ndiag_log %d" % a),
                       ("K", i, "1", "diag_log %d" % a), ("K", i, "x", "diag_log %d" % a), ("G", i, "class Q%d { x = %d; };" % (a, a)), ("Q", i)])


def mapi_first(rng, kind, i, units, base, finite_only):
    """the first code the process executes, on instance i: (op, expect)"""
    a, b = rng.randint(1, 40), rng.randint(1, 40)
    if kind == "run_cut" and units == 0:
        kind = "run_short"
    if kind == "run_medium" and units == 0:
        kind = "eval_in_run"
    if kind in ("run_short", "run_medium", "eval_in_run"):
        _, op, ex = api_exec(rng, units, base, {"run_short": "short", "run_medium": "medium", "eval_in_run": "eval"}[kind])
        return ("K", i, op[1], op[2]), ex
    if kind == "run_cut":
        _, op, ex = api_exec(rng, units, base, "long" if finite_only else rng.choice(["endless", "long"]))
        return ("K", i, op[1], op[2]), ex
    if kind == "eval_preprocess_only":
        return ("K", i, "p", "a __EVAL(%d + %d) b" % (a, b)), None
    if kind == "eval_then_syntax_error":
        return ("K", i, "s", "diag_log __EVAL(%d + %d) +" % (a, b)), None
    if kind == "eval_then_pp_error":
        return ("K", i, "s", "x = __EVAL(%d + %d);\n#bogus\n" % (a, b)), None
    return ("G", i, "class F%d { x = __EVAL(%d + %d); };" % (base, a, b)), None


def mapi_probe(rng, which, i, units, base, finite_only, others_units):
    """a run on instance i judged against ITS limit (units = limit / tick, 0 = none): (op, expect)"""
    if units == 0 and which in ("cut", "medium"):
        # no limit: a finite program that takes at least twice the longest limit of the other instances completes
        n = 2 * max([u for u in others_units] + [100])
        return ("K", i, "s", "diag_log %d; for \"_i\" from 1 to %d do {}; diag_log (%d + 1)" % (base, n, base)), ("complete", [str(base), str(base + 1)])
    if which == "cut":
        which = "long" if finite_only else rng.choice(["endless", "endless", "long"])
    _, op, ex = api_exec(rng, units, base, which)
    return ("K", i, op[1], op[2]), ex


def mapi_histories(rng, thorough):
    cases = []

    def mk(name, tick, insts, pairs):
        cases.append({"kind": "mapi", "name": name, "tick": tick, "insts": list(insts), "hist": [p[0] for p in pairs], "expect": [p[1] for p in pairs]})

    def set_():
        return rng.choice(["full", "basic", "basic"])

    def pause(pairs, lims, p=0.5):
        ls = [l * 1000 for l in lims if l] or [1000]
        if rng.random() < p:
            l = rng.choice(ls)
            pairs.append((("J", rng.choice([l // 10, l // 2, l, l + l // 10, 3 * l, 50 * l])), None))

    # 1. two instances with different limits: F executes the first code of the process, O is the one observed afterwards (then F, too).
    #    every ordered pair of limits x every kind of first code x the order of creation (F first / O first / O only after F executed);
    #    the order of the probes drawn at random
    for rep in range(4 if thorough else 1):
        for tick, lims in MAPI_CFGS:
            for lf in lims:
                for lo in lims:
                    if lf == lo:
                        continue
                    for kind, order in [(kd, od) for kd in MAPI_FIRST for od in ["F,O", "O,F", "F..O"]]:
                        uf, uo = lf * 1000 // tick, lo * 1000 // tick
                        finite = (lf == 0 or lo == 0)
                        F, O = (0, 1) if order != "O,F" else (1, 0)
                        insts = [None, None]
                        insts[F], insts[O] = (lf, set_()), (lo, set_())
                        pairs = [(("C", 0), None)] + ([(("C", 1), None)] if order != "F..O" else [])
                        if order != "F..O" and rng.random() < 0.5:
                            pairs.append((mapi_quiet(rng, O), None))
                        pause(pairs, [lf, lo], 0.3)
                        pairs.append(mapi_first(rng, kind, F, uf, 100, finite))
                        if order == "F..O":
                            pairs.append((("C", 1), None))
                        pause(pairs, [lf, lo])
                        probes = [(O, uo, "cut", [uf]), (O, uo, "medium", [uf]), (O, uo, "short", [uf]), (F, uf, rng.choice(["cut", "medium"]), [uo])]
                        rng.shuffle(probes)
                        for k, (i, u, which, others) in enumerate(probes):
                            pairs.append(mapi_probe(rng, which, i, u, 200 + 100 * k, finite, others))
                            pause(pairs, [lf, lo], 0.3)
                        pairs += [(("Q", 0), None), (("Q", 1), None)]
                        mk("two instances, limits F=%d ms O=%d ms, created %s, first code: %s on F" % (lf, lo, order, kind), tick, insts, pairs)
    # 2. one instance after the other: the first is destroyed before the second (another limit) is created
    for rep in range(6 if thorough else 1):
        for tick, lims in MAPI_CFGS:
            for lf in lims:
                for lo in lims:
                    if lf == lo:
                        continue
                    uf, uo = lf * 1000 // tick, lo * 1000 // tick
                    finite = (lf == 0 or lo == 0)
                    kind = rng.choice(MAPI_FIRST)
                    pairs = [(("C", 0), None), mapi_first(rng, kind, 0, uf, 100, finite)]
                    if rng.random() < 0.5:
                        pairs.append(mapi_probe(rng, "short", 0, uf, 200, finite, [uo]))
                    pairs.append((("D", 0), None))
                    pause(pairs, [lf, lo])
                    pairs.append((("C", 1), None))
                    for k, which in enumerate(rng.sample(["cut", "medium", "short", "eval"], 3)):
                        pairs.append(mapi_probe(rng, which, 1, uo, 300 + 100 * k, finite, [uf]))
                        pause(pairs, [lf, lo], 0.3)
                    pairs.append((("Q", 1), None))
                    mk("one instance after the other, limits %d ms then %d ms, first code: %s" % (lf, lo, kind), tick, [(lf, set_()), (lo, set_())], pairs)
    # 3. random histories over 2 - 3 instances (limits drawn with repetition), created at the start or right before their first call,
    #    some destroyed on the way: calls that execute nothing, runs of every kind, idle time
    for n in range(3000 if thorough else 150):
        tick, lims = rng.choice(MAPI_CFGS)
        k = rng.choice([2, 3, 3])
        insts = [(rng.choice(lims), set_()) for _ in range(k)]
        if len(set(l for l, _ in insts)) == 1:
            insts[0] = (rng.choice([l for l in lims if l != insts[1][0]]), insts[0][1])
        units = [l * 1000 // tick for l, _ in insts]
        finite = 0 in units
        lazy = rng.random() < 0.5
        state = ["new"] * k
        pairs = []
        if not lazy:
            order = list(range(k)); rng.shuffle(order)
            for i in order:
                pairs.append((("C", i), None)); state[i] = "live"
        for c in range(rng.randint(4, 10)):
            cand = [i for i in range(k) if state[i] != "dead"]
            if not cand:
                break
            i = rng.choice(cand)
            if state[i] == "new":
                pairs.append((("C", i), None)); state[i] = "live"
            r = rng.random()
            others = [u for j, u in enumerate(units) if j != i]
            if r < 0.2:
                pairs.append((mapi_quiet(rng, i), None))
            elif r < 0.35:
                pairs.append(mapi_first(rng, rng.choice(MAPI_FIRST[3:]), i, units[i], 100 * (c + 1), finite))
            elif r < 0.93:
                pairs.append(mapi_probe(rng, rng.choice(["cut", "cut", "medium", "medium", "short", "eval", "silent"]), i, units[i], 100 * (c + 1), finite, others))
            else:
                pairs.append((("D", i), None)); state[i] = "dead"
            pause(pairs, [l for l, _ in insts], 0.4)
        if not any(e for _, e in pairs):
            continue
        mk("random%d: %d instances, limits %s ms, %s" % (n, k, "/".join(str(l) for l, _ in insts), "created on first use" if lazy else "all created first"),
           tick, insts, pairs)
    return cases


def mapi_from_json(r, prefix=""):
    return {"kind": "mapi", "name": prefix + r.get("name", ""), "tick": r["tick"], "insts": [tuple(i) for i in r["insts"]],
            "hist": [tuple(h) for h in r["hist"]], "expect": [tuple(e) if e else None for e in r["expect"]]}


def mapi_line(c):
    cs = []
    for op in c["hist"]:
        if op[0] == "K":
            cs.append("K%d:%s:%s" % (op[1], V.hx(op[2].encode("latin-1")), V.hx(op[3].encode("latin-1"))))
        elif op[0] == "G":
            cs.append("G%d:%s" % (op[1], V.hx(op[2].encode("latin-1"))))
        elif op[0] == "J":
            cs.append("J%d" % op[1])
        else:
            cs.append("%s%d" % (op[0], op[1]))
    return "mapi;%d;%s\t%s" % (c["tick"], ",".join("%d:%s" % (l, s_) for l, s_ in c["insts"]), "@".join(cs))


def mapi_judge(c, out, stats):
    """the property on one history over several instances: every call against the limit of ITS instance"""
    obs = out.split("\t")[0].split("|") if "\t" in out else []
    c["impl"] = [o[:600] for o in obs] if obs else [out[:300]]
    if len(obs) != len(c["hist"]):
        return ("the history of C API calls did not come back (%s): no run of it may outlast the limit of its instance, and none of the programs "
                "given to an instance without a limit is endless" % out.replace("\t", " ")[:120])
    for n, (op, exp, o) in enumerate(zip(c["hist"], c["expect"], obs)):
        if op[0] == "J":
            continue
        if op[0] in ("C", "D"):
            if o != op[0]:
                return "call %d: instance %d could not be %s: %s" % (n, op[1], "created" if op[0] == "C" else "destroyed", o[:60])
            continue
        lim_ms = c["insts"][op[1]][0]
        bad = api_judge_call(n, (op[0],) + tuple(op[2:]), exp, o, lim_ms * 1000, c["tick"], stats,
                             who=" on instance %d of %d, its limit %s" % (op[1], len(c["insts"]), "%d ms" % lim_ms if lim_ms else "none"))
        if bad:
            return bad
    return None


def last_int_marker(events):
    ms = [m for m in SC.markers(events) if not m.startswith("VALUE ")]
    for m in reversed(ms):
        try:
            return int(m)
        except ValueError:
            continue
    return None


def main(replay=None):
    run = V.Run(PID, "proof")
    rng = run.rng
    thorough = run.tier == "thorough"
    problems = run.prove()
    himpl, drv, consts = SC.build(thorough)
    SC.consts_problem(run, consts, problems)
    slice_len = consts["slice_length"]
    default_cap = consts["default_max_loop"]

    # a case: dict(kind, hist, cfg=(max_ms, tick_us, max_loop), expect=[per command: None | ("cut",) | ("complete", markers) | ("cap", bound)])
    cases = []
    api_cases = []
    mapi_cases = []

    def add(kind, hist, cfg, expect, name=""):
        cases.append({"kind": kind, "hist": hist, "cfg": cfg, "expect": expect, "name": name})

    if replay and json.load(open(replay))["replay"].get("kind") == "api":
        r = json.load(open(replay))["replay"]
        api_cases.append({"kind": "api", "name": r.get("name", ""), "cfg": tuple(r["cfg"]), "hist": [tuple(c) for c in r["hist"]],
                          "expect": [tuple(e) if e else None for e in r["expect"]]})
    elif replay and json.load(open(replay))["replay"].get("kind") == "mapi":
        mapi_cases.append(mapi_from_json(json.load(open(replay))["replay"]))
    elif replay:
        r = json.load(open(replay))["replay"]
        add(r.get("kind", "replay"), [tuple(c) for c in r["hist"]], tuple(r["cfg"]), [tuple(e) if e else None for e in r["expect"]], r.get("name", ""))
    else:
        cdir = os.path.join(V.VERIF, "corpus", PID)
        if os.path.isdir(cdir):
            for fn in sorted(os.listdir(cdir)):
                r = json.load(open(os.path.join(cdir, fn)))
                if r.get("kind") == "mapi":
                    mapi_cases.append(mapi_from_json(r, "corpus:" + fn + ": "))
                    continue
                add("corpus:" + fn, [tuple(c) for c in r["hist"]], tuple(r["cfg"]), [tuple(e) if e else None for e in r["expect"]], r.get("name", fn))
        endless = endless_programs()
        limits = [(1, 100), (5, 1000), (20, 500), (3, 37)] + ([(50, 100), (200, 1000), (7, 7)] if thorough else [])
        short = straight(1, 76)     # diag_log 77
        # 1. every endless program under every limit; then a short run on the same VM, with the clock moved in between
        for name, (prog, nocap) in sorted(endless.items()):
            for (mx, tick) in limits:
                jump = rng.choice([0, mx * 1000 // 2, mx * 3000, mx * 100000])
                add("endless", [("L", prog), ("S",), ("J", jump), ("L", short), ("S",)], (mx, tick, 0 if nocap else default_cap),
                    [None, ("cut",), None, None, ("complete", ["77"])], name)
        # 2. histories: several runs on one VM, clock jumps far beyond the limit between them
        pool_end = sorted(endless.items())
        for i in range(2500 if thorough else 60):
            mx, tick = rng.choice([(2, 100), (5, 250), (10, 1000)])
            units = mx * 1000 // tick
            hist, exp = [], []
            if rng.random() < 0.5:
                hist.append(("J", rng.choice([mx * 1000, mx * 50000]))); exp.append(None)   # the VM is old before its first run
            nocap_any = False
            for k in range(rng.randint(2, 4)):
                kind = rng.random()
                if kind < 0.45:
                    n = rng.randint(1, max(1, (units - 3) // 3))      # n statements: 3n-1 instructions, fits
                    hist += [("L", straight(n, 100 * k)), ("S",)]
                    exp += [None, ("complete", [str(100 * k + q) for q in range(1, n + 1)])]
                elif kind < 0.8:
                    nm, (prog, nocap) = rng.choice(pool_end)
                    if nocap:
                        continue
                    hist += [("L", prog), ("S",)]
                    exp += [None, ("cut",)]
                else:
                    n = rng.randint(units, units * 2)               # too long for the limit: must be cut, too
                    hist += [("L", straight(n, 100 * k)), ("S",)]
                    exp += [None, ("cut",)]
                if rng.random() < 0.7:
                    hist.append(("J", rng.choice([1, mx * 500, mx * 1000, mx * 20000, mx * 1000000]))); exp.append(None)
            if any(e for e in exp):
                add("history", hist, (mx, tick, default_cap), exp, "history%d" % i)
        # 2b. an expression evaluated on the idle VM the way the preprocessor evaluates __EVAL(..) is a run of its own: however old the
        #     VM is and whatever ran before, a short expression yields its value (implementation only; the model has no such entry)
        for i in range(400 if thorough else 24):
            mx, tick = rng.choice([(2, 100), (5, 250), (10, 1000)])
            hist, exp = [], []
            if rng.random() < 0.6:
                hist.append(("J", rng.choice([mx * 1000, mx * 3000, mx * 50000]))); exp.append(None)
            for k in range(rng.randint(0, 2)):
                if rng.random() < 0.5:
                    hist += [("L", straight(2, 100 * k)), ("S",)]; exp += [None, ("complete", [str(100 * k + 1), str(100 * k + 2)])]
                else:
                    nm, (prog, nocap) = rng.choice(pool_end)
                    if nocap:
                        continue
                    hist += [("L", prog), ("S",)]; exp += [None, ("cut",)]
                hist.append(("J", rng.choice([1, mx * 1000, mx * 20000]))); exp.append(None)
            a, b = rng.randint(1, 50), rng.randint(1, 50)
            if rng.random() < 0.5:
                # an expression that does not end (or asks the VM to exit) is cut like a run, and NOTHING of it is left behind: the
                # evaluations and runs after it behave as on a fresh VM
                hist.append(("E", rng.choice(["while {true} do {}", "_a = 0; while {true} do {_a = _a + 1}", "for \"_i\" from 0 to 1 step 0 do {}",
                                             "ff = {call ff}; call ff", "exit__; 5", "exitcode__ 3; 5"])))
                exp.append(("evalcut",))
                if rng.random() < 0.5:
                    hist.append(("J", rng.choice([1, mx * 1000]))); exp.append(None)
            hist.append(("E", "%d + %d" % (a, b))); exp.append(("eval", "%d" % (a + b)))
            if rng.random() < 0.5:
                hist += [("J", mx * 4000), ("E", "[%d, %d] select 1" % (a, b))]; exp += [None, ("eval", "%d" % b)]
            hist += [("L", short), ("S",)]; exp += [None, ("complete", ["77"])]
            add("eval", hist, (mx, tick, default_cap), exp, "eval%d" % i)
        # 2b. a later run on an old VM in which a script SLEEPS (shorter than the limit): the idle scheduler's test of the limit
        #     must be measured from the start of that run, too - the run completes and the sleeper wakes
        def sleeper(d, base):
            return (Prog(spawn(dl(N(base + 1)), E(Un("sleep", N(d))), dl(N(base + 2))), dl(N(base + 3))),
                    [str(base + 3), str(base + 1), str(base + 2)])

        def two_sleepers(base):
            return (Prog(spawn(dl(N(base + 1)), E(Un("sleep", N(2))), dl(N(base + 2))),
                         spawn(dl(N(base + 4)), E(Un("sleep", N(1))), dl(N(base + 5))), dl(N(base + 3))),
                    [str(base + 3), str(base + 1), str(base + 4), str(base + 5), str(base + 2)])
        for (mx, tick) in [(2000, 10000), (3000, 20000), (5000, 50000), (2000, 4000)] + ([(10000, 100000), (4000, 7000)] if thorough else []):
            lim = mx * 1000
            s1, m1 = sleeper(1, 100)
            s2, m2 = sleeper(1, 200)
            s3, m3 = sleeper(1, 300)
            w, (wprog, _) = "while_body_spawned", endless["while_body_spawned"]
            add("old_vm_sleeper", [("L", straight(2)), ("S",), ("J", 3 * lim), ("L", s1), ("S",)], (mx, tick, default_cap),
                [None, ("complete", ["1", "2"]), None, None, ("complete", m1)], "short run, pause 3x limit, run with a sleeping script")
            add("old_vm_sleeper", [("J", 5 * lim), ("L", s1), ("S",)], (mx, tick, default_cap),
                [None, None, ("complete", m1)], "VM 5x limit old before its first run, run with a sleeping script")
            add("old_vm_sleeper", [("L", wprog), ("S",), ("J", 2 * lim), ("L", s2), ("S",)], (mx, tick, default_cap),
                [None, ("cut",), None, None, ("complete", m2)], "a run cut by the limit, pause, run with a sleeping script")
            add("old_vm_sleeper", [("L", s1), ("S",), ("J", lim + tick), ("L", s2), ("S",), ("J", 100 * lim), ("L", s3), ("S",)], (mx, tick, default_cap),
                [None, ("complete", m1), None, None, ("complete", m2), None, None, ("complete", m3)], "three runs with sleeping scripts, pauses in between")
            if mx >= 3000:
                t2, mt = two_sleepers(400)
                add("old_vm_sleeper", [("L", straight(1)), ("S",), ("J", 4 * lim), ("L", t2), ("S",)], (mx, tick, default_cap),
                    [None, ("complete", ["1"]), None, None, ("complete", mt)], "pause 4x limit, run with two sleeping scripts")
        # 3. single-stepping, a pause, then start: the run began at the first step (correspondence; time bound only)
        for i in range(300 if thorough else 12):
            mx, tick = rng.choice([(2, 100), (5, 250)])
            nm, (prog, nocap) = rng.choice(pool_end)
            add("steps", [("L", prog), ("T", rng.randint(1, 12)), ("J", rng.choice([0, mx * 400, mx * 5000])), ("S",),
                          ("L", short), ("S",)], (mx, tick, 0 if nocap else default_cap),
                [None, None, None, ("ends",), None, ("complete", ["77"])], nm)
        # 4. abort of a halted run, then a fresh run
        for i in range(20 if thorough else 6):
            mx, tick = (5, 250)
            add("abort", [("L", straight(30)), ("T", rng.randint(1, 10)), ("A",), ("J", mx * 9000), ("L", straight(3, 40)), ("S",)],
                (mx, tick, default_cap), [None, None, None, None, None, ("complete", ["41", "42", "43"])], "abort%d" % i)
        # 5. the cap of while in unscheduled code: 1, 2, 7 and the default; no time limit
        for cap in [1, 2, 7, default_cap] + ([3, 12, 100] if thorough else []):
            for name, (prog, bound) in sorted(while_programs(cap).items()):
                add("while", [("L", prog), ("S",)], (0, 0, cap), [None, ("cap", bound)], "%s cap=%d" % (name, cap))
        for i in range(1500 if thorough else 40):
            cap = rng.randint(1, 12)
            nb = rng.randint(0, 3)
            body = [rng.choice([Asg("_b", Bin("+", Var("_b"), N(1))), E(N(3)), Asg("gq", Var("_i"))]) for _ in range(nb)]
            cond = [Asg("_i", Bin("+", Var("_i"), N(1)))] + [E(N(1))] * rng.randint(0, 2) + [E(rng.choice([B(True), Bin("<", Var("_i"), N(rng.randint(1, 20)))]))]
            add("while", [("L", Prog(Asg("_i", N(0)), Asg("_b", N(0)), wh(cond, body), dl(Var("_i")))), ("S",)], (0, 0, cap),
                [None, ("cap", cap)], "random while cap=%d body=%d" % (cap, nb))
        # 6. scheduled code is not capped (correspondence only), cap 0 = off with a limit
        add("while", [("L", Prog(spawn(Asg("_i", N(0)), wh([E(Bin("<", Var("_i"), N(30)))], [Asg("_i", Bin("+", Var("_i"), N(1)))]), dl(Var("_i"))), E(N(0)))), ("S",)],
            (0, 0, 7), [None, None], "spawned while is not capped")
        # 7. random programs of the shared generator, cut at a random instruction
        g = M.Gen(rng)
        for i in range(3000 if thorough else 80):
            mx, tick = rng.choice([(1, 100), (1, 37), (2, 100), (1, 250)])
            add("random", [("L", g.program(depth=3, length=4)), ("S",), ("A",), ("J", mx * 7000), ("L", short), ("S",)], (mx, tick, default_cap),
                [None, ("ends",), None, None, None, ("complete", ["77"])], "random%d" % i)
        # 8. the C API: histories of calls on ONE instance created with the limit - calls that execute nothing, idle time, runs
        api_cases += api_histories(rng, thorough)
        # 9. the C API: several instances in one process, each with its own limit (or none)
        mapi_cases += mapi_histories(rng, thorough)

    by_cfg = {}
    for idx, c in enumerate(cases):
        by_cfg.setdefault(c["cfg"], []).append(idx)
    for cfg, idxs in by_cfg.items():
        mx, tick, cap = cfg
        res = SC.run_histories(himpl, drv, [cases[i]["hist"] for i in idxs], defects=[], max_runtime_ms=mx, tick_us=tick, max_loop=cap, slice_=slice_len)
        for i, d in zip(idxs, res):
            cases[i]["res"] = d

    kinds, distinct, samples = {}, set(), []
    ncut = ncomplete = ncap = neval = 0
    # the C API histories: implementation only, judged by the property
    api_stats = {}
    if api_cases:
        rc, aout, aerr = V.run_lines_parallel([himpl], [api_line(c) for c in api_cases], timeout=3000)
        for c, o in zip(api_cases, aout):
            bad = api_judge(c, o, api_stats)
            kinds["api"] = kinds.get("api", 0) + 1
            distinct.add((c["name"], c["cfg"], tuple(c["hist"])))
            if bad:
                run.violation(bad, {"kind": "api", "name": c["name"], "cfg": list(c["cfg"]), "hist": [list(h) for h in c["hist"]],
                                    "expect": [list(e) if e else None for e in c["expect"]], "impl": c["impl"],
                                    "how_to_read": "cfg = limit ms, clock tick us, operator set; hist: K type text = sqfvm_call, G = sqfvm_load_config, Q = sqfvm_status, "
                                                   "J = the host idles that many us; impl: K<return>:<status after>:<clock before>-<after>:<callbacks>"})
    mapi_stats = {}
    if mapi_cases:
        rc, aout, aerr = V.run_lines_parallel([himpl], [mapi_line(c) for c in mapi_cases], timeout=3000)
        for c, o in zip(mapi_cases, aout):
            bad = mapi_judge(c, o, mapi_stats)
            kinds["api_several_instances"] = kinds.get("api_several_instances", 0) + 1
            distinct.add((c["name"], c["tick"], tuple(c["insts"]), tuple(c["hist"])))
            if bad:
                run.violation(bad, {"kind": "mapi", "name": c["name"], "tick": c["tick"], "insts": [list(i) for i in c["insts"]],
                                    "hist": [list(h) for h in c["hist"]], "expect": [list(e) if e else None for e in c["expect"]], "impl": c["impl"],
                                    "how_to_read": "one process; insts = [limit ms (0 = none), operator set] of instance 0, 1, ..; tick = us the virtual clock "
                                                   "advances per query; hist: C i = sqfvm_create_instance(_basic) with that limit, D i = destroy, K i type text = "
                                                   "sqfvm_call, G i text = sqfvm_load_config, Q i = sqfvm_status, J = the host idles that many us; "
                                                   "impl: K<return>:<status after>:<clock before>-<after>:<callbacks>"})
    for c in cases:
        d = c["res"]
        mx, tick, cap = c["cfg"]
        kinds[c["kind"].split(":")[0]] = kinds.get(c["kind"].split(":")[0], 0) + 1
        rep = {"kind": c["kind"], "name": c["name"], "cfg": list(c["cfg"]), "hist": [list(h) for h in c["hist"]], "expect": [list(e) if e else None for e in c["expect"]],
               "texts": d.get("texts"), "impl": [o[:1500] for o in d["i_obs"]], "model": [o[:1500] for o in d["m_obs"]]}
        distinct.add((c["name"], c["cfg"], tuple(d.get("texts") or [])))
        if len(samples) < 6 and c["kind"] not in [s["kind"] for s in samples]:
            samples.append({"kind": c["kind"], "name": c["name"], "cfg": list(c["cfg"]), "texts": [t[:160] for t in (d.get("texts") or [])],
                            "impl": [o[:120] for o in d["i_obs"]]})
        bad = None
        # expressions evaluated like __EVAL(..): judged on their own (the model does not have them)
        evs = [(cmd, exp) for cmd, exp in zip(c["hist"], c["expect"]) if cmd[0] == "E"]
        hist_m = [cmd for cmd in c["hist"] if cmd[0] != "E"]
        expect_m = [exp for cmd, exp in zip(c["hist"], c["expect"]) if cmd[0] != "E"]
        if evs and len(d.get("i_eval", [])) == len(evs):
            for (cmd, exp), o in zip(evs, d["i_eval"]):
                f = o[1:].split(":", 4)
                neval += 1
                if exp[0] == "evalcut":
                    t = f[3].split("-") if len(f) > 3 and "-" in f[3] else None
                    took = (int(t[1]) - int(t[0])) if t else None
                    if len(f) < 5 or f[0] != "0" or f[2] != "0" or took is None or (mx and took > mx * 1000 + SLACK_TICKS * tick):
                        bad = ("the expression %r (evaluated as __EVAL does) must fail within the limit and leave the VM idle: ok=%s state=%s took=%s us (limit %d us)"
                               % (cmd[1], f[0], f[2] if len(f) > 2 else "?", took, mx * 1000))
                        break
                    continue
                if len(f) < 5 or f[0] != "1" or V.unhx(f[1]).decode("latin-1") != exp[1] or f[2] != "0":
                    bad = ("the expression %r evaluated on the idle VM (as __EVAL does) did not yield %s: ok=%s value=%r state=%s events=%s"
                           % (cmd[1], exp[1], f[0], V.unhx(f[1]).decode("latin-1") if len(f) > 1 else "?", f[2] if len(f) > 2 else "?", f[4][:80] if len(f) > 4 else ""))
                    break
        elif evs:
            bad = "the history did not come back: %s" % d.get("impl_raw", "")[:120]
        if bad:
            pass
        elif len(d["i_obs"]) != len(hist_m):
            bad = "the history did not come back: %s" % " ".join(d["i_obs"])[:120]
        else:
            for n, (cmd, exp, obs) in enumerate(zip(hist_m, expect_m, d["i_obs"])):
                if cmd[0] != "S":
                    continue
                pr = SC.parse_run(obs)
                if pr is None:
                    bad = "run %d did not come back: %s" % (n, obs[:80])
                    break
                took = pr["t1"] - pr["t0"]
                codes = SC.diag_codes(pr["events"])
                if mx and took > mx * 1000 + SLACK_TICKS * tick:
                    bad = "run %d took %d us of virtual time, the limit is %d us (tick %d)" % (n, took, mx * 1000, tick)
                    break
                if "0:60002" in codes and (pr["res"] != 2 or pr["state"] != 0):
                    bad = "run %d logged 'maximum runtime reached' but reports result %d state %d" % (n, pr["res"], pr["state"])
                    break
                if exp is None:
                    continue
                if exp[0] == "cut":
                    ncut += 1
                    if pr["res"] != 2 or pr["state"] != 0 or "0:60002" not in codes:
                        bad = "run %d of a program that does not end within the limit: result %d state %d, 60002 %s" % (
                            n, pr["res"], pr["state"], "logged" if "0:60002" in codes else "not logged")
                        break
                elif exp[0] == "complete":
                    ncomplete += 1
                    marks = [m for m in SC.markers(pr["events"]) if not m.startswith("VALUE ")]
                    if pr["res"] != -1 or pr["state"] != 0 or marks != list(exp[1]):
                        bad = "run %d (a program well within the limit, VM age %d us) did not execute normally: result %d state %d markers %s" % (
                            n, pr["t0"], pr["res"], pr["state"], marks[:6])
                        break
                elif exp[0] == "cap":
                    ncap += 1
                    v = last_int_marker(pr["events"])
                    if v is None or v > exp[1]:
                        bad = "while in unscheduled code: the counter reads %s, at most %d iterations are allowed (cap %d)" % (v, exp[1], cap)
                        break
        if bad:
            run.violation(bad, rep)
            continue
        if evs:
            continue     # an evaluation reads the clock: the model, which does not have it, is at other times afterwards
        if any(o.startswith(("HANG", "UNSUPPORTED", "UB")) for o in d["m_obs"]):
            if any(o.startswith("UNSUPPORTED") for o in d["m_obs"]):
                kinds["left_the_modelled_fragment"] = kinds.get("left_the_modelled_fragment", 0) + 1
                continue
            rep["broken"] = "the repaired model does not return on this history"
            run.violation("the model does not return although the implementation meets the property (machinery)", rep, found_input=False)
            continue
        if not SC.same_obs(d["m_obs"], d["i_obs"]):
            k = next((n for n, (a, b) in enumerate(zip(d["m_obs"], d["i_obs"])) if a != b), 0)
            rep["first_difference"] = {"command": k, "model": d["m_obs"][k][:400] if k < len(d["m_obs"]) else None,
                                       "impl": d["i_obs"][k][:400] if k < len(d["i_obs"]) else None}
            rep["broken"] = "correspondence SchedDefs.run_history (execute2: deadline test, begin_run_if_empty, while behaviour) vs runtime::execute"
            run.violation("implementation and model disagree (property oracle satisfied)", rep, found_input=False)
    if api_cases:
        samples.append({"kind": "api", "name": api_cases[0]["name"], "cfg": list(api_cases[0]["cfg"]),
                        "hist": [[str(x)[:80] for x in h] for h in api_cases[0]["hist"]], "impl": [o[:120] for o in api_cases[0].get("impl", [])]})
    if mapi_cases:
        samples.append({"kind": "mapi", "name": mapi_cases[0]["name"], "tick": mapi_cases[0]["tick"], "insts": [list(i) for i in mapi_cases[0]["insts"]],
                        "hist": [[str(x)[:80] for x in h] for h in mapi_cases[0]["hist"]], "impl": [o[:120] for o in mapi_cases[0].get("impl", [])]})
    for p in problems:
        run.violation("proof obligation not discharged: " + p, {"broken": p, "theorems": run.cov["theorems"]}, found_input=False)
    run.cov["evaluations"] = len(cases) + len(api_cases) + len(mapi_cases)
    run.cov["distinct_nontrivial"] = len(distinct)
    run.cov["rule"] = ("histories on one VM under a virtual clock: every kind of endless program (while/for/forEach/count/apply/switch/try, empty "
                       "and non-empty bodies, scheduled and unscheduled, recursion through call, mutually spawning scripts, sleeping scripts, "
                       "waitUntil) under several limits followed by a short run after a clock jump; random multi-run histories with jumps up "
                       "to 10^6 x limit; later runs on an old VM in which a spawned script sleeps shorter than the limit (several limits and ticks); single steps + pause + start; abort; while loops under caps 1, 2, 7, the default and random caps with "
                       "the counter read inside the loop; random programs cut at a random instruction. A case is distinct by (program texts, "
                       "limit, tick, cap). C API (implementation only): histories of sqfvm_call / sqfvm_load_config / sqfvm_status on one instance "
                       "created with the limit (5 limits x ticks, full and basic operator set): [nothing | a run | a cut run | idle | a call that "
                       "executes nothing] then one of 18 kinds of call that executes nothing (syntax / preprocessing error, also behind an __EVAL, "
                       "preprocess only, transpile, invalid type, config load ok / failing, status) then idle time 0, 0.1, 0.5, 0.9, 1, 1.1, 3, 50, "
                       "10^5 x limit then a run (short, 50-80 % of the limit, with __EVAL, 12 kinds of endless program, a finite program of 1.5-3 "
                       "limits), a short run, an endless run; and random histories of 3-9 such calls. Every run within the limit completes with "
                       "exactly its markers and 0, every other is cut with -6, the message of the limit, status 0, not before and at most 5 ticks "
                       "after limit, having logged what it logs at its start. C API, several instances in one process (implementation only; "
                       "oracle: the property per run with the limit of the instance the call is made on, independent of every other instance): "
                       "3 clock ticks x 4-6 limits incl. none and a pair 100/110 ms; (1) every ordered pair of different limits (F executes the "
                       "first code of the process, O is observed) x 8 kinds of first code (short / medium / cut run, __EVAL inside a run, in a "
                       "preprocess-only call, before a syntax error, before a preprocessing error, in a config load) x 3 orders of creation "
                       "(F first, O first, O only after F executed), then on O a program that must be cut (endless or 1.5-3 limits; on an "
                       "instance without a limit a finite loop of twice the other's limit that must complete), one of 50-80 % of its limit, a "
                       "short one, and one run on F, in random order with idle times; (2) every ordered pair with the first instance destroyed "
                       "before the second is created; (3) random histories over 2-3 instances (created first or on first use, some destroyed) "
                       "of calls that execute nothing, __EVALs, runs of every kind and idle time")
    run.cov["input_distribution"] = dict(kinds, runs_cut=ncut, runs_complete=ncomplete, caps_checked=ncap, expressions_evaluated_like_EVAL=neval,
                                         c_api_runs_complete=api_stats.get("complete", 0), c_api_runs_cut=api_stats.get("cut", 0),
                                         c_api_calls_executing_nothing=api_stats.get("noexec", 0), c_api_returns_of_those=api_stats.get("noexec_returns", {}),
                                         c_api_several_instances_runs_complete=mapi_stats.get("complete", 0), c_api_several_instances_runs_cut=mapi_stats.get("cut", 0),
                                         c_api_several_instances_calls_not_running=mapi_stats.get("noexec", 0))
    run.cov["samples"] = samples
    run.cov["constants"] = consts
    run.cov["trusted_base"] = ["Coq 8.16.1 kernel (vm_compute in Examples and the two switch-on witnesses)", "ExtrOcamlBasic extraction + ocaml/sched_driver.ml",
                               "harness/h_sched.cpp (virtual clock by clock_gettime interposition, fork plumbing; C API histories: the message of the limit is recognised by the text logmessage::runtime::MaximumRuntimeReached formats)",
                               "translators/consts.py (regex over runtime.cpp, runtime.h, ops_generic.cpp)",
                               "model VM/VmDefs.v, VM/VmExec.v, VM/SchedDefs.v hand-written; tied to runtime.cpp/frame.h/ops_generic.cpp only by differential runs"]
    return run.finish()
