"""C12 - Scheduler is fair and isolating; sleep, scriptDone, terminate work as documented.

Proof side: coq/Properties_C12.v. Correspondence: sets of <= 4 spawned scripts (plus the unscheduled main script and a
monitor that polls scriptDone) whose lengths are k*slice + {-1,0,+1} instructions, each with one event (finish, sleep d,
spawn, terminate another / itself) at a chosen instruction. Three parties per case:
  * the ORACLE: a round-robin queue simulated in Python directly from the instruction counts (slices of `slice`
    instructions, sleeping scripts skipped until the virtual clock reaches their wake-up, terminated scripts dropped at
    their next turn, scriptDone = "not scheduled any more") -> the expected global order of diag_log markers,
  * the implementation (harness/h_sched.cpp, virtual clock),
  * the extracted model (ocaml/sched_driver.ml).
Implementation vs oracle differs -> VIOLATION with the program; implementation vs model differs while the oracle is
satisfied -> broken correspondence."""
import json, os, sys
import vcommon as V
import vmcommon as M
import schedcommon as SC
from vmcommon import N, Var, Arr, Code, Un, Bin, E, Asg, Prog

PID = "C12"


# ---------------------------------------------------------------- scripts as lists of atoms
# ("mark", n) ("pad",) ("sleep", d) ("uisleep", d) ("term", var) ("termself",) ("spawn", key) ("poll", n, [vars]) ; main: ("hspawn", var, key)
# ("selfhandle", var): `var = _thisScript`; ("preproc", [[key, handle var or None], ..]): `preprocess__ "__EVAL(h = 0 spawn {..}; ..; 1)"` -
#   scripts spawned from inside an expression that the preprocessor evaluates at run time (runtime::evaluate_expression)
def atom_cost(a):
    k = a[0]
    if k == "pad":
        return 1
    if k in ("mark", "sleep", "uisleep", "term", "termself", "selfhandle", "preproc"):
        return 2
    if k == "spawn":
        return 3
    if k == "hspawn":
        return 4
    if k == "poll":
        return 3 + 2 * len(a[2])
    raise ValueError(k)


def length(atoms):
    return sum(atom_cost(a) for a in atoms) + max(0, len(atoms) - 1)


def compose(t, counter):
    """atoms that each come with a separator: markers cost 3, pads 2; t = 0 or t >= 2"""
    if t == 0:
        return []
    if t == 1:
        raise ValueError("cannot compose 1 instruction")
    pads = {0: 0, 2: 1, 1: 2}[t % 3]
    marks = (t - 2 * pads) // 3
    return [("mark", counter()) for _ in range(marks)] + [("pad",)] * pads


def fill(total, first, counter):
    """atoms of exactly `total` instructions (separators included); first=True: the first atom has no separator"""
    if total == 0:
        return []
    if not first:
        return compose(total, counter)
    if total == 1:
        return [("pad",)]
    c0 = 2 if total - 2 != 1 else 1
    head = [("mark", counter())] if c0 == 2 else [("pad",)]
    return head + compose(total - c0, counter)


def build_script(L, P, event, counter):
    """a script of L instructions (L+1 if that is not composable) whose event atom starts after exactly P executed
    instructions (P = 1 is not possible: 0 or >= 2)"""
    if event is None:
        return fill(L, True, counter)
    e = atom_cost(event)
    if P + e > L:
        P = max(0, L - e)
    if P == 1:
        P = 2 if 2 + e <= L else 0
    pre = compose(P, counter)
    R = L - P - e
    if R == 1:
        R = 2
    return pre + [event] + compose(R, counter)


def build_term_then_sleep(P, G, R, term_atom, sleep_atom, counter):
    """P instructions, the script terminates ITSELF (term_atom), G more instructions, it goes to sleep, then R
    instructions of markers that must never be logged (P, G: 0 or >= 2; R >= 3). Positions count the script's own
    instructions, so with P + G + 5 <= slice everything up to the sleep happens in one slice."""
    return compose(P, counter) + [term_atom] + compose(G, counter) + [sleep_atom] + compose(R, counter)


def selfterm_cases(slice_len):
    """terminate itself (through _thisScript / through its own handle in a global), then sleep / uiSleep: early-late,
    adjacent, a few markers in between, around the slice boundary, in the first and in a later slice; alone, with a
    monitor polling scriptDone, and with a runnable neighbour"""
    out = []
    spots = [(0, 0), (0, 3), (2, 9), (3, 6), (0, slice_len - 6), (0, slice_len - 5), (0, slice_len - 4), (slice_len - 8, 0),
             (slice_len - 5, 0), (slice_len - 4, 0), (slice_len - 3, 0), (slice_len, 0), (slice_len + 3, 6), (2 * slice_len - 7, 2)]
    for via in ("this", "handle"):
        for sl in ("sleep", "uisleep"):
            for n, (P, G) in enumerate(spots):
                for company in (("mon",), ("mon", "other"), ()):
                    if company == () and n % 3:
                        continue
                    if company == ("mon", "other") and n % 2:
                        continue
                    cnt = [0]

                    def counter(cnt=cnt):
                        cnt[0] += 1
                        return 10000 + cnt[0]
                    term = ("termself",) if via == "this" else ("term", "h1")
                    scripts = {"s1": build_term_then_sleep(P, G, 6, term, (sl, 1), counter)}
                    main = [("hspawn", "h1", "s1")]
                    if "other" in company:
                        ocnt = [0]

                        def ocounter(ocnt=ocnt):
                            ocnt[0] += 1
                            return 20000 + ocnt[0]
                        scripts["s2"] = fill(slice_len + 20, True, ocounter)
                        main.append(("hspawn", "h2", "s2"))
                    if "mon" in company:
                        scripts["mon"] = ([("poll", 900001 + q, ["h1"]) for q in range(12)] + [("sleep", 3)] +
                                          [("poll", 900101 + q, ["h1"]) for q in range(3)])
                        main.append(("hspawn", "hm", "mon"))
                    main.append(("pad",))
                    out.append({"main": main, "scripts": scripts,
                                "desc": "s1: terminate itself (%s) @%d, %s %d instructions later%s" % (
                                    "_thisScript" if via == "this" else "own handle", P, "uiSleep" if sl == "uisleep" else "sleep", G + 3,
                                    "; " + "+".join(company) if company else "")})
    return out


def eval_spawn_cases(slice_len):
    """scripts spawned from inside an expression that the preprocessor evaluates at run time (preprocess__ "__EVAL(..)"):
    from the main script and from a spawned script, one and two spawns in the expression, the handle kept through an assignment
    in the expression or set by the spawned script itself, short / sleeping / longer-than-a-slice children, with a busy neighbour
    and a scriptDone monitor"""
    out = []
    shapes = {"short": lambda c: [("mark", c()), ("mark", c()), ("mark", c())],
              "sleeping": lambda c: [("mark", c()), ("sleep", 1), ("mark", c()), ("mark", c())],
              "long": lambda c: [("mark", c()) for _ in range(slice_len // 3 + 5)]}
    for origin in ("main", "spawned"):
        for nsp in (1, 2):
            for hk in ("expr", "self"):
                for shape in ("short", "sleeping", "long"):
                    for pos in ((0,) if origin == "main" else (0, slice_len - 2)):
                        scripts, children, hvs = {}, [], []
                        for q in range(nsp):
                            cnt = [0]

                            def counter(cnt=cnt, q=q):
                                cnt[0] += 1
                                return (5 + q) * 10000 + cnt[0]
                            body = shapes[shape](counter)
                            hv = "w%d" % (q + 1)
                            if hk == "self":
                                body = [("selfhandle", hv)] + body
                            scripts["e%d" % (q + 1)] = body
                            children.append(["e%d" % (q + 1), hv if hk == "expr" else None])
                            hvs.append(hv)
                        acnt = [0]

                        def acounter(acnt=acnt):
                            acnt[0] += 1
                            return 10000 + acnt[0]
                        scripts["a"] = fill(slice_len + 20, True, acounter)
                        pcnt = [0]

                        def pcounter(pcnt=pcnt):
                            pcnt[0] += 1
                            return 20000 + pcnt[0]
                        pre = ("preproc", children)
                        if origin == "main":
                            main = [("hspawn", "h1", "a"), pre]
                        else:
                            scripts["p"] = compose(pos, pcounter) + [pre] + compose(6, pcounter)
                            main = [("hspawn", "h1", "a"), ("hspawn", "h2", "p")]
                        if hk == "expr":
                            # the handles exist as soon as the expression has been evaluated: the monitor may poll them
                            mon = [("poll", 900001 + q, hvs) for q in range(10)] + [("sleep", 3)] + [("poll", 900101 + q, hvs) for q in range(3)]
                            scripts["mon"] = mon
                            if origin == "main":
                                main.append(("hspawn", "hm", "mon"))
                        main.append(("pad",))
                        if hk == "expr" and origin == "spawned":
                            # started by p itself, right after the preprocess__ call
                            k = scripts["p"].index(pre)
                            scripts["p"] = scripts["p"][:k + 1] + [("spawn", "mon")] + scripts["p"][k + 1:]
                        out.append({"main": main, "scripts": scripts,
                                    "desc": "__EVAL spawns %d script(s) (%s, handle: %s) from %s%s" % (
                                        nsp, shape, "assigned in the expression" if hk == "expr" else "set by the script itself",
                                        "the main script" if origin == "main" else "a spawned script @%d" % pos,
                                        "; monitor" if hk == "expr" else "")})
    return out


def lone_script_cases(slice_len):
    """ONE script is scheduled (the unscheduled main script, or a spawned script after the main script has ended); it spawns a
    child early and then keeps running for several slices without sleeping: the child must get its turn after at most one slice
    of the parent (bounded slices also for a script that was alone when its slice began)"""
    out = []
    for who in ("main", "spawned"):
        for tail in (slice_len - 1, slice_len + 1, 2 * slice_len + 10, 3 * slice_len + 40, 5 * slice_len):
            for early in (0, 9, slice_len - 10):
                for child in ("short", "long", "two"):
                    pc, cc, dc = [0], [0], [0]

                    def pcounter(pc=pc):
                        pc[0] += 1
                        return 10000 + pc[0]

                    def ccounter(cc=cc):
                        cc[0] += 1
                        return 50000 + cc[0]

                    def dcounter(dc=dc):
                        dc[0] += 1
                        return 60000 + dc[0]
                    scripts = {"c1": fill(8 if child != "long" else slice_len + 30, True, ccounter)}
                    body = compose(early, pcounter) + [("spawn", "c1")]
                    if child == "two":
                        scripts["c2"] = fill(5, True, dcounter)
                        body += [("spawn", "c2")]
                    body += compose(tail, pcounter)
                    if who == "main":
                        main = body
                    else:
                        scripts["p"] = body
                        main = [("spawn", "p")]
                    out.append({"main": main, "scripts": scripts,
                                "desc": "lone %s script: %d instructions, spawn (%s), %d more instructions" % (who, early, child, tail)})
    return out


def never_logged(case, exp_marks):
    """markers of the generated scripts that the round-robin oracle never emits: statements behind a script's termination"""
    exp = set(exp_marks)
    return set(str(a[1]) for v in case["scripts"].values() for a in v if a[0] == "mark" and str(a[1]) not in exp)


def atoms_text(atoms):
    """SQF text of a script that goes into a string (no double quotes): only the atoms used inside __EVAL"""
    out = []
    for a in atoms:
        k = a[0]
        if k == "mark":
            out.append("diag_log %d" % a[1])
        elif k == "pad":
            out.append("0")
        elif k == "sleep":
            out.append("sleep %d" % a[1])
        elif k == "selfhandle":
            out.append("%s = _thisScript" % a[1])
        else:
            raise ValueError("no text form for " + k)
    return "; ".join(out)


def eval_text(children, scripts):
    parts = []
    for key, hv in children:
        sp = "0 spawn { %s }" % atoms_text(scripts[key])
        parts.append(("%s = %s" % (hv, sp)) if hv else sp)
    return "__EVAL(" + "; ".join(parts) + "; 1)"


def atom_tokens(a, scripts):
    k = a[0]
    if k == "selfhandle":
        return Asg(a[1], Var("_thisScript"))
    if k == "preproc":
        return E(Un("preprocess__", M.S(eval_text(a[1], scripts))))
    if k == "mark":
        return E(Un("diag_log", N(a[1])))
    if k == "pad":
        return E(N(0))
    if k == "sleep":
        return E(Un("sleep", N(a[1])))
    if k == "uisleep":
        return E(Un("uiSleep", N(a[1])))
    if k == "term":
        return E(Un("terminate", Var(a[1])))
    if k == "termself":
        return E(Un("terminate", Var("_thisScript")))
    if k == "spawn":
        return E(Bin("spawn", N(0), Code(*[atom_tokens(x, scripts) for x in scripts[a[1]]])))
    if k == "hspawn":
        return Asg(a[1], Bin("spawn", N(0), Code(*[atom_tokens(x, scripts) for x in scripts[a[2]]])))
    if k == "poll":
        return E(Un("diag_log", Arr(N(a[1]), *[Un("scriptDone", Var(v)) for v in a[2]])))
    raise ValueError(k)


def expand(atoms):
    """instruction list of a script: (op, payload)"""
    ins = []
    for n, a in enumerate(atoms):
        if n:
            ins.append(("END",))
        k = a[0]
        if k == "mark":
            ins += [("PUSH",), ("LOG", a[1])]
        elif k == "pad":
            ins += [("PUSH",)]
        elif k in ("sleep", "uisleep"):
            ins += [("PUSH",), ("SLEEP", a[1])]
        elif k == "term":
            ins += [("GET",), ("TERM", a[1])]
        elif k == "termself":
            ins += [("GET",), ("TERMSELF",)]
        elif k == "spawn":
            ins += [("PUSH",), ("PUSH",), ("SPAWN", a[1], None)]
        elif k == "hspawn":
            ins += [("PUSH",), ("PUSH",), ("SPAWN", a[2], a[1]), ("ASSIGN", a[1])]
        elif k == "selfhandle":
            ins += [("GET",), ("ASSIGNSELF", a[1])]
        elif k == "preproc":
            ins += [("PUSH",), ("PREPROC", [tuple(x) for x in a[1]])]
        elif k == "poll":
            ins += [("PUSH",)]
            for v in a[2]:
                ins += [("GET",), ("SD", v)]
            ins += [("MKARR",), ("LOGPOLL", a[1], len(a[2]))]
    return ins


class Ctx:
    def __init__(self, cid, ins):
        self.id, self.ins, self.pc = cid, ins, 0
        self.susp, self.wake, self.term = False, 0, False
        self.stack = []
        self.pending = None


def simulate(main_atoms, scripts, tick, slice_len):
    """the property's oracle: a round-robin queue over instruction counts. Returns (markers, visits per pass, final clock)."""
    clock = tick          # the runtime's constructor reads the clock once
    clock += tick         # a run starts: the clock is read once more
    ctxs = [Ctx(0, expand(main_atoms))]
    next_id = 1
    handles = {}
    out, passes = [], []
    guard = 0
    while ctxs:
        guard += 1
        if guard > 200000:
            raise RuntimeError("oracle does not terminate")
        i = 0
        this = []
        while i < len(ctxs):
            c = ctxs[i]
            if c.term:
                c.ins, c.pc, c.susp = [], 0, False
            run = True
            if c.susp:
                clock += tick
                if c.wake <= clock:
                    c.susp = False
                else:
                    run = False
            res, done = "ok", 0
            if run:
                budget = slice_len
                while True:
                    if budget == 0:
                        break
                    if c.susp:
                        break
                    if c.pc >= len(c.ins):
                        res = "empty"
                        break
                    op = c.ins[c.pc]
                    c.pc += 1
                    budget -= 1
                    done += 1
                    k = op[0]
                    if k == "LOG":
                        out.append(str(op[1]))
                    elif k == "SLEEP":
                        clock += tick
                        c.wake = clock + op[1] * 1000000
                        c.susp = True
                    elif k == "TERM":
                        tid = handles.get(op[1])
                        for o in ctxs:
                            if o.id == tid:
                                o.term = True
                    elif k == "TERMSELF":
                        c.term = True
                    elif k == "SPAWN":
                        nc = Ctx(next_id, expand(scripts[op[1]]))
                        next_id += 1
                        ctxs.append(nc)
                        c.pending = nc.id
                    elif k == "ASSIGN":
                        handles[op[1]] = c.pending
                    elif k == "ASSIGNSELF":
                        handles[op[1]] = c.id
                    elif k == "PREPROC":
                        # evaluate_expression: a context for the expression is appended and run to its end at once (inside this
                        # operator call); the scripts it spawns are appended behind it; the emptied context is collected when
                        # its turn comes
                        ctxs.append(Ctx(next_id, []))
                        next_id += 1
                        for key, hv in op[1]:
                            nc = Ctx(next_id, expand(scripts[key]))
                            next_id += 1
                            ctxs.append(nc)
                            if hv:
                                handles[hv] = nc.id
                    elif k == "SD":
                        tid = handles.get(op[1])
                        c.stack.append("false" if any(o.id == tid for o in ctxs) else "true")
                    elif k == "LOGPOLL":
                        vals = c.stack[-op[2]:] if op[2] else []
                        c.stack = []
                        out.append("[" + ",".join([str(op[1])] + vals) + "]")
            this.append((c.id, run, done))
            if res == "empty":
                ctxs.pop(i)
            else:
                i += 1
        passes.append(this)
    return out, passes, clock


# ---------------------------------------------------------------- case generation
def gen_case(rng, slice_len, nscripts=None, with_monitor=None):
    k = nscripts if nscripts is not None else rng.randint(1, 4)
    scripts = {}
    main = []
    hv = ["h%d" % (j + 1) for j in range(k)]
    desc = []
    for j in range(k):
        cnt = [0]

        def counter(j=j, cnt=cnt):
            cnt[0] += 1
            return (j + 1) * 10000 + cnt[0]
        base = rng.choice([0, 1, 1, 2])
        L = max(2, base * slice_len + rng.choice([-1, 0, 1])) if base else rng.choice([2, 3, 5, 8])
        ev = rng.choice(["finish", "sleep", "spawn", "term", "termself", "termself+sleep", "termself+sleep"])
        P = rng.choice([0, 2, 3, slice_len - 1, slice_len, slice_len + 1, 2 * slice_len - 1, 2 * slice_len, L // 2, max(0, L - 3)])
        P = min(P, L)
        event = None
        if ev == "sleep":
            event = ("sleep", rng.choice([1, 1, 2]))
        elif ev == "spawn":
            ck = "c%d" % (j + 1)
            ccnt = [0]

            def ccounter(j=j, ccnt=ccnt):
                ccnt[0] += 1
                return (j + 5) * 10000 + ccnt[0]
            scripts[ck] = fill(rng.choice([2, 5, 8, slice_len + 1]), True, ccounter)
            event = ("spawn", ck)
        elif ev == "term" and k > 1:
            other = rng.choice([v for n, v in enumerate(hv) if n != j])
            event = ("term", other)
        elif ev == "termself":
            event = ("termself",)
        if ev == "termself+sleep":
            # the script terminates itself and then goes to sleep, mostly within one slice: nothing behind the sleep may run
            P = rng.choice([0, 0, 2, 3, 30, slice_len - 8, slice_len - 4, slice_len, slice_len + 3])
            G = rng.choice([0, 0, 2, 3, 6, 9, max(0, slice_len - 6 - P) if P < slice_len - 8 else 0])
            G = 0 if G == 1 else G
            term = rng.choice([("termself",), ("term", hv[j])])
            atoms = build_term_then_sleep(P, G, rng.choice([3, 6, 30]), term, (rng.choice(["sleep", "sleep", "uisleep"]), rng.choice([1, 2])), counter)
        else:
            atoms = build_script(L, P, event, counter)
        scripts["s%d" % (j + 1)] = atoms
        desc.append("s%d:L=%d,%s@%d" % (j + 1, length(atoms), ev, P))
        main.append(("hspawn", hv[j], "s%d" % (j + 1)))
    mon = with_monitor if with_monitor is not None else (rng.random() < 0.7)
    if mon:
        pc = [0]

        def pcounter(pc=pc):
            pc[0] += 1
            return 900000 + pc[0]
        n1 = rng.choice([5, 20, 60])
        matoms = [("poll", pcounter(), hv) for _ in range(n1)]
        if rng.random() < 0.6:
            matoms.append(("sleep", rng.choice([1, 3])))
            matoms += [("poll", pcounter(), hv) for _ in range(rng.choice([3, 10]))]
        scripts["mon"] = matoms
        main.append(("hspawn", "hm", "mon"))
        desc.append("monitor:%d" % len(matoms))
    if rng.random() < 0.25:
        mc = [0]

        def mcounter(mc=mc):
            mc[0] += 1
            return 70000 + mc[0]
        tail = rng.choice([slice_len - 30, slice_len + 10, 2 * slice_len + 10, 3 * slice_len + 1])
        main += compose(tail, mcounter)
        desc.append("main:+%d" % tail)
    else:
        main.append(("pad",))
    return {"main": main, "scripts": scripts, "desc": ";".join(desc)}


def case_prog(case):
    return Prog(*[atom_tokens(a, case["scripts"]) for a in case["main"]])


def check_sleep_times(case, marks, times):
    """no marker of a sleeping script before its wake-up: the first marker after `sleep d` is at least d seconds of
    virtual time after the last marker before it (markers carry script*10000+n)."""
    if len(marks) != len(times):
        return None
    tm = dict(zip(marks, times))
    for key, atoms in case["scripts"].items():
        for n, a in enumerate(atoms):
            if a[0] not in ("sleep", "uisleep"):
                continue
            def label(x):
                return str(x[1]) if x[0] == "mark" else None
            before = [label(x) for x in atoms[:n] if x[0] == "mark"]
            after = [label(x) for x in atoms[n + 1:] if x[0] == "mark"]
            if before and after and before[-1] in tm and after[0] in tm:
                if tm[after[0]] < tm[before[-1]] + a[1] * 1000000:
                    return "script %s resumed %d us after going to sleep for %d s" % (key, tm[after[0]] - tm[before[-1]], a[1])
    return None


def main(replay=None):
    run = V.Run(PID, "proof")
    rng = run.rng
    thorough = run.tier == "thorough"
    problems = run.prove()
    himpl, drv, consts = SC.build(thorough)
    SC.consts_problem(run, consts, problems)
    slice_len = consts["slice_length"]

    cases = []   # (kind, case, tick)
    if replay:
        r = json.load(open(replay))["replay"]
        cases.append(("replay", r["case"], r["tick_us"]))
    else:
        cdir = os.path.join(V.VERIF, "corpus", PID)
        if os.path.isdir(cdir):
            for fn in sorted(os.listdir(cdir)):
                r = json.load(open(os.path.join(cdir, fn)))
                cases.append(("corpus:" + fn, r["case"], r["tick_us"]))
        n = 4000 if thorough else 260
        for i in range(n):
            cases.append(("random", gen_case(rng, slice_len), rng.choice([1000, 100000, 100000, 250000])))
        # a script that terminates itself and then sleeps (the terminate request must survive the sleep)
        for case in selfterm_cases(slice_len):
            cases.append(("selfterm", case, 100000))
        # scripts spawned from inside an expression evaluated by the preprocessor at run time
        for case in eval_spawn_cases(slice_len):
            cases.append(("evalspawn", case, 100000))
        # one script alone in the schedule spawns and keeps running: the child is served after one slice of the parent
        for case in lone_script_cases(slice_len):
            cases.append(("lone", case, 100000))
        # every event kind at every boundary position, single script + monitor
        for ev in ("finish", "sleep", "spawn", "termself"):
            for L in (slice_len - 1, slice_len, slice_len + 1, 2 * slice_len):
                for P in (0, slice_len - 2, slice_len - 1, slice_len):
                    cnt = [0]

                    def counter(cnt=cnt):
                        cnt[0] += 1
                        return 10000 + cnt[0]
                    scripts = {}
                    event = None
                    if ev == "sleep":
                        event = ("sleep", 1)
                    elif ev == "spawn":
                        scripts["c1"] = [("mark", 50001), ("mark", 50002)]
                        event = ("spawn", "c1")
                    elif ev == "termself":
                        event = ("termself",)
                    scripts["s1"] = build_script(L, min(P, L), event, counter)
                    scripts["mon"] = [("poll", 900001 + q, ["h1"]) for q in range(30)]
                    case = {"main": [("hspawn", "h1", "s1"), ("hspawn", "hm", "mon"), ("pad",)], "scripts": scripts,
                            "desc": "s1:L=%d,%s@%d" % (L, ev, P)}
                    cases.append(("boundary", case, 100000))

    # JSON round trip turns tuples into lists: normalise
    def norm(case):
        return {"main": [tuple(a) for a in case["main"]],
                "scripts": dict((k, [tuple(a) for a in v]) for k, v in case["scripts"].items()), "desc": case.get("desc", "")}
    cases = [(k, norm(c), t) for k, c, t in cases]

    by_tick = {}
    for idx, (kind, case, tick) in enumerate(cases):
        by_tick.setdefault(tick, []).append(idx)
    results = [None] * len(cases)
    for tick, idxs in by_tick.items():
        hists = [[("L", case_prog(cases[i][1])), ("S",)] for i in idxs]
        res = SC.run_histories(himpl, drv, hists, defects=[], max_runtime_ms=0, tick_us=tick, max_loop=consts["default_max_loop"], slice_=slice_len)
        for i, d in zip(idxs, res):
            results[i] = d

    kinds, distinct, samples = {}, set(), []
    nsleep = nterm = nspawn = 0
    for (kind, case, tick), d in zip(cases, results):
        kinds[kind.split(":")[0]] = kinds.get(kind.split(":")[0], 0) + 1
        exp_marks, exp_passes, exp_clock = simulate(case["main"], case["scripts"], tick, slice_len)
        i_run = d["i_obs"][1] if len(d["i_obs"]) > 1 else d["i_obs"][0]
        m_run = d["m_obs"][1] if len(d["m_obs"]) > 1 else d["m_obs"][0]
        rep = {"case": case, "tick_us": tick, "text": (d.get("texts") or [None])[0], "impl": i_run[:3000], "model": m_run[:3000],
               "expected_markers": exp_marks[:400], "kind": kind}
        pr = SC.parse_run(i_run)
        allatoms = [a for v in case["scripts"].values() for a in v] + list(case["main"])
        has = lambda k: any(a[0] == k for a in allatoms)
        nsleep += has("sleep") or has("uisleep"); nterm += has("term") or has("termself"); nspawn += has("spawn")
        distinct.add(case["desc"] + "|" + str(tick))
        if len(samples) < 5 and kind != "boundary":
            samples.append({"desc": case["desc"], "tick_us": tick, "text": (rep["text"] or "")[:300], "impl": i_run[:200],
                            "model_passes": (d.get("m_sched") or [""])[0][:200]})
        # 1. the property's oracle
        if pr is None:
            run.violation("scheduled scripts: the run did not come back (%s)" % i_run[:80], rep)
            continue
        marks = [m for m in SC.markers(pr["events"]) if not m.startswith("VALUE ")]
        dead = [m for m in marks if m in never_logged(case, exp_marks)]
        if dead:
            rep["statements_that_must_not_run"] = dead[:10]
            run.violation("a terminated script executed %d statement(s) after its next scheduling point (first: diag_log %s)" % (len(dead), dead[0]), rep)
            continue
        have = set(marks)
        missing = [m for m in exp_marks if m not in have and not m.startswith("[")]
        if missing:
            rep["statements_that_never_ran"] = missing[:10]
            run.violation("a scheduled script was skipped: %d of the statements it still had to run never ran (first: diag_log %s)" % (
                len(missing), missing[0]), rep)
            continue
        if marks != exp_marks:
            k = next((n for n, (a, b) in enumerate(zip(marks, exp_marks)) if a != b), min(len(marks), len(exp_marks)))
            rep["first_difference"] = {"index": k, "impl": marks[k:k + 3], "round_robin": exp_marks[k:k + 3]}

            def owner(m):
                return int(m) // 10000 if m.isdigit() else -1
            runlen = 0
            while k + runlen < len(marks) and owner(marks[k + runlen]) == owner(marks[k]) and owner(marks[k]) >= 0:
                runlen += 1
            if k < len(exp_marks) and runlen > slice_len // 2 + 1 and owner(exp_marks[k]) != owner(marks[k]):
                run.violation("slices are not bounded: script %d logged %d statements in a row (more than a slice of %d instructions holds) "
                              "while script %d was waiting for its turn" % (owner(marks[k]), runlen, slice_len, owner(exp_marks[k])), rep)
                continue
            run.violation("the global order of markers is not the round-robin order of %d-instruction slices "
                          "(sleep / terminate / scriptDone taken into account)" % slice_len, rep)
            continue
        if pr["res"] != -1 or pr["state"] != 0:
            run.violation("all scripts ran to their end but the run reports result %d state %d" % (pr["res"], pr["state"]), rep)
            continue
        times = d["i_times"][0] if d.get("i_times") else []
        allm = SC.markers(pr["events"])
        tmarks = [m for m in allm]   # times are recorded for diag_log markers only (not for dropped values)
        why = check_sleep_times(case, marks, times) if len(times) == len(marks) else None
        if why:
            run.violation(why, rep)
            continue
        # 2. correspondence (uiSleep and preprocess__/__EVAL - a nested evaluate_expression - are not in the modelled fragment:
        #    those cases are judged by the round-robin oracle alone)
        if has("uisleep") or has("preproc"):
            kinds["judged_by_the_oracle_alone"] = kinds.get("judged_by_the_oracle_alone", 0) + 1
            continue
        if not SC.same_obs(d["m_obs"], d["i_obs"]):
            rep["broken"] = "correspondence SchedDefs.run_history (start_loop2/start_pass2/execute_do2) vs runtime::execute(start)"
            run.violation("implementation and model disagree (round-robin oracle satisfied)", rep, found_input=False)
            continue
        # 3. the model's pass log against the oracle's (slices, instruction counts): machinery self-check
        msched = (d.get("m_sched") or [""])[0]
        osched = ";".join(",".join("%d%s%d+0" % (cid, ":" if ran else "z", done) for cid, ran, done in p) for p in exp_passes)
        if msched != osched:
            rep["broken"] = "oracle vs model pass log"
            rep["model_passes"], rep["oracle_passes"] = msched[:2000], osched[:2000]
            run.violation("the model's slices differ from the Python oracle's although the markers agree (machinery)", rep, found_input=False)
    for p in problems:
        run.violation("proof obligation not discharged: " + p, {"broken": p, "theorems": run.cov["theorems"]}, found_input=False)
    run.cov["evaluations"] = len(cases)
    run.cov["distinct_nontrivial"] = len(distinct)
    run.cov["rule"] = ("1-4 spawned scripts of k*%d+{-1,0,1} (k<=2) or a few instructions, one event each from {finish, sleep d, spawn, "
                       "terminate another, terminate itself, terminate itself (via _thisScript or its own handle) and then sleep/uiSleep} at an "
                       "instruction position around the slice boundaries, an optional monitor "
                       "script polling scriptDone of all handles (with a sleep in between), the unscheduled main script; plus every "
                       "event kind x length x position at the slice boundary for one script, and a systematic family 'terminate itself, G instructions, "
                       "sleep' (early/late, adjacent, across the boundary, first and later slice, alone / with monitor / with a runnable neighbour), "
                       "a single scheduled script (main or spawned) that spawns and keeps running for up to five slices, a main script that goes on for several slices after its spawns, "
                       "and scripts spawned from inside an expression the preprocessor evaluates at run time (preprocess__ \"__EVAL(h = 0 spawn {..})\" "
                       "from the main script and from a spawned script, one or two spawns, handle assigned in the expression or set by the script "
                       "itself; implementation against the oracle only, the model has no nested evaluation). "
                       "Oracles: statements behind a script's termination must never be logged; expected marker order (incl. scriptDone polls) from a Python "
                       "round-robin simulation over instruction counts; distinct by (script lengths, events, positions, tick)" % slice_len)
    run.cov["input_distribution"] = dict(kinds, with_sleep=nsleep, with_terminate=nterm, with_spawn=nspawn)
    run.cov["samples"] = samples
    run.cov["slice_length"] = slice_len
    run.cov["trusted_base"] = ["Coq 8.16.1 kernel (vm_compute in Examples only)", "ExtrOcamlBasic extraction + ocaml/sched_driver.ml",
                               "harness/h_sched.cpp (virtual clock by clock_gettime interposition, fork plumbing)",
                               "the Python round-robin oracle in checks/C12.py",
                               "model VM/VmDefs.v, VM/VmExec.v, VM/SchedDefs.v hand-written; tied to runtime.cpp/frame.h/ops_generic.cpp only by differential runs"]
    return run.finish()
