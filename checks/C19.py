"""C19 - execution control (start / stop / abort / assembly step / line step / leave scope) follows its state machine,
sequentially and with a second thread."""
import json, os, re, sys
import vcommon as V
import vmcommon as VM
from vmcommon import N, B, S, Var, Arr, Code, Nul, Un, Bin, E, Asg, Loc, Prog

PID = "C19"
ALPHABET = "stapvl"          # start, stop, abort, assembly_step, leave_scope, line_step
EXECUTING = "spvl"
FIXES = {"noscript": "C19-01-no-script-is-not-an-error.diff", "nullactive": "C19-02-step-without-active-context.diff",
         "lineinstr": "C19-03-line-step-stops-at-line-change.diff", "leavekeeps": "C19-04-leave-scope-keeps-discarded-context.diff"}


def scripts():
    """(name, program tokens, indices of the '; ' separators that become line breaks, fails?)"""
    good1 = Prog(Asg("a", N(1)), Asg("b", N(2)), Asg("c", Bin("+", N(3), N(4))), Asg("d", N(5)))
    nested = Prog(Asg("a", N(1)), E(Un("call", Code(Asg("b", N(2)), Asg("c", N(3))))), Asg("d", N(4)))
    bad1 = Prog(Asg("a", N(1)), Asg("b", Bin("select", Arr(N(1)), N(5))), Asg("c", N(3)))
    loop = Prog(Loc("_i", N(0)), E(Bin("do", Un("while", Code(E(Bin("<", Var("_i"), N(2))))),
                                     Code(Loc("_i", Bin("+", Var("_i"), N(1))), E(Un("diag_log", Var("_i")))))), Asg("e", N(9)))
    oneline = Prog(Asg("a", N(1)), Asg("b", N(2)))
    handled = Prog(Asg("a", N(1)), E(Bin("except__", Code(Asg("b", Bin("select", Arr(N(1)), N(7))), Asg("b2", N(1))), Code(Asg("h", N(2))))), Asg("c", N(3)))
    return [("good1", good1, [1, 2], False), ("nested", nested, [1, 2, 3], False), ("bad1", bad1, [0, 1], True),
            ("loop", loop, [0, 2, 3], False), ("oneline", oneline, [], False), ("handled", handled, [0, 1, 2, 3], False)] + unwinding_scripts() + handled_scripts()


def handled_scripts():
    """scripts in which an instruction raises a runtime error that a recovering scope (except__) takes over: directly in the guarded block,
    two calls below it, and as the very first thing of the block; the handler has two statements and stands on lines of its own"""
    dl = lambda n: E(Un("diag_log", N(n)))
    call = lambda *ss: E(Un("call", Code(*ss)))
    bad = lambda n: Asg(n, Bin("select", Arr(N(1)), N(7)))
    h1 = Prog(dl(1), E(Bin("except__", Code(dl(2), bad("b"), dl(3)), Code(dl(4), dl(5)))), dl(6))
    h2 = Prog(dl(1), E(Bin("except__", Code(dl(2), call(dl(3), call(bad("b"), dl(4)), dl(5)), dl(6)), Code(dl(7), dl(8)))), dl(9))
    h3 = Prog(E(Bin("except__", Code(bad("b")), Code(dl(1), dl(2)))), dl(3))
    return [("handled-direct", h1, [0, 3, 4], False), ("handled-two-calls-down", h2, [0, 2, 6, 7], False), ("handled-first", h3, [0, 1], False)]


def unwinding_scripts():
    """scripts whose inner scopes are left by ONE instruction that unwinds several scopes (breakOut to a name 2-3 levels up, also from an
    if-then body; throw caught 2-3 scopes out), with a marker after every scope and an unrelated call of the same depth behind; controls:
    one-level breakOut, exitWith, running to the end"""
    dl = lambda n: E(Un("diag_log", N(n)))
    call = lambda *ss: E(Un("call", Code(*ss)))
    bo3 = Prog(dl(1), call(E(Un("scopeName", S("s1"))), dl(2), call(dl(3), call(dl(4), E(Un("breakOut", S("s1"))), dl(5)), dl(6)), dl(7)),
               dl(8), call(dl(9), call(dl(10), call(dl(11)))), dl(12))
    bo2 = Prog(dl(1), call(dl(2), call(E(Un("scopeName", S("m"))), dl(3), call(dl(4), E(Un("breakOut", S("m"))), dl(5)), dl(6)), dl(7)), dl(8), call(dl(9), call(dl(10))), dl(11))
    boif = Prog(dl(1), call(E(Un("scopeName", S("s"))), call(dl(2), E(Bin("then", Un("if", B(True)), Code(dl(3), E(Un("breakOut", S("s"))), dl(4)))), dl(5)), dl(6)),
                dl(7), call(dl(8), call(dl(9), call(dl(10)))), dl(11))
    thr3 = Prog(dl(1), E(Bin("catch", Un("try", Code(dl(2), call(dl(3), call(dl(4), E(Un("throw", N(1))), dl(5)), dl(6)), dl(7))), Code(E(Un("diag_log", Var("_exception")))))),
                dl(8), call(dl(9), call(dl(10), call(dl(11)))), dl(12))
    thr2 = Prog(dl(1), call(dl(2), E(Bin("catch", Un("try", Code(call(dl(3), E(Un("throw", N(7))), dl(4)), dl(5))), Code(dl(6)))), dl(7)), dl(8), call(dl(9), call(dl(10))), dl(11))
    bo1 = Prog(dl(1), call(E(Un("scopeName", S("a"))), dl(2), E(Un("breakOut", S("a"))), dl(3)), dl(4), call(dl(5)), dl(6))
    exw = Prog(dl(1), call(dl(2), E(Bin("exitWith", Un("if", B(True)), Code(dl(3)))), dl(4)), dl(5), call(dl(6)), dl(7))
    return [("unwind-breakout-3", bo3, [], False), ("unwind-breakout-2", bo2, [], False), ("unwind-breakout-from-if", boif, [], False),
            ("unwind-throw-3", thr3, [], False), ("unwind-throw-2", thr2, [], False), ("unwind-breakout-1", bo1, [], False), ("unwind-exitwith", exw, [], False)]


def multiline(text, breaks):
    out, k, i = [], 0, 0
    while i < len(text):
        if text.startswith("; ", i):
            out.append(";\n" if k in breaks else "; ")
            k += 1
            i += 2
        else:
            out.append(text[i]); i += 1
    return "".join(out)


def parse_tree(line):
    """-> (base obs, dict path -> obs) ; the line may be a bare failure"""
    parts = line.split(";")
    nodes = {}
    for p in parts[1:]:
        if "=" in p:
            k, v = p.split("=", 1)
            nodes[k] = v
    return parts[0], nodes


def fields(obs):
    f = obs.split(":")
    if len(f) < 3 or not f[0].lstrip("-").isdigit():
        return None
    return {"res": int(f[0]), "state": int(f[1]), "nctx": int(f[2]), "rest": ":".join(f[3:])}


TABLE = {-1: 0, 0: 1, 2: 3, -2: 3, 1: 3}


def table_oracle(prev, act, obs):
    """The sequential state machine (theorem C19_sequential_table) on the implementation's observations alone.
    prev/obs: field dicts; returns a reason or None."""
    if obs is None:
        return "the action did not return (crash / hang)"
    if act in EXECUTING:
        if obs["res"] not in (-1, 0, 2):
            return "an executing action on an idle runtime returned %d (documented: ok, empty, runtime_error)" % obs["res"]
        if obs["state"] != TABLE[obs["res"]] and not (obs["state"] == 0 and obs["nctx"] == 0):
            return "state %d after result %d" % (obs["state"], obs["res"])
        if obs["state"] == 1 and obs["nctx"] == 0:
            return "halted although no script is loaded (a discarded script is still being executed)"
    elif act == "t":
        if obs["res"] != 1 or obs["state"] != prev["state"]:
            return "stop on a runtime that is not running must return action_error and change nothing"
    elif act == "a":
        if prev["state"] in (1, 3):
            if obs["res"] != 0 or obs["state"] != 0 or obs["nctx"] != 0:
                return "abort on a halted runtime must return ok and discard all scripts"
        elif obs["res"] != 1 or obs["state"] != prev["state"]:
            return "abort on an empty runtime must return action_error and change nothing"
    if obs["state"] == 2:
        return "state running after the action returned"
    return None


def main(replay=None):
    run = V.Run(PID, "proof")
    thorough = run.tier == "thorough"
    problems = run.prove()
    hctl = V.build_harness("h_ctl", "plain")
    drv = V.ocaml_driver("api")

    scr = scripts()
    # model text + listing, implementation listing + positions
    rc, mt, _ = V.run_lines([drv, "ctl-text"], [p for _, p, _, _ in scr])
    texts, diag, field = {}, {}, {}
    lines = []
    for (name, prog, br, fails), m in zip(scr, mt):
        f = m.split("\t")
        text = multiline(V.unhx(f[0]).decode("latin-1"), br)
        texts[name] = (prog, text, f[1], fails)
        field[name] = V.hx(text)
        lines.append(V.hx(text))
    rc, il, _ = V.run_lines([hctl, "lines"], lines)
    usable = []
    for (name, prog, br, fails), i in zip(scr, il):
        f = i.split("\t")
        if len(f) != 2 or f[0] != texts[name][2]:
            run.violation("instruction listing of a control script differs between model and implementation (machinery)",
                          {"script": texts[name][1], "model": texts[name][2], "impl": i, "broken": "compile_block vs parser (C01 tie)"}, found_input=False)
            continue
        diag[name] = f[1]
        usable.append(name)

    # scripts spread over several files (#include): consecutive instructions with EQUAL line numbers in DIFFERENT files.
    # layout: list of segments, ("main", [statement indices]) or (file name, [statement indices]) for an include at that place
    def S_(n, v): return Asg(n, N(v))
    multi = [
        ("mf-include-after-line1", [S_("a", 1), S_("b", 2), S_("c", 3), S_("d", 4), S_("e", 5)], [("main", [0]), ("inc.sqf", [1, 2]), ("main", [3, 4])]),
        ("mf-include-first", [S_("x", 1), S_("y", 2), S_("p", 1), S_("q", 1), S_("r", 2)], [("a.sqf", [0, 1]), ("main", [2]), ("b.sqf", [3]), ("main", [4])]),
        ("mf-two-includes-in-a-row", [E(Un("diag_log", N(1))), E(Un("diag_log", N(2))), E(Un("diag_log", N(3))), S_("z", 9)],
         [("one.sqf", [0]), ("two.sqf", [1]), ("main", [2, 3])]),
    ]
    flat = {}          # name -> [(line, file index)] of the top-level instructions
    stmts = sorted({st for _, sts, _ in multi for st in sts})
    rc, stt, _ = V.run_lines([drv, "ctl-text"], [Prog(st) for st in stmts] + [Prog(*sts) for _, sts, _ in multi])
    stext = {st: V.unhx(t.split("\t")[0]).decode("latin-1") for st, t in zip(stmts, stt)}
    for (name, sts, layout), whole in zip(multi, stt[len(stmts):]):
        main_lines, files = [], []
        for seg, idx in layout:
            if seg == "main":
                main_lines += [stext[sts[i]] + ";" for i in idx]
            else:
                main_lines.append('#include "/v/%s"' % seg)
                files.append((seg, "".join(stext[sts[i]] + ";\n" for i in idx)))
        main_text = "\n".join(main_lines) + "\n"
        prog = Prog(*sts)
        fld = ";".join([V.hx(main_text)] + ["%s=%s" % (V.hx(fn), V.hx(c)) for fn, c in files])
        rc, il1, _ = V.run_lines([hctl, "lines"], [fld])
        f = il1[0].split("\t")
        shown = "main.sqf:\n" + main_text + "".join("%s:\n%s" % (fn, c) for fn, c in files)
        if len(f) != 2 or f[0] != whole.split("\t")[1]:
            run.violation("instruction listing of a multi-file control script differs between model and implementation (machinery)",
                          {"script": shown, "model": whole.split("\t")[1], "impl": il1[0], "broken": "compile_block vs preprocessor + parser"}, found_input=False)
            continue
        texts[name] = (prog, shown, f[0], False)
        field[name] = fld
        diag[name] = f[1]
        flat[name] = [(int(x.split(".")[0]), int(x.split(".")[3])) for x in f[1].split(",")]
        usable.append(name)
    alpha_of = {}
    crossings = {"line steps that ended at a file boundary between equal line numbers": 0}

    # ------------------------------------------------------------- sequential: exhaustive action trees
    unwind_dist = {}
    unwind_impl = {}
    trees = []     # (base, script name, depth)
    paths = []     # single action sequences (corpus, replay): (base, script name, actions)
    raw_trees = [] # implementation only, judged by the state-machine table: (base, text, depth)
    if replay:
        r = json.load(open(replay))["replay"]
        if r.get("kind") == "seq" and r.get("script_name") in usable:
            paths = [(r["base"], r["script_name"], r["actions"])]
        elif r.get("kind") == "raw":
            raw_trees = [(r["base"], r["script"], len(r["actions"]), r["actions"])]
    else:
        cdir = os.path.join(V.VERIF, "corpus", PID)
        if os.path.isdir(cdir):
            for fn in sorted(os.listdir(cdir)):
                r = json.load(open(os.path.join(cdir, fn)))
                if r.get("kind") == "seq" and r.get("script_name") in usable:
                    paths.append((r["base"], r["script_name"], r["actions"]))
                elif r.get("kind") == "raw":
                    raw_trees.append((r["base"], r["script"], len(r["actions"]), r["actions"]))
        deep = 5
        trees += [("E", "good1", deep), ("L", "good1", deep), ("F", "good1", deep), ("X", "bad1", deep)]
        side = 4 if thorough else 3
        for nm in ("nested", "loop", "handled", "oneline"):
            trees += [("L", nm, side + (1 if thorough else 0))]
        trees += [("L", "bad1", side + 1), ("X", "handled", side), ("F", "nested", side)]
        # stepped INTO nested scopes by k assembly steps, then leave_scope (and on: step, leave_scope again, run to the end)
        unw = [nm for nm, _, _, _ in unwinding_scripts() if nm in usable]
        rc, lens, _ = V.run_lines([drv, "ctl-seq"], ["repaired\tL\t%s\t%s\t%s" % (texts[nm][0], diag[nm], "p" * 150) for nm in unw])
        for nm, ln in zip(unw, lens):
            nsteps = next((i for i, o in enumerate(ln.split(";")[1:]) if o.startswith("-1:")), 150)
            unwind_dist["leave_scope after k steps into %s" % nm] = nsteps + 1
            for k in range(nsteps + 1):
                paths.append(("L", nm, "p" * k + "vpvs"))
        # stepped up to (and over) an instruction whose runtime error a recovering scope takes over, then a line step and leave_scope
        hnd = [nm for nm, _, _, _ in handled_scripts() if nm in usable]
        rc, lens, _ = V.run_lines([drv, "ctl-seq"], ["repaired\tL\t%s\t%s\t%s" % (texts[nm][0], diag[nm], "p" * 150) for nm in hnd])
        for nm, ln in zip(hnd, lens):
            nsteps = next((i for i, o in enumerate(ln.split(";")[1:]) if o.startswith("-1:")), 150)
            unwind_dist["single steps, line step, leave_scope after k steps into %s" % nm] = nsteps + 1
            paths.append(("L", nm, "p" * (nsteps + 1)))
            for k in range(nsteps + 1):
                paths.append(("L", nm, "p" * k + "lv"))
                paths.append(("L", nm, "p" * k + "vl"))
        for nm in flat:
            trees += [("L", nm, 7), ("L", nm, 3 + (1 if thorough else 0)), ("F", nm, 2)]
            alpha_of[("L", nm, 7)] = "lp"
        # scripts that ask for exit themselves (halt): outside the modelled fragment, judged by the table only
        raw_trees += [("L", "a = 1; halt;\nb = 2; c = 3", 4, None), ("L", "a = 1; call { halt; b = 2 };\nc = 3", 4, None)]
    trees = [t for t in trees if t[1] in usable]
    hl = ["%s\t%s\t%d\t%s" % (b, field[nm], d, alpha_of.get((b, nm, d), ALPHABET)) for b, nm, d in trees]
    ml = ["repaired\t%s\t%s\t%s\t%d\t%s" % (b, texts[nm][0], diag[nm], d, alpha_of.get((b, nm, d), ALPHABET)) for b, nm, d in trees]
    al = ["asis\t%s\t%s\t%s\t%d\t%s" % (b, texts[nm][0], diag[nm], d, alpha_of.get((b, nm, d), ALPHABET)) for b, nm, d in trees]
    rc, impl, _ = V.run_lines_parallel([hctl, "tree"], hl + ["%s\t%s\t%d\t%s" % (b, V.hx(t), d, ALPHABET) for b, t, d, a in raw_trees if a is None],
                                       shards=max(1, len(hl) + len(raw_trees)), timeout=3000)
    raw_impl = impl[len(hl):]
    impl = impl[:len(hl)]
    rc, model, _ = V.run_lines_parallel([drv, "ctl-tree"], ml, timeout=3000)
    rc, asis, _ = V.run_lines_parallel([drv, "ctl-tree"], al, timeout=3000)

    def as_nodes(line, actions):
        """output of the seq modes (obs;obs;..) as a tree line along one path"""
        f = line.split(";")
        return ";".join([f[0]] + ["%s=%s" % (actions[:k + 1], o) for k, o in enumerate(f[1:])])
    if paths:
        rc, pi, _ = V.run_lines_parallel([hctl, "seq"], ["%s\t%s\t%s" % (b, field[nm], a) for b, nm, a in paths], timeout=3000)
        rc, pm, _ = V.run_lines_parallel([drv, "ctl-seq"], ["repaired\t%s\t%s\t%s\t%s" % (b, texts[nm][0], diag[nm], a) for b, nm, a in paths], timeout=3000)
        rc, pa, _ = V.run_lines_parallel([drv, "ctl-seq"], ["asis\t%s\t%s\t%s\t%s" % (b, texts[nm][0], diag[nm], a) for b, nm, a in paths], timeout=3000)
        # implementation-only oracle for leave_scope inside nested scopes: the steps of the same run, one by one
        for (b_, nm_, a_), x in zip(paths, pi):
            if nm_.startswith("unwind-") and b_ == "L":
                base_, nodes_ = parse_tree(as_nodes(x, a_))
                d_ = unwind_impl.setdefault(nm_, {"": base_})
                d_.update(nodes_)
        # corpus / replay cases are judged first
        trees = [(b, nm, len(a)) for b, nm, a in paths] + trees
        impl = [as_nodes(x, a) for (b, nm, a), x in zip(paths, pi)] + impl
        model = [as_nodes(x, a) for (b, nm, a), x in zip(paths, pm)] + model
        asis = [as_nodes(x, a) for (b, nm, a), x in zip(paths, pa)] + asis
    raw_paths = [(b, t, a) for b, t, d, a in raw_trees if a is not None]
    if raw_paths:
        rc, ri, _ = V.run_lines([hctl, "seq"], ["%s\t%s\t%s" % (b, V.hx(t), a) for b, t, a in raw_paths])
        raw_impl += [as_nodes(x, a) for (b, t, a), x in zip(raw_paths, ri)]
    raw_trees = [(b, t, d) for b, t, d, a in raw_trees if a is None] + [(b, t, len(a)) for b, t, a in raw_paths]

    evaluations, nontrivial = 0, set()
    seen_kinds = {}
    samples = []
    dist = dict(unwind_dist)

    def report(kind, what, rep, found=True):
        # one replay per kind of discrepancy and tree is enough to show it; count the rest
        key = (kind, rep.get("base"), rep.get("script_name"))
        seen_kinds[key] = seen_kinds.get(key, 0) + 1
        if seen_kinds[key] == 1:
            run.violation(what, rep, found_input=found)

    # leave_scope issued k instructions into the script must end exactly where stepping on instruction by instruction first leaves the
    # scope that was current (frame count below the count at the time of the request) or ends the script: nothing behind that point
    # may have executed.  Both sides are observations of the implementation.
    def nframes(fd):
        if fd is None or fd["nctx"] == 0:
            return 0
        fr = fd["rest"].split(":", 2)[2] if fd["rest"].count(":") >= 2 else ""
        return len([x for x in fr.split(",") if x])
    unwind_checked = 0
    for nm_, nodes_ in sorted(unwind_impl.items()):
        k = 0
        while "p" * (k + 1) in nodes_:
            k += 1
        trace = [nodes_["p" * j] for j in range(k + 1)]
        for j0 in range(k + 1):
            got = nodes_.get("p" * j0 + "v")
            f0 = fields(trace[j0])
            if got is None or f0 is None or (j0 > 0 and f0["res"] != 0):
                continue
            want = None
            for j in range(j0 + 1, k + 1):
                fj = fields(trace[j])
                if fj is None or fj["res"] != 0 or nframes(fj) < max(nframes(f0), 1):
                    want = trace[j]; wj = j
                    break
            if want is None:
                continue
            unwind_checked += 1
            if got != want:
                report("leave", "leave_scope issued %d instruction(s) into the script does not end where the scope that was current is first left: it gives %s, "
                       "stepping on instruction by instruction leaves that scope (or ends the script) after instruction %d with %s - instructions behind that "
                       "point were executed, or the step stopped short" % (j0, got, wj, want),
                       {"kind": "seq", "base": "L", "script_name": nm_, "script": texts[nm_][1], "actions": "p" * j0 + "v", "impl": got,
                        "impl_by_single_steps": want, "steps_to_leave": wj - j0})
    dist["leave_scope vs single steps (implementation only)"] = unwind_checked

    for (b, t, d), il_ in zip(raw_trees, raw_impl):
        ibase, inodes = parse_tree(il_)
        dist["table-only tree %s/%r depth %d" % (b, t[:24], d)] = len(inodes)
        bad_prefixes = []
        for path in sorted(inodes, key=lambda p: (len(p), p)):
            if any(path.startswith(q) for q in bad_prefixes):
                continue
            evaluations += 1
            prev = fields(inodes[path[:-1]]) if len(path) > 1 else fields(ibase)
            why = table_oracle(prev, path[-1], fields(inodes[path])) if prev is not None else None
            if why:
                bad_prefixes.append(path)
                report("raw:" + why[:30], "control action violates the state machine: " + why,
                       {"kind": "raw", "base": b, "script_name": t, "script": t, "actions": path, "impl": inodes[path]})

    for (b, nm, d), il_, ml_, al_ in zip(trees, impl, model, asis):
        ibase, inodes = parse_tree(il_)
        mbase, mnodes = parse_tree(ml_)
        abase, anodes = parse_tree(al_)
        dist["tree %s/%s depth %d" % (b, nm, d)] = len(mnodes)
        if ml_.startswith("AMBIGUOUS") or ml_.startswith("MODEL-FAIL") or ml_ == "BADLINE":
            run.violation("model driver could not run the tree (machinery)", {"base": b, "script": texts[nm][1], "model": ml_[:300], "broken": "api_driver ctl-tree"}, found_input=False)
            continue
        rep0 = {"kind": "seq", "base": b, "script_name": nm, "script": texts[nm][1]}
        if ibase != mbase:
            what = "base state %s differs" % b
            rep = dict(rep0, actions="", impl=ibase, model=mbase, model_unrepaired=abase)
            report("base", what + (" (the implementation behaves as the model of the unrepaired code)" if ibase == abase else ""), rep, found=True)
            continue
        if len(samples) < 4:
            samples.append({"base": b, "script": texts[nm][1], "first nodes": dict(list(inodes.items())[:6])})
        bad_prefixes = []
        for path in sorted(mnodes, key=lambda p: (len(p), p)):
            if any(path.startswith(q) for q in bad_prefixes):
                continue
            evaluations += 1
            mo = mnodes[path]
            io = inodes.get(path)
            nontrivial.add((b, nm, mo))
            prev = fields(inodes[path[:-1]]) if len(path) > 1 else fields(ibase)
            rep = dict(rep0, actions=path, impl=io, model=mo, model_unrepaired=anodes.get(path))
            if io is None:
                bad_prefixes.append(path)
                report("lost", "the harness lost a node of the action tree", dict(rep, broken="harness tree mode"), found=False)
                continue
            fo = fields(io)
            why = table_oracle(prev, path[-1], fo) if prev is not None else None
            if why:
                bad_prefixes.append(path)
                report("table:" + why[:30], "control action violates the state machine: " + why, rep)
                continue
            if io != mo:
                bad_prefixes.append(path)
                ao = anodes.get(path)
                if ao is not None and (io == ao or (ao.startswith("UB") and fo is None)):
                    act = path[-1]
                    what = ("line_step does not stop at the first instruction of another line" if act == "l" else
                            "control action deviates from the state machine model") + \
                           " - the implementation behaves as the model of the unrepaired code (see proposed_fixes/C19-*)"
                    report("asis:" + act, what, rep)
                elif path[-1] == "l" and fo is not None:
                    report("line", "line_step stops at a different instruction than the first one of another (file, line)", rep)
                else:
                    rep["broken"] = "correspondence CtlDefs.execute_ctl vs runtime::execute (sequential_table, line_step_stops_at_line_change)"
                    report("corr", "implementation and model disagree on a control action (state-machine oracle satisfied)", rep, found=False)

            elif path[-1] == "l" and nm in flat and prev is not None and fo is not None:
                # a correct line step over a multi-file script: did it end at a file boundary between equal line numbers?
                def top_pos(fd):
                    m_ = re.match(r"^[-\d]+:\d+:(\d+)/\d+$", fd["rest"]) if fd["nctx"] == 1 else None
                    return int(m_.group(1)) if m_ else None
                pa, pb = top_pos(prev), top_pos(fo)
                T = flat[nm]
                if pa is not None and pb is not None and pa < pb < len(T) and T[pa][1] != T[pb][1] and T[pa][0] == T[pb][0]:
                    crossings["line steps that ended at a file boundary between equal line numbers"] += 1

    # ------------------------------------------------------------- single steps with visible instructions (implementation only)
    # "An assembly step executes exactly one instruction", "a line step stops at the first instruction of a different line", "leave_scope
    # stops right after the scope was left" - also when the instruction that runs raises a runtime error which a recovering scope
    # (except__) takes over.  The scripts consist of nular operators verif_m0__ .. verif_m9__ registered by the harness (each appends its
    # digit to a trace: ONE instruction with a visible effect) around failing instructions; after every action the harness reports
    # the trace and the instruction that runs next.  Judged by the clauses alone:
    #   p: the trace grows by exactly the digit of the instruction that was next if that was a marker, and not at all otherwise
    #   l: markers executed by a line step stand on the line it started on; it ends in front of another line; it ends where single
    #      steps first reach another line
    #   v: ends where single steps first have fewer scopes than at the request; every marker it executes was, in the single-step run,
    #      about to run at that depth or deeper
    STEP_SCRIPTS = [
        ("caught-direct", '{ verif_m0__; 1 + "a"; verif_m1__ } except__ { verif_m2__; verif_m3__ }; verif_m4__'),
        ("caught-first-handler-below", 'verif_m0__; { 1 + "a" } except__ {\nverif_m1__; verif_m2__\n}; verif_m3__'),
        ("caught-two-calls-down", 'verif_m0__; { verif_m1__; call { verif_m2__; call { [1] select 7; verif_m3__ }; verif_m4__ }; verif_m5__ } except__ { verif_m6__; verif_m7__ }; verif_m8__'),
        ("caught-in-handler-of-inner", '{ { 1 + "a" } except__ { verif_m0__; [] select 3; verif_m1__ } } except__ { verif_m2__; verif_m3__ }; verif_m4__'),
        ("caught-in-loop-body", '{ { verif_m0__; _x + "a"; verif_m1__ } forEach [1, 2] } except__ { verif_m2__; verif_m3__ }; verif_m4__'),
        ("caught-in-then-and-again", 'if (true) then { { verif_m0__; 1 + "a" } except__ { verif_m1__ } }; { 2 + "b" } except__ { verif_m2__; verif_m3__ }; verif_m4__'),
        ("caught-in-catch-block", '{ try { verif_m0__; throw 1; verif_m1__ } catch { verif_m2__; 1 + "a"; verif_m3__ } } except__ { verif_m4__; verif_m5__ }; verif_m6__'),
        ("caught-undefined-operand", '{ verif_m0__; private _u = nil; verif_m1__; [1, 2] select "x"; verif_m2__ } except__ { verif_m3__; verif_m4__ }; verif_m5__'),
        ("control-no-error", 'verif_m0__; call { verif_m1__; call { verif_m2__ }; verif_m3__ }; verif_m4__; if (true) then { verif_m5__ }; verif_m6__'),
        ("control-uncaught", 'verif_m0__; call { verif_m1__; 1 + "a"; verif_m2__ }; verif_m3__'),
    ]
    def layouts(text, r_):
        """the text as it is, with every statement on its own line, and with a random choice of line breaks"""
        out = [text, text.replace("; ", ";\n").replace("{ ", "{\n")]
        t = "".join((";\n" if r_.random() < 0.5 else "; ") if x == "; " else x for x in re.split("(; )", text))
        t = "".join(("{\n" if r_.random() < 0.4 else "{ ") if x == "{ " else x for x in re.split("({ )", t))
        out.append(t)
        return list(dict.fromkeys(out))
    step_found = {}
    def sreport(kind, what, rep):
        step_found.setdefault(kind, []).append((what, rep))
    step_cases = []
    if replay:
        r = json.load(open(replay))["replay"]
        if r.get("kind") == "steps":
            step_cases = [(r["script_name"], r["script"])]
    else:
        cdir = os.path.join(V.VERIF, "corpus", PID)
        if os.path.isdir(cdir):
            for fn in sorted(os.listdir(cdir)):
                r = json.load(open(os.path.join(cdir, fn)))
                if r.get("kind") == "steps":
                    step_cases.append((r["script_name"], r["script"]))
        for nm_, t_ in STEP_SCRIPTS:
            for i_, lt in enumerate(layouts(t_, run.rng)):
                step_cases.append(("%s/%d" % (nm_, i_), lt))
    def sobs(o):
        f = o.split(":")
        if len(f) != 8 or not f[0].lstrip("-").isdigit():
            return None
        return {"res": int(f[0]), "state": int(f[1]), "marks": "" if f[2] == "-" else f[2], "nframes": int(f[3]),
                "next": None if f[4] == "-" else V.unhx(f[4]).decode("latin-1"), "line": int(f[5]), "off": int(f[6]), "pos": f[7]}
    def same_place(a, b):
        return a is not None and b is not None and (a["marks"], a["nframes"], a["next"], a["off"], a["pos"]) == (b["marks"], b["nframes"], b["next"], b["off"], b["pos"])
    def scope_region(text, off):
        """the innermost { } block of the text that holds the offset, and the handler block behind it (except__ / catch), which runs in the same
        scope when the block fails; the whole text if no block holds the offset.  -> ((from, to), (from, to))"""
        stack, blocks = [], []
        for i, ch in enumerate(text):
            if ch == "{":
                stack.append(i)
            elif ch == "}" and stack:
                blocks.append((stack.pop(), i))
        inner = [(x, y) for x, y in blocks if x < off < y]
        if not inner:
            return (0, len(text)), (0, 0)
        x, y = max(inner, key=lambda b_: b_[0])
        m_ = re.match(r"\s*(except__|catch)\s*\{", text[y + 1:])
        if m_:
            hx_ = y + 1 + m_.end() - 1
            hy_ = next((b_[1] for b_ in blocks if b_[0] == hx_), hx_)
            return (x, y), (hx_, hy_)
        return (x, y), (0, 0)
    def marker_of(ins):
        m_ = re.match(r"^CALLNULAR verif_m(\d)__$", ins or "")
        return m_.group(1) if m_ else None
    step_stats = {"scripts x layouts": len(step_cases), "assembly steps judged": 0, "of them over an instruction whose error was taken over": 0,
                  "line steps judged": 0, "leave_scope judged": 0}
    rc, ptr, _ = V.run_lines_parallel([hctl, "steps"], ["%s\t%s" % (V.hx(t_), "p" * 140) for _, t_ in step_cases], timeout=3000)
    more, owner = [], []
    ptraces = {}
    for (nm_, t_), ln in zip(step_cases, ptr):
        tr = [sobs(o) for o in ln.split(";")]
        rep0 = {"kind": "steps", "script_name": nm_, "script": t_}
        if not tr or tr[0] is None:
            report("steps-machinery", "the harness could not step the script (machinery)", dict(rep0, impl=ln[:300], broken="h_ctl steps"), found=False)
            continue
        # the run as far as it is a run: up to the first step that does not return ok
        n = 0
        while n + 1 < len(tr) and tr[n + 1] is not None and tr[n + 1]["res"] == 0:
            n += 1
        ptraces[nm_] = (t_, tr, n)
        line_of_marker = {d: t_[:t_.index("verif_m%s__" % d)].count("\n") for d in "0123456789" if ("verif_m%s__" % d) in t_}
        base_line = tr[0]["line"] - t_[:tr[0]["off"]].count("\n") if tr[0]["next"] else 0
        for j in range(min(n + 1, len(tr) - 1)):
            a, b = tr[j], tr[j + 1]
            if b is None:
                sreport("steps-crash", "assembly_step no. %d did not return" % (j + 1), dict(rep0, actions="p" * (j + 1), impl=ln.split(";")[j + 1][:200]))
                break
            evaluations += 1
            step_stats["assembly steps judged"] += 1
            delta = b["marks"][len(a["marks"]):] if b["marks"].startswith(a["marks"]) else None
            want = None if a["next"] is None else (marker_of(a["next"]) or "")
            if delta is None or (want is not None and delta != want) or (want is None and len(delta) > 1):
                nontrivial.add(("steps", nm_, j))
                sreport("steps-p", "assembly_step no. %d does not execute exactly one instruction: the instruction to run was %s, the step executed the marker(s) %r%s"
                       % (j + 1, a["next"] or "<the end of a scope>", delta, " - the instruction raised a runtime error which a recovering scope took over, and the step went on into the handler"
                          if (b["nframes"] <= a["nframes"] and want == "" and delta) else ""),
                       dict(rep0, actions="p" * (j + 1), before=ln.split(";")[j], after=ln.split(";")[j + 1], instruction=a["next"], markers_executed=delta))
                break
        # which single steps ran an instruction whose error was taken over: the step produced an error record?  Not observable here;
        # counted by construction: steps after which fewer or equally many scopes exist and the position list was rewound
        for j in range(n):
            if tr[j]["next"] and re.match(r"^CALLBINARY (\+|select)$", tr[j]["next"]) and tr[j + 1]["res"] == 0 and tr[j + 1]["nframes"] <= tr[j]["nframes"] \
                    and tr[j + 1]["pos"].split(",")[0] == "0":
                step_stats["of them over an instruction whose error was taken over"] += 1
        # depth at which every marker is about to run in the single-step run
        depth_of = {}
        for j in range(n + 1):
            d = marker_of(tr[j]["next"])
            if d is not None:
                depth_of[d] = min(depth_of.get(d, 99), tr[j]["nframes"])
        for k in range(n + 1):
            if tr[k]["next"] is None or tr[k]["nframes"] == 0:
                continue
            for act in "lv":
                more.append("%s\t%s" % (V.hx(t_), "p" * k + act))
                owner.append((nm_, k, act, line_of_marker, base_line, depth_of))
    rc, mout, _ = V.run_lines_parallel([hctl, "steps"], more, timeout=3000)
    for (nm_, k, act, line_of_marker, base_line, depth_of), ln in zip(owner, mout):
        t_, tr, n = ptraces[nm_]
        rep0 = {"kind": "steps", "script_name": nm_, "script": t_, "actions": "p" * k + act}
        o = ln.split(";")
        a = sobs(o[k]) if len(o) > k else None
        b = sobs(o[k + 1]) if len(o) > k + 1 else None
        if a is None or not same_place(a, tr[k]):
            report("steps-machinery", "the same steps gave another state in a second process (machinery)", dict(rep0, impl=ln[:300], broken="h_ctl steps"), found=False)
            continue
        if b is None:
            sreport("steps-crash", "%s after %d assembly steps did not return" % ("line_step" if act == "l" else "leave_scope", k), dict(rep0, impl=ln[-200:]))
            continue
        evaluations += 1
        nontrivial.add(("steps", nm_, k, act))
        delta = b["marks"][len(a["marks"]):] if b["marks"].startswith(a["marks"]) else "?"
        if act == "l":
            step_stats["line steps judged"] += 1
            A = a["line"]
            foreign = [d for d in delta if d == "?" or line_of_marker.get(d, -1) + base_line != A]
            # where single steps first stand in front of another line (or the run ends / fails)
            j = next((j for j in range(k + 1, n + 1) if tr[j]["next"] is not None and tr[j]["line"] != A), None)
            if foreign:
                sreport("steps-l", "line_step issued after %d assembly steps, on line %d, executed instructions of another line: the marker(s) %s stand on line(s) %s"
                       % (k, A, ",".join(foreign), ",".join(str(line_of_marker.get(d, -1) + base_line) for d in foreign)),
                       dict(rep0, before=o[k], after=o[k + 1], start_line=A, markers_executed=delta))
            elif b["res"] == 0 and b["next"] is not None and b["line"] == A:
                sreport("steps-l", "line_step issued after %d assembly steps ends in front of an instruction of the line it started on (%d)" % (k, A),
                       dict(rep0, before=o[k], after=o[k + 1], start_line=A))
            elif j is not None and b["res"] == 0 and not same_place(b, tr[j]):
                sreport("steps-l", "line_step issued after %d assembly steps does not end where single steps first reach another line (after step %d)" % (k, j),
                       dict(rep0, before=o[k], after=o[k + 1], single_steps=ptr[[c[0] for c in step_cases].index(nm_)].split(";")[j]))
        else:
            step_stats["leave_scope judged"] += 1
            d0 = a["nframes"]
            lo, hi = scope_region(t_, a["off"])
            pos_ok = all(tr[j]["off"] == t_.index(tr[j]["next"].split(" ")[1]) for j in range(n + 1) if marker_of(tr[j]["next"]) is not None)
            outside = [d for d in delta if d == "?" or not any(x <= t_.index("verif_m%s__" % d) < y for x, y in (lo, hi))] if pos_ok else []
            j = next((j for j in range(k + 1, n + 1) if tr[j]["nframes"] < d0), None)
            if outside:
                sreport("steps-v", "leave_scope issued after %d assembly steps, %d scope(s) deep, in front of %s, does not stop right after that scope was left: it executed the marker(s) %s, "
                       "which stand outside the block %r (and the handler block that takes its place on a failure)"
                       % (k, d0, a["next"], ",".join(outside), t_[lo[0]:lo[1] + 1][:60]), dict(rep0, before=o[k], after=o[k + 1], markers_executed=delta))
            elif j is not None and b["res"] == 0 and not same_place(b, tr[j]):
                sreport("steps-v", "leave_scope issued after %d assembly steps does not end where single steps first have left the scope (after step %d)" % (k, j),
                       dict(rep0, before=o[k], after=o[k + 1], single_steps=ptr[[c[0] for c in step_cases].index(nm_)].split(";")[j]))
    # one finding per kind of action first (p, l, v), then a second one each from another script
    for rnd in range(2):
        for kind in ("steps-crash", "steps-p", "steps-l", "steps-v"):
            fs = step_found.get(kind, [])
            seen_scripts = set()
            pick = []
            for what, rep in fs:
                fam = rep["script_name"].split("/")[0]
                if fam not in seen_scripts:
                    seen_scripts.add(fam); pick.append((what, rep))
            if rnd < len(pick):
                what, rep = pick[rnd]
                run.violation(what + (" (%d case(s) of this kind in %d script(s))" % (len(fs), len(pick)) if rnd == 0 else ""), rep)
    dist["single steps with visible instructions (scripts x layouts)"] = len(step_cases)
    run.cov["visible_instruction_steps"] = step_stats


    # ------------------------------------------------------------- concurrent: executor parked inside an instruction
    marks = 8
    cscript = "; ".join(["verif_mark__", "verif_park__"] * 7 + ["verif_mark__"])
    ctl_seqs = list(ALPHABET) + [x + y for x in ALPHABET for y in ALPHABET]
    if not thorough:
        ctl_seqs = list(ALPHABET) + [x + y for x in "ta" for y in ALPHABET] + [x + y for x in "spvl" for y in "ta"]
    ccases = [(k, a) for k in range(7) for a in ctl_seqs] + [(k, "-") for k in (0, 6)]
    if replay:
        r = json.load(open(replay))["replay"]
        ccases = [(r["park"], r["actions"])] if r.get("kind") == "conc" else []
    cl = ["%s\t%d\t%s\tr" % (V.hx(cscript), k, a) for k, a in ccases]
    rc, cimpl, _ = V.run_lines_parallel([hctl, "conc"], cl, timeout=3000)
    rc, cview, _ = V.run_lines_parallel([drv, "ctl-view"], [a for _, a in ccases], timeout=600)
    for (k, a), io, mv in zip(ccases, cimpl, cview):
        evaluations += 1
        nontrivial.add(("conc", k, a))
        rep = {"kind": "conc", "park": k, "actions": a, "script": cscript, "impl": io, "model_controller_view": mv}
        f = io.split(";")
        if len(f) < 3 or f[0] != "P1" or not f[-2].startswith("R") or not f[-1].startswith("N"):
            run.violation("concurrent control: the executor did not reach the park point or the run did not come back", rep)
            continue
        ctl = f[1:-2]
        mexp = [x for x in mv.split(";") if x] if a != "-" else []
        if ctl != mexp:
            why = "controller actions issued while another thread executes returned %s, the state machine gives %s" % (ctl, mexp)
            run.violation(why, rep)
            continue
        accepted = any(x.startswith("0:") for x, c in zip(ctl, a) if c in "ta")
        R = f[-2][1:].split(":")
        res, st, before, after, nctx = [int(x) for x in R]
        if before != k + 1:
            run.violation("parked executor: unexpected number of instructions before the park point (machinery)", dict(rep, broken="harness conc mode"), found_input=False)
            continue
        if accepted:
            # theorem C19_stop_abort_bounded: at most one further instruction, scripts discarded, state empty
            if after > 1:
                run.violation("stop/abort was accepted but the executor ran %d more instructions" % after, rep)
            elif (res, st, nctx) != (0, 0, 0):
                run.violation("after an accepted stop/abort the run must end with ok, state empty and no script left", rep)
        else:
            if after != marks - before or (res, st, nctx) != (-1, 0, 0):
                run.violation("no stop/abort was accepted, yet the script did not run to its end", rep)
        if f[-1] != "N-1:0":
            run.violation("the runtime does not accept actions after a concurrent episode", rep)
    dist["concurrent: park points x controller sequences"] = len(ccases)

    # a free-running executor (no handshake with the harness): stop / abort land wherever they land
    rscript = 'for "_i" from 1 to 200000 do { verif_mark__ }'
    rl = ["%s\t%s" % (V.hx(rscript), a) for a in (["t", "a", "ta", "st", "pa", "la", "vt", "at"] if not replay else [])]
    if rl:
        rc, rimpl, _ = V.run_lines_parallel([hctl, "race"], rl, timeout=600)
        for line, io in zip(rl, rimpl):
            evaluations += 1
            acts = line.split("\t")[1]
            rep = {"kind": "race", "script": rscript, "actions": acts, "impl": io}
            f = io.split(";")
            if not f[-1].startswith("R") or len(f) != len(acts) + 1:
                run.violation("free-running executor: the run did not come back", rep); continue
            # once a stop/abort was accepted the executor is on its way out: what later actions see depends on timing
            k = min([i for i, c in enumerate(acts) if c in "ta"] + [len(acts)])
            want = ["0" if c in "ta" else "1" for c in acts[:k + 1]]
            res, st, after = [int(x) for x in f[-1][1:].split(":")]
            if f[:k + 1] != want or any(x not in ("0", "1") for x in f[k + 1:-1]):
                run.violation("controller actions beside a running executor returned %s, the state machine gives %s" % (f[:-1], want), rep)
            elif after > 1 or (res, st) != (0, 0):
                run.violation("after an accepted stop/abort the executor ran %d more instructions / ended with result %d state %d" % (after, res, st), rep)
        dist["concurrent: free-running executor"] = len(rl)

    # every script asleep (far into the future) while the controller acts: the executor spins over sleepers only
    sscripts = ["[] spawn { sleep 40 }; verif_mark__",
                "[] spawn { sleep 40 }; [] spawn { sleep 50; x = 1 }; [] spawn { sleep 45 }; verif_mark__",
                "[] spawn { sleep 30; [] spawn { sleep 30 } }; a = 1; verif_mark__"]
    sl = [(sc, a) for sc in sscripts for a in ("t", "a", "ta", "st", "pa", "lt", "va")] if not replay else []
    if replay:
        r = json.load(open(replay))["replay"]
        if r.get("kind") == "sleepers":
            sl = [(r["script"], r["actions"])]
    if sl:
        rc, simpl, _ = V.run_lines_parallel([hctl, "sleepers"], ["%s\t%s" % (V.hx(sc), a) for sc, a in sl], timeout=900)
        for (sc, acts), io in zip(sl, simpl):
            evaluations += 1
            nontrivial.add(("sleepers", sc, acts))
            rep = {"kind": "sleepers", "script": sc, "actions": acts, "impl": io,
                   "meaning": "results of the controller's actions; R<result of start>:<state>:<1 = start() returned>:<CPU ms the executing thread used after the actions>"}
            f = io.split(";")
            R = [x for x in f if x.startswith("R")]
            if not R:
                run.violation("all scripts asleep: the run did not reach the point where only sleeping scripts are left, or did not come back", rep); continue
            res, st, stopped, cpu = [int(x) for x in R[0][1:].split(":")]
            ctl = [x.split(":")[0] for x in f[:f.index(R[0])]]
            k = min([i for i, c in enumerate(acts) if c in "ta"] + [len(acts)])
            want = ["0" if c in "ta" else "1" for c in acts[:k + 1]]
            if ctl[:k + 1] != want or any(x not in ("0", "1") for x in ctl[k + 1:]):
                run.violation("controller actions beside an executor whose scripts all sleep returned %s, the state machine gives %s" % (ctl, want), rep)
            elif not stopped:
                run.violation("stop/abort was accepted (returned ok) while every script sleeps, but the executing thread kept spinning "
                              "(%d ms of its own CPU time, state %d): the request does not take effect until a sleeper wakes" % (cpu, st), rep)
            elif (res, st) != (0, 0) or f[-1] != "N-1:0":
                run.violation("after an accepted stop/abort over sleeping scripts the run must end with ok / state empty and accept actions again", rep)
        dist["concurrent: all scripts asleep"] = len(sl)

    if thorough and not replay:
        try:
            ht = V.build_harness("h_ctl", "tsan")
            env = dict(os.environ, TSAN_OPTIONS="halt_on_error=0 exitcode=0")
            rc, o, err = V.run_lines([ht, "race"], rl, timeout=1200, env=env)
            run.notes.append("tsan (supporting evidence only): %d data-race reports in %d concurrent cases (the model treats m_state / "
                             "m_is_exit_requested / m_is_halt_requested as sequentially consistent registers: they have to be atomic for that, "
                             "see proposed_fixes/C19-05)" % (err.count("WARNING: ThreadSanitizer: data race"), len(rl)))
        except V.BuildError as e:
            run.notes.append("tsan flavour did not build: " + str(e)[-200:])

    for key, n in seen_kinds.items():
        if n > 1:
            run.notes.append("%d further nodes with discrepancy %s in tree %s/%s" % (n - 1, key[0], key[1], key[2]))
    for p in problems:
        run.violation("proof obligation not discharged: " + p, {"broken": p, "theorems": run.cov["theorems"]}, found_input=False)
    run.cov["evaluations"] = evaluations
    run.cov["distinct_nontrivial"] = len(nontrivial)
    run.cov["rule"] = ("sequential: every action sequence of length <= 5 over {start, stop, abort, assembly_step, leave_scope, line_step} from the four "
                       "base states (nothing loaded / loaded / run to the end / failed with an error), each node in a forked child of its parent; shorter "
                       "trees over scripts with nested scopes, loops, a handled error; result, runtime_state(), number of contexts, active context, "
                       "operand count and frame positions after every action vs CtlDefs.execute_ctl (repaired) and vs the state-machine table; "
                       "scripts spread over several files by #include (consecutive instructions with equal line numbers in different files; the model's line is the pair (file, line)): "
                       "line_step / assembly_step trees of depth 7 plus full-alphabet trees; "
                       "concurrent, all scripts asleep: the main script has ended, every spawned script sleeps 30-50 s, stop / abort (alone and after refused actions) must end start() "
                       "at once - measured in CPU time of the executing thread, so a loaded machine cannot make it flake; "
                       "concurrent: an executor thread inside execute(start) parked in the k-th call of an operator registered by the harness, "
                       "controller sequences of length <= 2, results vs the model with state = running and the run flag set, instructions executed "
                       "after an accepted stop/abort vs theorem stop_abort_bounded; distinct = (base, script, observation) / (park point, actions)")
    run.cov["multi_file_line_steps"] = crossings
    run.cov["input_distribution"] = dist
    run.cov["samples"] = samples
    run.cov["trusted_base"] = ["Coq 8.16.1 kernel (vm_compute: certified reachability of the interleaving model, table checks)",
                               "ExtrOcamlBasic extraction + ocaml/api_driver.ml", "harness/h_ctl.cpp (fork per node, semaphore-parked executor)",
                               "translators/resultmap.py (regex over runtime.cpp)", "shared VM model VM/VmDefs.v, VM/VmExec.v (tied by C02-C05 correspondences)",
                               "plain fields are modelled as sequentially consistent registers: C++ data races are outside the model"]
    return run.finish()
