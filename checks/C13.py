"""C13 - preprocessor output equals the reference expansion; strings are inviolate."""
import json, os, re, sys
import vcommon as V
import ppgen

PID = "C13"

# error outcome of the reference -> error code the implementation logs (src/runtime/logging.h)
ERRCODE = {"ArgCount": 10001, "RecursiveMacro": 10014, "UnknownDirective": 10012, "Else": 10009, "Endif": 10010,
           "MissingEndif": 10011, "IncludeFailed": 10004, "RecursiveInclude": 10003}

# Probes that pin the silent cases S1..S17 of coq/PP/Spec.v (text, expected body of the output behind the
# first '#line' line). They are what "the implementation does today" was read from; a change of any of them
# shows up here with the silent case named.
PINS = [
    ("S1 CR dropped", "x\r\ny \"a\rb\"", "x\ny \"ab\""),
    ("S2 comment leaves no blank", "#define ab 7\na/**/b", "\n7"),
    ("S3 single quotes are text", "#define A 1\n'A'", "\n'1'"),
    ("S4 directive only at line start, case-insensitive", "#DEFINE A 1\nx #define B 2\nA B a # b", "\nx #define B 2\n1 B a # b"),
    ("S5 one newline per directive / inactive line", "#ifdef Q\nfoo\n#else\nbar\n#endif\nz", "\n\n\nbar\n\nz"),
    ("S6 define syntax", "#define F( X , Y ) X+Y\n#define G (x)\nF(1,2) G", "\n\n1+2 (x)"),
    ("S6 redefinition replaces", "#define A 1\n#define A 2\nA", "\n\n2"),
    ("S7 ifdef takes the rest of the line", "#define A 1\n#ifdef A x\nq\n#endif\nz", "\n\n\n\nz"),
    ("S9 function-like name without call", "#define F(X) X\nF F (1) F", "\nF F (1) F"),
    ("S10 argument blanks kept, empty argument", "#define F(X,Y) [X|Y]\nF( 1 , 2 ) F(,) F((a,b),[c,d])", "\n[ 1 | 2 ] [|] [(a,b)|[c,d]]"),
    ("S11 arguments expanded first, no rescan", "#define A 1\n#define CAT(X,Y) X##Y\n#define AB 5\n#define F(X) X+A\nF(A) CAT(A,B)", "\n\n\n\n1+1 1B"),
    ("S12 stringify without escaping", "#define S(X) #X\nS(a b) S(\"q\")", "\n\"a b\" \"\"q\"\""),
    ("S12 hash in front of a macro name", "#define A 1\n#define S #A A##A\nS", "\n\n\"1\" 11"),
    ("D3/S13 backslashes in a #define body stay as written", "#define P \"a\\\\b\" \\\\ c\nP", "\n\"a\\\\b\" \\\\ c"),
    ("S14 __LINE__ is the use site", "#define L __LINE__\n\nL __LINE__", "\n\n3 3"),
    ("S16 newlines inside arguments stay", "#define F(X) X\nF(\n1\n)\nz", "\n\n1\n\nz"),
    ("S17 strings recognised in inactive branches", "#ifdef Q\n\"#endif\"\n#endif\nz", "\n\n\nz"),
]


def enc_files(files):
    return ";".join(V.hx(n) + "=" + V.hx(c) for n, c in sorted(files.items()))


def body(out):
    """output text behind the '#line 0 "<main>"' that opens it"""
    i = out.find(b"\n")
    return out[i + 1:] if out.startswith(b"#line 0 ") and i >= 0 else out


def main(replay=None):
    run = V.Run(PID, "proof")
    rng = run.rng
    thorough = run.tier == "thorough"
    problems = run.prove()
    himpl = V.build_harness("h_pp", "asan" if thorough else "plain")
    drv0 = V.ocaml_driver("pp")
    # big stack for deep (non tail-recursive) extracted code; wall-clock cap so that one pathological
    # expansion cannot stall the run (lines a driver process did not answer count as 'model_overflow')
    drv = ["sh", "-c", "ulimit -s 2000000 2>/dev/null; exec timeout 600 %s" % drv0]
    drv1 = ["sh", "-c", "ulimit -s 2000000 2>/dev/null; exec timeout 20 %s" % drv0]

    cases = []   # dict(kind, main, files{name: bytes}, must_have, must_not, expect_body, features, pin)

    def add(kind, files, mainf="m.sqf", **kw):
        c = {"kind": kind, "main": mainf, "files": {k: (v.encode("latin-1") if isinstance(v, str) else v) for k, v in files.items()},
             "must_have": [], "must_not": [], "features": [], "expect_body": None, "pin": None}
        c.update(kw)
        cases.append(c)

    if replay:
        r = json.load(open(replay))["replay"]
        add(r.get("kind", "replay"), {k: V.unhx(v) for k, v in r["files_hex"].items()}, r["main"],
            must_have=r.get("must_have", []), must_not=r.get("must_not", []),
            expect_body=(V.unhx(r["expect_body_hex"]) if r.get("expect_body_hex") else None), pin=r.get("pin"))
    else:
        cdir = os.path.join(V.VERIF, "corpus", PID)
        if os.path.isdir(cdir):
            for fn in sorted(os.listdir(cdir)):
                r = json.load(open(os.path.join(cdir, fn)))
                add("corpus:" + fn, {k: V.unhx(v) for k, v in r["files_hex"].items()}, r["main"],
                    must_have=r.get("must_have", []), must_not=r.get("must_not", []))
        for name, text, exp in PINS:
            add("pin", {"m.sqf": text}, expect_body=exp.encode("latin-1"), pin=name)
        for t in ppgen.RECURSIVE:
            add("recursive", {"m.sqf": t})
        # #undef of a macro the text did not define itself (the runtime's predefined ones): afterwards the name is plain text and
        # #ifdef takes the other branch - also when the text had redefined it in between (implementation only: the reference
        # expander starts without predefined macros)
        for k, nm in enumerate(["_SQFVM", "__GAME_VER__", "__GAME_VER_MAJ__", "__GAME_BUILD__", "_SQFVM_RUNTIME_VERSION_MAJOR", "__A3_DEBUG__"]):
            for variant in range(3):
                pre = ["", "#define %s 5\n" % nm, "#ifdef %s\nBEFORE_%d\n#endif\n" % (nm, k)][variant]
                t = (pre + "#undef %s\n#ifdef %s\nPREDEF_YES_%d_\n#else\nPREDEF_NO_%d_\n#endif\n#ifndef %s\nPREDEF_NDEF_%d_\n#endif\ny%d = %s;\n"
                     % (nm, nm, k, k, nm, k, k, nm))
                add("predefined", {"m.sqf": t}, must_have=["PREDEF_NO_%d_" % k, "PREDEF_NDEF_%d_" % k, "y%d = %s;" % (k, nm)], must_not=["PREDEF_YES_%d_" % k])
        for i in range(5000 if thorough else 600):
            t = ppgen.passthrough_case(rng)
            add("passthrough", {"m.sqf": t}, expect_body=t.encode("latin-1"))
        for i in range(80000 if thorough else 8000):
            c = ppgen.c13_case(rng)
            add("grammar", c["files"], c["main"], must_have=c["must_have"], must_not=c["must_not"], features=c["features"])

    lines = ["PP\t%s\t%s" % (V.hx(c["main"]), enc_files(c["files"])) for c in cases]
    rc, impl, err = V.run_lines_parallel([himpl], lines, timeout=3000)
    # texts on which the implementation ran into the watchdog get their own, time-limited model process each:
    # an expansion that is simply huge is discarded (counted), a hang on a small expansion is a violation
    slow = [i for i, il in enumerate(impl) if il.startswith("TIMEOUT")]
    fast = [i for i in range(len(lines)) if i not in set(slow)]
    rc2, mfast, err2 = V.run_lines_parallel(drv, [lines[i] for i in fast], timeout=3000)
    model = [None] * len(lines)
    for i, m in zip(fast, mfast):
        model[i] = m
    if slow:
        from concurrent.futures import ThreadPoolExecutor
        def one(i):
            try:
                return V.run_lines(drv1, [lines[i]], timeout=60)[1]
            except Exception:
                return []
        with ThreadPoolExecutor(V.NPROC) as ex:
            for i, o in zip(slow, ex.map(one, slow)):
                model[i] = o[0] if o else "MODEL-TIMEOUT"

    # one VM, several texts: a text preprocessed after another one (the same, or a decoy that defines macros of common names) must
    # come out exactly as in a fresh VM - no definition, expansion or file content is remembered from one preprocess call to the next
    again = [i for i in range(len(cases)) if not impl[i].startswith(("TIMEOUT", "CRASH", "OOM")) and (i % 5 == 0 or cases[i]["kind"] in ("corpus", "recursive"))]
    relines = [("PP2" if k % 2 == 0 else "PPX") + lines[i][2:] for k, i in enumerate(again)]
    rc3, reimpl, err3 = V.run_lines_parallel([himpl], relines, timeout=3000)
    n_again = 0
    for i, rl, ri in zip(again, relines, reimpl):
        if "__COUNTER__" in "".join(v.decode("latin-1") for v in cases[i]["files"].values()):
            continue
        n_again += 1
        if ri != impl[i]:
            c = cases[i]
            run.violation("a text preprocessed after another text in the same VM (%s) comes out differently from the same text in a fresh VM" %
                          ("the same text" if rl.startswith("PP2") else "a text defining macros named FOO, T_, A, M1, e"),
                          {"kind": "again:" + rl[:3], "main": c["main"], "files_hex": {k: V.hx(v) for k, v in c["files"].items()},
                           "files_text": {k: v.decode("latin-1") for k, v in c["files"].items()}, "fresh": impl[i][:3000], "after": ri[:3000]})

    kinds, feats, samples, distinct = {}, {}, [], set()
    stats = {"model_error_outcomes": 0, "discarded_outside_grammar": 0, "newline_rule_as_is": 0, "model_overflow": 0, "expansion_too_large": 0}
    for c, il, ml in zip(cases, impl, model):
        k0 = c["kind"].split(":")[0]
        kinds[k0] = kinds.get(k0, 0) + 1
        for f in c["features"]:
            feats[f] = feats.get(f, 0) + 1
        rep = {"kind": c["kind"], "main": c["main"], "files_hex": {k: V.hx(v) for k, v in c["files"].items()},
               "files_text": {k: v.decode("latin-1") for k, v in c["files"].items()},
               "must_have": c["must_have"], "must_not": c["must_not"], "pin": c["pin"],
               "expect_body_hex": V.hx(c["expect_body"]) if c["expect_body"] is not None else None,
               "impl": il[:4000], "model": ml[:4000]}
        fi = il.split("\t")
        if fi[0] == "TIMEOUT" and ml == "MODEL-TIMEOUT":
            stats["expansion_too_large"] += 1
            continue
        if fi[0] in ("CRASH", "TIMEOUT", "OOM", "EXCEPTION", "EXIT", "HARNESS-LOST", "BADLINE"):
            what = "preprocessing this text ends in %s" % " ".join(fi[:2])
            if c["kind"] == "recursive":
                what = "a self- or mutually recursive macro is not reported as an error: " + what
            run.violation(what, rep)
            continue
        out = V.unhx(fi[1]) if fi[0] == "OK" else None
        # ---- 1. what the property itself prescribes
        bad = None
        if out is not None:
            text = out.decode("latin-1")
            if c["expect_body"] is not None and body(out) != c["expect_body"]:
                bad = ("text without directive, macro name or comment does not pass through byte for byte" if c["kind"] == "passthrough"
                       else "pinned case differs from the reference expansion (%s, see the SILENT CASES / NOT silent lists in coq/PP/Spec.v)" % c["pin"])
            for s in c["must_have"]:
                if bad is None and not ppgen.present(s, text):
                    bad = ("a string literal of an active region is altered or missing" if s.startswith('"')
                           else "an identifier that merely contains a macro name was changed") + ": " + s
            for s in c["must_not"]:
                if bad is None and ppgen.present(s, text):
                    bad = "text of an inactive branch (or the effect of a directive in it) reaches the output: " + s
        elif c["expect_body"] is not None:
            bad = "preprocessing fails on a text it must pass through: " + il[:200]
        elif c["kind"] == "predefined":
            bad = "preprocessing fails on a text that only undefines a predefined macro and tests it: " + il[:200]
        if bad:
            run.violation(bad, rep)
            continue
        # ---- 2. the reference expander
        if c["kind"] == "predefined":
            continue
        if not ml.startswith("R="):
            stats["model_overflow"] += 1
            continue
        fm = dict(p.split("=", 1) for p in ml.split("\t"))
        r, a = fm["R"].split(":"), fm["A"].split(":")
        if r[0] == "ERR":
            stats["model_error_outcomes"] += 1
            if r[1] in ("Unbalanced", "OutOfFuel"):
                stats["discarded_outside_grammar"] += 1
                continue
            if fi[0] != "FAIL":
                run.violation("the reference expander reports %s, the implementation produces output" % r[1], rep)
                continue
            codes = [int(x.split(":")[1]) for x in fi[1].split(",") if x != "-" and x.split(":")[0] in ("0", "1")]
            if ERRCODE.get(r[1]) not in codes:
                rep["broken"] = "correspondence of error outcomes (reference %s, implementation codes %s)" % (r[1], codes)
                run.violation("implementation fails with a different diagnostic than the reference's error outcome", rep, found_input=False)
            continue
        if fi[0] != "OK":
            run.violation("preprocessing fails (%s) where the reference expander produces output" % fi[1], rep)
            continue
        nontrivial = len(c["features"]) > 0 or c["kind"] in ("pin", "passthrough")
        distinct.add((hash(tuple(sorted(c["files"].items()))), nontrivial))
        if len(samples) < 6 and k0 not in [s["kind"] for s in samples]:
            samples.append({"kind": k0, "text": c["files"][c["main"]].decode("latin-1")[:300], "output": out.decode("latin-1")[:300]})
        if fi[1] == r[1]:
            continue
        if fi[1] == a[1]:
            # the text of the property is silent about how many newlines answer a directive that spans
            # several lines; that is C14's defect switch. Either rule is the reference expansion for C13.
            stats["newline_rule_as_is"] += 1
            continue
        rep["reference_output"] = V.unhx(r[1]).decode("latin-1")[:4000]
        rep["impl_output"] = out.decode("latin-1")[:4000]
        run.violation("output differs from the reference expansion", rep)
    for p in problems:
        run.violation("proof obligation not discharged: " + p, {"broken": p, "theorems": run.cov["theorems"]}, found_input=False)
    run.cov["evaluations"] = len(cases)
    run.cov["distinct_nontrivial"] = len([d for d in distinct if d[1]])
    run.cov["rule"] = ("texts from the grammar of checks/ppgen.py (directives incl. nested conditionals and includes through a mapped "
                       "temp tree, object-/function-like macros, nested calls, empty arguments, brackets/strings/comments in arguments, "
                       "#/##, macro names inside identifiers, comments and continuations everywhere), a passthrough stream, the pinned "
                       "silent cases and a small recursive-macro stream; compared byte for byte (including '#line' texts) with the extracted "
                       "reference expander; the number of newlines answering a continued line is C14's business (either rule accepted); "
                       "non-trivial = the reference produces output and the case uses at least one grammar feature; distinct by file contents")
    run.cov["preprocessed_again_in_a_used_vm"] = n_again
    run.cov["input_distribution"] = kinds
    run.cov["grammar_features"] = feats
    run.cov["samples"] = samples
    run.cov["outcomes"] = stats
    run.cov["trusted_base"] = ["Coq 8.16.1 kernel (vm_compute in Examples only)", "ExtrOcamlBasic extraction + ocaml/pp_driver.ml",
                               "harness/h_pp.cpp + fork/rlimit plumbing, fileio mapping of the temp tree", "generator and oracles in checks/ppgen.py",
                               "PARTIAL BY CONSTRUCTION: coq/PP/Spec.v is the reference (the specification); no theorem is about a model of "
                               "default.cpp itself, the implementation is tied to the reference only by this differential run"]
    return run.finish()
