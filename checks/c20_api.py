"""C20, family K: histories of C API calls on several instances of one process (harness/h_c20api.cpp).

The property: nothing one instance executes changes the results of another instance.  At the level of the C API (src/export/sqfvm.h)
the result of an instance is what its calls return and what is delivered to its log callback (user_data, call_data, severity, text).
A history is a tree of API calls: an op on one instance may carry groups of ops on OTHER instances that are issued while it is in
progress - from its log callback, at its k-th record, on the same thread or on a thread started and joined there.  Oracle (from the
property text, implementation against implementation): the projection of the history on an instance - its ops in the order they were
executed, as a flat history in a process of its own - must give that instance the same transcript.  No op ever addresses an instance
that is itself inside a call (re-entrancy on ONE instance is not this property's subject)."""
import re
import vcommon as V

TICK_NS = 1000


def hx(s):
    return V.hx(s.encode("latin-1"))


# ---------------------------------------------------------------- ops and histories
def C(i, oset="f"):
    return {"op": "C", "i": i, "set": oset}


def K(i, ty, text, cd=7):
    return {"op": "K", "i": i, "calldata": cd, "type": ty, "text": text}


def L(i, text):
    return {"op": "L", "i": i, "text": text}


def S(i):
    return {"op": "S", "i": i}


def D(i):
    return {"op": "D", "i": i}


def with_nest(op, groups):
    """op with nested groups [(k, on_a_thread, [ops])]"""
    o = dict(op)
    o["nest"] = [{"k": k, "thread": bool(t), "ops": ops} for k, t, ops in sorted(groups, key=lambda g: g[0])]
    return o


def ser_op(o):
    k = o["op"]
    if k == "C":
        s = "C%d:%s:0" % (o["i"], o["set"])
    elif k in "SD":
        s = "%s%d" % (k, o["i"])
    elif k == "L":
        s = "L%d:%s" % (o["i"], hx(o["text"]))
    else:
        s = "K%d:%d:%s:%s" % (o["i"], o["calldata"], hx(o["type"]), hx(o["text"]))
    for g in o.get("nest", []):
        s += "{%d%s %s}" % (g["k"], "t" if g["thread"] else "s", serialize(g["ops"]))
    return s


def serialize(ops):
    return " ".join(ser_op(o) for o in ops)


def line_of(ops):
    return "%d\t%s" % (TICK_NS, serialize(ops))


def projection(ops, acc=None):
    """instance -> its ops (without what is nested in them) in the order of execution"""
    acc = {} if acc is None else acc
    for o in ops:
        flat = {k: v for k, v in o.items() if k != "nest"}
        acc.setdefault(o["i"], []).append(flat)
        for g in o.get("nest", []):
            projection(g["ops"], acc)
    return acc


def validate(ops, busy=()):
    """the generator's invariant: no op addresses an instance that is inside a call; group positions of an op are distinct"""
    for o in ops:
        if o["i"] in busy:
            raise ValueError("history addresses the busy instance %d: %s" % (o["i"], ser_op(o)))
        ks = [g["k"] for g in o.get("nest", [])]
        if len(ks) != len(set(ks)):
            raise ValueError("two groups at one record: " + ser_op(o))
        for g in o.get("nest", []):
            validate(g["ops"], busy + (o["i"],))


def groups_of(ops):
    return sum(len(o.get("nest", [])) + sum(groups_of(g["ops"]) for g in o.get("nest", [])) for o in ops)


def parse_out(line):
    """harness line -> ({'I0': transcript, ...}, executed groups, armed groups) or None for CRASH / TIMEOUT / ..."""
    f = line.split("\t")
    if not f or not f[-1].startswith("nested="):
        return None
    d = {}
    for x in f[:-1]:
        if "=" not in x:
            return None
        a, b = x.split("=", 1)
        d[a] = b
    a, b = f[-1][7:].split("/")
    return d, int(a), int(b)


def results_of(transcript):
    """[(op letter + return value, [records])]"""
    out = []
    for r in transcript.split("|"):
        m = re.match(r"^([A-Za-z]+-?\d*)\{(.*)\}$", r, re.S)
        out.append((m.group(1), [x for x in m.group(2).split(",") if x]) if m else (r, []))
    return out


def phase_of(op, record):
    """where the call is when it delivers this record (coverage statistics only)"""
    if op["op"] == "L":
        return "sqfvm_load_config: " + ("parsing the config" if "Parse Error" in record else "preprocessing")
    sev = record.split(":")[1] if record.count(":") >= 2 else "?"
    if sev == "-1":
        return "sqfvm_call: the RESULT record of a preprocess-only call"
    if "Context dropped" in record:
        return "sqfvm_call: executing (value of a finished script)"
    if re.search(r"\[(DIAG_LOG|HINT|SYSTEM-CHAT)\]", record):
        return "sqfvm_call: executing (script output)"
    if re.search(r"Macro '|pragma|PreProcessor|Lookup|Arg Count", record):
        return "sqfvm_call: preprocessing"
    if "Parse Error" in record and "[L0 " not in record:
        return "sqfvm_call: parsing"
    return "sqfvm_call: executing (warning / error / stack trace)"


# ---------------------------------------------------------------- the pool of single API calls and of per-instance scripts
PP_TWICE = "#define LIMIT 1\n#define LIMIT 2\n"
# (type, text): every way a call can end (0, -2, -3, -5, -6) and every phase in which it can deliver records
CALLS_ANY = [          # usable with every operator set that has the generic / diag / math / string / config operators (full, basic)
    ("s", 'diag_log "tick"; diag_log "tock"; 7'),
    ("s", PP_TWICE + "diag_log LIMIT"),
    ("s", '#include "no_such_file.hpp"\ndiag_log 1'),
    ("s", "#if 1\ndiag_log 1"),
    ("s", "#define F(A,B) A\ndiag_log F(1)"),
    ("s", "#pragma verif\ndiag_log 2"),
    ("s", "#undef NOPE\n#ifdef NOPE\n#else\ndiag_log 3\n#endif"),
    ("s", "diag_log [1, 2"),
    ("s", PP_TWICE + "diag_log [LIMIT, "),
    ("s", 'diag_log ([1,2] select 5); diag_log "after"'),
    ("s", 'diag_log "before"; 1 + "a"; diag_log "after"'),
    ("s", 's = [] spawn { diag_log "in" }; diag_log "out"; 1'),
    ("s", 'diag_log "t"; throw "boom"'),
    ("s", 'try { diag_log "t"; throw "boom" } catch { diag_log _exception }; 2'),
    ("s", 'assert false; diag_log "a"'),
    ("s", "g = 5; diag_log str g"),
    ("s", 'diag_log str (isNil "g")'),
    ("s", 'call compile "diag_log 1 +"; diag_log "z"'),
    ("s", 'diag_log str (getNumber (configFile >> "VerifK" >> "x"))'),
    ("s", 'for "_i" from 1 to 6 do { diag_log _i }'),
    ("s", 'diag_log _undefined_var; diag_log "u"'),
    ("s", ""),
    ("s", "1 +"),
    ("s", '"abc" select [9, 2]'),
    ("s", 'format ["%1-%5", 1]'),
    ("s", 'private _m = createHashMapFromArray [["k", 1], [2, "v"]]; diag_log str _m; diag_log str ([3, 1, 2] apply { _x * 2 })'),
    ("p", "#define A 3\nA A"),
    ("p", "#define X 1\n#define X 2\nX"),
    ("p", '#include "nope.h"\n1'),
    ("a", "push 1 push true"),
    ("a", "push {"),
    ("1", "diag_log 1"),
    ("1", "diag_log ["),
    ("x", "diag_log 1"),
    ("x", "#define X 1\n#define X 2\nX"),
    ("\0", "1"),
]
CALLS_FULL = [         # need the operator sets only a full instance has
    ("s", 'systemChat "x"; hint "h"; diag_log str [1,"a"]'),
    ("s", 'private _o = "Verif" createVehicle [0,0,0]; diag_log str (count allUnits)'),
    ("s", 'diag_log str [west, civilian, objNull, grpNull]; diag_log str (side objNull)'),
]
CALLS_EMPTY = [        # an instance without any operator: assignment and literals only
    ("s", "x = 1; x"),
    ("s", PP_TWICE + "y = LIMIT; y"),
    ("s", "diag_log 1"),
    ("p", "#define X 1\n#define X 2\nX"),
    ("x", "1"),
]
CONFIGS = [
    "class VerifK { x = 3; arr[] = {1,2}; };",
    "#define X 1\n#define X 2\nclass VerifK { x = X; };",
    "class {",
    '#include "nope.h"\nclass A {};',
    "#define X 1\n#define X 2\nclass VerifK { x = X; ",
    "",
]
# scripts of several ops whose later ops read what the earlier ones left in THEIR instance
SCRIPTS_ANY = [
    [("K", "s", "g = 5; 1"), ("K", "s", 'diag_log str [g, isNil "g"]')],
    [("L", "class VerifK { x = 3; arr[] = {1,2}; };"), ("K", "s", 'diag_log str [getNumber (configFile >> "VerifK" >> "x"), getArray (configFile >> "VerifK" >> "arr")]')],
    [("K", "s", "#define KEPT 4\ndiag_log KEPT"), ("K", "s", "#ifdef KEPT\ndiag_log 1\n#else\ndiag_log 0\n#endif")],
    [("K", "s", "diag_log [1, 2"), ("K", "s", 'diag_log "after a refused text"'), ("S",)],
    [("K", "s", '1 + "a"'), ("S",), ("K", "s", 'diag_log "after an error"; 3')],
    [("K", "s", 'h = [] spawn { diag_log "later" }; 0'), ("K", "s", "diag_log str (scriptDone h)")],
    [("S",), ("K", "p", "A B"), ("S",)],
]


def op_of(spec, i, cd):
    if spec[0] == "K":
        return K(i, spec[1], spec[2], cd)
    if spec[0] == "L":
        return L(i, spec[1])
    return S(i)


def pool():
    """(singles, scripts): singles = [(set, spec)], scripts = [(set, [spec, ...])]; a spec is ('K', type, text) | ('L', text) | ('S',)"""
    singles, scripts = [], []
    for ty, t in CALLS_ANY + CALLS_FULL:
        singles.append(("f", ("K", ty, t)))
    for t in CONFIGS:
        singles.append(("f", ("L", t)))
    for ty, t in CALLS_ANY[::3]:
        singles.append(("b", ("K", ty, t)))
    for t in CONFIGS[:3]:
        singles.append(("b", ("L", t)))
    for ty, t in CALLS_EMPTY:
        singles.append(("e", ("K", ty, t)))
    singles.append(("e", ("L", CONFIGS[1])))
    for sc in SCRIPTS_ANY:
        scripts.append(("f", sc))
    for sc in SCRIPTS_ANY[:3]:
        scripts.append(("b", sc))
    scripts += [(s, [spec]) for s, spec in singles]
    return singles, scripts


def positions(n, every):
    """record positions of an op with n records at which another instance is entered"""
    if n <= 0:
        return []
    if every or n <= 4:
        return list(range(n))
    return sorted({0, 1, n // 2, n - 1})


def histories(rng, counts, thorough):
    """[(shape, ops)] - counts: (set, spec) -> number of records the op delivers when it is the only op of a fresh instance"""
    singles, scripts = pool()
    out = []

    def inner(i, oset, specs, create=True, destroy=False, first_cd=9):
        ops = ([C(i, oset)] if create else []) + [op_of(sp, i, first_cd + 2 * j) for j, sp in enumerate(specs)]
        return ops + ([D(i)] if destroy else [])

    outers = [(s, sp, counts.get((s, sp), 0)) for s, sp in singles]
    rot = 0
    for so, spo, n in outers:
        O = op_of(spo, 0, 7)
        ks = positions(n, thorough)
        for si, specs in scripts:
            rot += 1
            # one after the other, in both orders (no nesting: the baseline every instance must also meet)
            if thorough or rng.random() < 0.2:
                if rng.random() < 0.5:
                    out.append(("one after the other", [C(0, so), C(1, si), O] + inner(1, si, specs, create=False) + [S(0), S(1)]))
                else:
                    out.append(("one after the other", [C(0, so), C(1, si)] + inner(1, si, specs, create=False) + [O, S(1), S(0)]))
            # quick tier: one record position per (call, script), rotating - every position of every call still meets many scripts
            for k in (ks if thorough or not ks else [ks[rot % len(ks)]]):
                # the other instance is entered from the callback, on the same thread
                out.append(("from the callback, same thread", [C(0, so), C(1, si), with_nest(O, [(k, False, inner(1, si, specs, create=False))]), S(0), S(1)]))
                # ... on a thread started and joined inside the callback
                if thorough or rng.random() < 0.25:
                    out.append(("from the callback, other thread", [C(0, so), C(1, si), with_nest(O, [(k, True, inner(1, si, specs, create=False))]), S(1), S(0)]))
                # ... created, used and destroyed inside the callback
                if thorough or rng.random() < 0.12:
                    out.append(("created, used and destroyed inside the callback", [C(0, so), with_nest(O, [(k, rng.random() < 0.4, inner(1, si, specs, destroy=True))]), S(0)]))
                # ... the script of the other instance split around / inside the call
                if len(specs) > 1 and (thorough or rng.random() < 0.5):
                    a, b = inner(1, si, specs[:1], create=False), inner(1, si, specs[1:], create=False, first_cd=11)
                    out.append(("script split: before the call / inside the callback", [C(0, so), C(1, si)] + a + [with_nest(O, [(k, False, b)]), S(1)]))
                    out.append(("script split: inside the callback / after the call", [C(1, si), C(0, so), with_nest(O, [(k, rng.random() < 0.4, a)])] + b + [S(1)]))
                    if n >= 2 and k + 1 < n:
                        out.append(("script split over two records of the call", [C(0, so), C(1, si), with_nest(O, [(k, False, a), (k + 1, rng.random() < 0.4, b)]), S(0), S(1)]))
    # three instances, two levels: the instance entered from the callback delivers records of its own, at which a third one is entered
    withrec = [(s, sp, n) for s, sp, n in outers if n >= 1]
    for _ in range(1500 if thorough else 260):
        (s0, sp0, n0), (s1, sp1, n1) = rng.choice(withrec), rng.choice(withrec)
        s2, specs2 = rng.choice(scripts)
        k0, k1 = rng.randrange(n0), rng.randrange(n1)
        t0, t1 = rng.random() < 0.3, rng.random() < 0.3
        third = inner(2, s2, specs2, create=rng.random() < 0.5, destroy=False, first_cd=21)
        pre = [C(0, s0), C(1, s1)] + ([] if third[0]["op"] == "C" else [C(2, s2)])
        mid = with_nest(op_of(sp1, 1, 13), [(k1, t1, third)])
        tail = [S(2), S(1), S(0)]
        if rng.random() < 0.5:
            tail.insert(0, op_of(rng.choice(scripts)[1][0], 1, 15))
        out.append(("three instances, two levels", pre + [with_nest(op_of(sp0, 0, 7), [(k0, t0, [mid])])] + tail))
        # both other instances at two records of one call
        if n0 >= 2:
            ka, kb = sorted(rng.sample(range(n0), 2))
            out.append(("two instances at two records of one call", [C(0, s0), C(1, s1), C(2, s2)] + [with_nest(op_of(sp0, 0, 7), [
                (ka, t0, [op_of(sp1, 1, 13)]), (kb, t1, inner(2, s2, specs2, create=False, first_cd=21))])] + [S(0), S(1), S(2)]))
    for _, ops in out:
        validate(ops)
    return out


def discovery_lines():
    singles, _ = pool()
    return [((s, sp), line_of([C(0, s), op_of(sp, 0, 7)])) for s, sp in singles]


def mismatch(got, proj, exp):
    """None when every instance of the history shows the transcript of its projection run alone; "unusable" when a projection alone gave no
    transcript; ("crash",) when the history gave none; else (instance, index of the first op that differs, (ret, records) alone, (ret, records) here)"""
    wants = {}
    for i in proj:
        po = parse_out(exp[i])
        if po is None or ("I%d" % i) not in po[0]:
            return "unusable"
        wants[i] = po[0]["I%d" % i]
    po = parse_out(got)
    if po is None:
        return ("crash",)
    d = po[0]
    for i in sorted(proj):
        have = d.get("I%d" % i)
        if have != wants[i]:
            rw, rh = results_of(wants[i]), results_of(have or "")
            at = next((j for j in range(min(len(rw), len(rh))) if rw[j] != rh[j]), min(len(rw), len(rh)))
            return (i, at, rw[at] if at < len(rw) else ("<nothing more>", []), rh[at] if at < len(rh) else ("<nothing more>", []))
    if "I?" in d:
        return (-1, 0, ("<no record>", []), ("<records>", d["I?"].split(",")))
    return None
