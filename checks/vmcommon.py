"""Shared by the VM-model properties (C02..C05, C11, C12, C19): program generator over the
modelled SQF fragment, and the three-way run (model via the extracted OCaml driver,
implementation via harness/h_vm) with comparison of instruction listing, per-assembly_step
trace and final observation."""
import os, sys
import vcommon as V

sys.path.insert(0, os.path.join(V.VERIF, "translators"))
import diag as diag_translator
import overloads as overloads_translator

DEFECTS_AS_IS = []   # names of defect switches that describe the code as it stands (see known_findings.txt)


def hexs(s):
    return V.hx(s.encode("latin-1"))


# ---------------------------------------------------------------- AST helpers (token format of ocaml/vm_driver.ml)
def N(n): return "N %d" % n
def B(b): return "T" if b else "F"
def S(s): return "S %s" % hexs(s)
def Var(n): return "V %s" % n
def Arr(*es): return "A %d %s" % (len(es), " ".join(es))
def Code(*ss): return "C %d %s" % (len(ss), " ".join(ss))
def Nul(n): return "0 %s" % n
def Un(n, e): return "1 %s %s" % (n, e)
def Bin(n, l, r): return "2 %s %s %s" % (n, l, r)
def E(e): return "E %s" % e
def Asg(n, e): return "= %s %s" % (n, e)
def Loc(n, e): return "L %s %s" % (n, e)
def Prog(*ss): return "%d %s" % (len(ss), " ".join(ss))


class Gen:
    """Random programs over the modelled fragment. Every statement list is a list of stmt tokens."""

    def __init__(self, rng, features=None):
        self.rng = rng
        self.mark_id = 0
        self.locals = ["_a", "_b", "_c"]
        self.globals = ["ga", "gb", "Gc"]
        self.f = features or {}

    def idx_mark(self):
        """sometimes: a marker that reads _forEachIndex - inside count / select / apply / findIf it is the index of the enclosing forEach
        (these loops bind _x only), outside any forEach it is undefined"""
        return [self.mark(Arr(S("idx"), Var("_forEachIndex")))] if self.rng.random() < 0.4 else []

    def mark(self, what=None):
        self.mark_id += 1
        return E(Un("diag_log", what if what is not None else N(self.mark_id)))

    def num(self, depth):
        r = self.rng
        k = r.random()
        if depth <= 0 or k < 0.4:
            return N(r.choice([0, 1, 2, 3, 5, 7, -1, -4]))
        if k < 0.55:
            return Var(r.choice(self.locals))   # may be undefined -> warning + nil: rare on purpose
        if k < 0.8:
            return Bin(r.choice(["+", "-", "*"]), self.num(depth - 1), self.num(depth - 1))
        if k < 0.9:
            return Un("count", self.arr(depth - 1))
        return Bin("call", N(r.randint(0, 3)), Code(E(Bin("+", Var("_this"), N(1)))))

    def boolean(self, depth):
        r = self.rng
        k = r.random()
        if depth <= 0 or k < 0.3:
            return B(r.random() < 0.5)
        if k < 0.7:
            return Bin(r.choice(["<", ">", "<=", ">=", "=="]), self.num(depth - 1), self.num(depth - 1))
        if k < 0.8:
            return Un("!", self.boolean(depth - 1))
        if k < 0.9:
            return Bin(r.choice(["&&", "||"]), self.boolean(depth - 1), self.boolean(depth - 1))
        return Bin(r.choice(["&&", "||"]), self.boolean(depth - 1), Code(self.mark(), E(self.boolean(depth - 1))))

    def arr(self, depth):
        r = self.rng
        n = r.choice([0, 1, 2, 3, 4])
        return Arr(*[N(r.randint(-3, 9)) for _ in range(n)])

    def value_expr(self, depth):
        r = self.rng
        k = r.random()
        if k < 0.5:
            return self.num(depth)
        if k < 0.65:
            return self.boolean(depth)
        if k < 0.75:
            return S(r.choice(["a", "b c", 'q"uote', ""]))
        if k < 0.85:
            return self.arr(depth)
        return self.construct_value(depth)

    def block(self, depth, maxlen=3, value=True):
        r = self.rng
        ss = [self.stmt(depth) for _ in range(r.randint(0, maxlen))]
        if value and r.random() < 0.7:
            ss.append(E(self.value_expr(min(depth, 1))))
        return Code(*ss)

    def construct_value(self, depth):
        """an expression built from a control structure that yields a value"""
        r = self.rng
        d = depth - 1
        k = r.randint(0, 9)
        if depth <= 0:
            return self.num(0)
        if k == 0:
            return Bin("then", Un("if", self.boolean(d)), Bin("else", self.block(d), self.block(d)))
        if k == 1:
            return Bin("then", Un("if", self.boolean(d)), self.block(d))
        if k == 2:
            return Un("call", self.block(d))
        if k == 3:
            return Bin("count", Code(self.mark(Var("_x")), *self.idx_mark(), E(Bin(">", Var("_x"), N(r.randint(0, 4))))), self.arr(d))
        if k == 4:
            return Bin("select", self.arr(d), Code(*self.idx_mark(), E(Bin("<", Var("_x"), N(r.randint(0, 6))))))
        if k == 5:
            return Bin("apply", self.arr(d), Code(*self.idx_mark(), E(Bin("*", Var("_x"), N(2)))))
        if k == 6:
            return Bin("findIf", self.arr(d), Code(*self.idx_mark(), E(Bin("==", Var("_x"), N(r.randint(0, 5))))))
        if k == 7:
            return Bin("do", Un("switch", self.num(0)), Code(
                E(Bin(":", Un("case", N(1)), self.block(d))),
                E(Un("case", N(2))),
                E(Bin(":", Un("case", N(3)), self.block(d))),
                E(Un("default", self.block(d)))))
        if k == 8:
            return Bin("catch", Un("try", Code(self.mark(), E(Un("throw", self.num(0))), self.mark())), Code(E(Var("_exception"))))
        return Bin("select", self.arr(d), N(r.randint(0, 2)))

    def stmt(self, depth):
        r = self.rng
        d = depth - 1
        k = r.randint(0, 17)
        if depth <= 0 or k <= 2:
            return self.mark(self.rng.choice([None, None, Var(r.choice(self.locals)), Var(r.choice(self.globals))]))
        if k == 3:
            return Asg(r.choice(self.locals), self.value_expr(d))
        if k == 4:
            return Asg(r.choice(self.globals + ["GA", "gB"]), self.value_expr(d))
        if k == 5:
            return Loc(r.choice(self.locals), self.value_expr(d))
        if k == 6:
            return E(Bin("then", Un("if", self.boolean(d)), self.block(d, value=False)))
        if k == 7:
            return E(Bin("forEach", self.block(d, value=False), self.arr(d)))
        if k == 8:
            v = r.choice(["_i", "_k"])
            return E(Bin("do", Bin("to", Bin("from", Un("for", S(v)), N(r.randint(0, 2))), N(r.randint(0, 4))),
                         Code(self.mark(Var(v)), *[self.stmt(d) for _ in range(r.randint(0, 1))])))
        if k == 9:
            v = r.choice(self.locals)
            return E(Bin("do", Un("while", Code(E(Bin("<", Var(v), N(r.randint(1, 3)))))),
                         Code(Asg(v, Bin("+", Var(v), N(1))), self.mark(Var(v)))))
        if k == 10:
            return E(Bin("exitWith", Un("if", self.boolean(d)), self.block(d)))
        if k == 11:
            return E(Un("call", self.block(d)))
        if k == 12:
            return Asg(r.choice(self.locals), self.construct_value(d))
        if k == 13:
            return E(Un("private", S(r.choice(self.locals))))
        if k == 14:
            return E(Un("call", Code(E(Un("scopeName", S("s1"))), self.mark(),
                                     E(Un("call", Code(self.mark(), E(Bin("breakOut", self.num(0), S("s1"))), self.mark()))),
                                     self.mark())))
        if k == 15:
            return E(Bin("except__", Code(self.mark(), E(Bin("select", self.arr(0), N(7))), self.mark()),
                         Code(self.mark(S("handler")))))
        if k == 16:
            return E(Bin("do", Un("with", Nul(r.choice(["uiNamespace", "missionNamespace"]))),
                         Code(Asg(r.choice(self.globals), self.num(0)), self.mark(Var(r.choice(self.globals))))))
        if k == 17 and r.random() < 0.5:
            return self.faulty_stmt(d)
        return E(self.construct_value(d))

    def faulty_stmt(self, d):
        """statements that raise runtime errors at the interesting places (C04)"""
        r = self.rng
        k = r.randint(0, 7)
        err = E(Bin("select", self.arr(0), N(9)))
        if k == 0:   # error raised by an iteration behaviour
            return E(Bin("count", Code(self.mark(), E(N(5))), Arr(N(1), N(2))))
        if k == 1:   # error inside a try block: try-catch does not handle runtime errors
            return E(Bin("catch", Un("try", Code(self.mark(), err, self.mark())), Code(self.mark(S("catch")))))
        if k == 2:   # second error inside an except__ handler
            return E(Bin("except__", Code(self.mark(), err, self.mark()), Code(self.mark(S("h1")), err, self.mark(S("h2")))))
        if k == 3:   # throw inside catch propagates outwards
            return E(Bin("catch", Un("try", Code(E(Bin("catch", Un("try", Code(E(Un("throw", N(1))))), Code(self.mark(), E(Un("throw", N(2)))))))),
                         Code(self.mark(Var("_exception")))))
        if k == 4:   # nested handlers: inner try declines, outer except__ takes it
            return E(Bin("except__", Code(E(Bin("catch", Un("try", Code(self.mark(), err, self.mark())), Code(self.mark(S("c"))))), self.mark()),
                         Code(self.mark(S("outer")))))
        if k == 5:   # while with a non-boolean condition
            return E(Bin("do", Un("while", Code(E(S("x")))), Code(self.mark())))
        if k == 6:   # error in a select/apply/findIf result
            return E(Bin(r.choice(["select", "findIf"]), self.arr(0) if r.random() < 0.3 else Arr(N(1), N(2)), Code(E(N(3)))))
        return err

    def program(self, depth=3, length=4):
        r = self.rng
        ss = []
        # initialise locals most of the time so that programs are mostly valid
        for v in self.locals:
            if r.random() < 0.8:
                ss.append(Loc(v, N(r.randint(0, 3))))
        ss += [self.stmt(depth) for _ in range(r.randint(1, length))]
        if r.random() < 0.6:
            ss.append(E(self.value_expr(1)))
        return Prog(*ss)


# ---------------------------------------------------------------- running
def build(tier_thorough=False):
    diag_translator.generate()
    overloads_translator.generate()
    himpl = V.build_harness("h_vm", "plain")
    drv = V.ocaml_driver("vm")
    return himpl, drv


def run_programs(himpl, drv, progs, defects=None, max_runtime_ms=0, tick_us=0, max_loop=10000, slice_=150):
    """progs: list of program token strings. Returns list of dict(model=..., impl=...)."""
    defects = DEFECTS_AS_IS if defects is None else defects
    cfg_m = "%s;%d;%d;%d;%d" % (",".join(defects), max_runtime_ms * 1000, tick_us, max_loop, slice_)
    mlines = ["%s\t%s" % (cfg_m, p) for p in progs]
    rc, mout, err = V.run_lines_parallel([drv], mlines, timeout=3000)
    res = []
    ilines = []
    for p, mo in zip(progs, mout):
        f = mo.split("\t")
        if len(f) != 4:
            res.append({"prog": p, "model_raw": mo, "text": None})
            ilines.append("%d;%d;%d\t%s" % (max_runtime_ms, tick_us, max_loop, hexs("")))
            continue
        text = V.unhx(f[0]).decode("latin-1")
        res.append({"prog": p, "text": text, "m_listing": f[1], "m_trace": f[2], "m_final": f[3]})
        ilines.append("%d;%d;%d\t%s" % (max_runtime_ms, tick_us, max_loop, f[0]))
    rc, iout, err = V.run_lines_parallel([himpl], ilines, timeout=3000)
    for d, io in zip(res, iout):
        f = io.split("\t")
        if len(f) != 3:
            d["impl_raw"] = io
            d["i_listing"] = d["i_trace"] = d["i_final"] = io
        else:
            d["i_listing"], d["i_trace"], d["i_final"] = f
    return res


def first_diff(a, b, sep="|"):
    xa, xb = a.split(sep), b.split(sep)
    for i, (x, y) in enumerate(zip(xa, xb)):
        if x != y:
            return i, x, y
    if len(xa) != len(xb):
        i = min(len(xa), len(xb))
        return i, (xa[i] if i < len(xa) else "<end>"), (xb[i] if i < len(xb) else "<end>")
    return None
