"""C20 - runs are deterministic and VM instances living in one process are isolated from each other."""
import decimal, json, math, os, re, struct, sys
import vcommon as V
import vmcommon as VM

PID = "C20"
FINDING_TOFIXED = "tofixed-process-wide"


def hx(b):
    return V.hx(b if isinstance(b, bytes) else b.encode("latin-1"))


# ---------------------------------------------------------------- the mini language of API/IsoDefs.v
def rand_ops(rng, n, touching=True):
    ops = []
    for _ in range(n):
        k = rng.random()
        if touching and k < 0.18:
            ops.append("f%d" % rng.choice([0, 1, 2, 3, 5, 20, 25, -1, -3]))
        elif k < 0.45:
            ops.append("n%d" % rng.choice([0, 1, 3, 7, 12, 250, -4]))
        elif touching and k < 0.62:
            ops.append("c")
        elif touching and k < 0.68:
            ops.append("r")
        elif k < 0.78:
            ops.append("s" + rng.choice(["gx", "gy"]))
        elif k < 0.9:
            ops.append("i" + rng.choice(["gx", "gy"]))
        else:
            ops.append("p" + ",".join(hx(t) for t in rng.choice([["a b"], ["true"], ["x", "y z"]])))
    return ops


def render(ops):
    """SQF text of a mini-language program (run through the preprocessor by the harness)"""
    out = []
    for o in ops:
        k, body = o[0], o[1:]
        if k == "f":
            out.append("toFixed %s;" % (body if not body.startswith("-") else "(%s)" % body))
        elif k == "n":
            out.append("diag_log str %s;" % (body if not body.startswith("-") else "(%s)" % body))
        elif k == "c":
            out.append("diag_log __COUNTER__;")
        elif k == "r":
            out.append("__COUNTER_RESET__")
        elif k == "s":
            out.append("%s = 1;" % body)
        elif k == "i":
            out.append('diag_log str (isNil "%s");' % body)
        elif k == "p":
            for t in body.split(","):
                out.append('diag_log "%s";' % V.unhx(t).decode())
    return "\n".join(out) + "\n"


def marks(rec):
    """the printed lines of a VM record (without the final value)"""
    out = []
    for item in rec.split(",")[0:]:
        if ":M<" in item and not item.split(":M<", 1)[1].startswith("VALUE "):
            out.append(item.split(":M<", 1)[1].rstrip(">"))
    return out


def marks_all(rec):
    """every printed line of a VM record, the final value included"""
    return [item.split(":M<", 1)[1].rstrip(">") for item in rec.split(",") if ":M<" in item]


# ---------------------------------------------------------------- family N: numbers and the text they must become
F32_MAX = 3.4028234663852886e38


def f32(x):
    """the float (binary32) nearest to x, as a Python float"""
    try:
        return struct.unpack("<f", struct.pack("<f", x))[0]
    except OverflowError:
        return math.copysign(F32_MAX, x)


def num_literal(x):
    """SQF literal with exactly the value of the float x (its full decimal expansion: any correct reader yields x)"""
    s = format(decimal.Decimal(abs(x)), "f")
    return "(-%s)" % s if math.copysign(1.0, x) < 0 else s


def num_text(x, m):
    """text of the float x: m = -1 the shortest notation (%g), m = 0..20 fixed notation with m decimals (%.mf)"""
    return "%g" % x if m < 0 else "%.*f" % (m, x)


def unary_mode(a):
    """print mode selected by `toFixed a`"""
    return 20 if a > 20 else (-1 if a < 0 else a)


def binary_decimals(a):
    """decimals of `x toFixed a`"""
    return 20 if a > 20 else (0 if a <= 0 else a)


def show_sqf(v, m):
    """str / printed value / format argument: strings quoted"""
    if isinstance(v, str):
        return '"' + v.replace('"', '""') + '"'
    if isinstance(v, list):
        return "[" + ",".join(show_sqf(x, m) for x in v) + "]"
    return num_text(v, m)


def show_raw(v, m):
    """diag_log: strings as they are, at every depth"""
    if isinstance(v, str):
        return v
    if isinstance(v, list):
        return "[" + ",".join(show_raw(x, m) for x in v) + "]"
    return num_text(v, m)


def canon_text(t):
    """what harness/h_api.cpp does to a printed text before it goes into the record"""
    return re.sub(r"[\t\n\r|,{}]", " ", t)


NUM_SPECIALS = ([0.0, -0.0, 1.0, -1.0, 0.5, 1.5, 2.5, 3.5, -2.5, 0.125, 0.375, 0.625, 9.5, 99.5, 999999.5, 9.75, 16777216.0, 16777215.0, 8388607.5, 2147483648.0,
                 4294967296.0, 100000.0, 1000000.0, 999999.0, F32_MAX, -F32_MAX]
                + [f32(v) for v in (0.1, 0.2, 1 / 3, 2 / 3, 99999.95, 999999.95, 1e-5, 9.9999e-5, 1e-4, 1.17549435e-38, 1.4e-45, 7e-45, 1e38, 1e37, 3e38, 123456789012.0, 0.049999, 0.95, 0.995, 9.9995)]
                + [2.0 ** k for k in (-149, -148, -127, -126, -64, -24, -10, -1, 10, 23, 24, 31, 32, 53, 63, 64, 100, 126, 127)]
                + [f32(10.0 ** k) for k in range(-45, 39)])

# the routes on which a number becomes text
NUM_ROUTES = ["x toFixed n", "str x", "diag_log x", "array", "str array", "format", "joinString", "string +", "call str", "count", "toArray", "apply toFixed", "hashmap"]
NUM_ROUTES_MODELESS = ["x toFixed n", "apply toFixed", "string + toFixed"]
NUM_ROUTES_BINARY = ("x toFixed n", "count", "toArray", "apply toFixed")     # x itself goes through the binary operator


def num_expr(route, x, y, n, m):
    """(SQF expression, its value as the generator models it) - x, y floats, n the argument of binary toFixed, m the print mode in force"""
    X, Y = num_literal(x), num_literal(y)
    bx, by = num_text(x, binary_decimals(n)), num_text(y, binary_decimals(n))
    N = str(n) if n >= 0 else "(%d)" % n
    if route == "x toFixed n":
        return "(%s toFixed %s)" % (X, N), bx
    if route == "str x":
        return "(str %s)" % X, num_text(x, m)
    if route == "diag_log x":
        return X, x
    if route == "array":
        return "[%s, [%s], %s toFixed %s]" % (X, Y, X, N), [x, [y], bx]
    if route == "str array":
        return "(str [%s, %s])" % (X, Y), show_sqf([x, y], m)
    if route == "format":
        return '(format ["%%1 / %%2 / %%3", %s, %s toFixed %s, [%s]])' % (X, Y, N, Y), "%s / %s / %s" % (num_text(x, m), by, show_sqf([y], m))
    if route == "joinString":
        return '([%s, %s, %s toFixed %s] joinString "_")' % (X, Y, X, N), "%s_%s_%s" % (num_text(x, m), num_text(y, m), bx)
    if route == "string +":
        return '("v=" + str %s + ";" + (%s toFixed %s))' % (X, Y, N), "v=%s;%s" % (num_text(x, m), by)
    if route == "string + toFixed":
        return '((%s toFixed %s) + ";" + (%s toFixed %s))' % (X, N, Y, N), "%s;%s" % (bx, by)
    if route == "call str":
        return "(%s call { str _this })" % X, num_text(x, m)
    if route == "count":
        return "(count (%s toFixed %s))" % (X, N), float(len(bx))
    if route == "toArray":
        return "(toArray (%s toFixed %s))" % (X, N), [float(ord(c)) for c in bx]
    if route == "apply toFixed":
        return "([%s, %s] apply { _x toFixed %s })" % (X, Y, N), [bx, by]
    if route == "hashmap":
        return '(str createHashMapFromArray [["k", %s]])' % X, '[["k",%s]]' % num_text(x, m)
    raise ValueError(route)


def num_value(rng, digits=None):
    """a float: one of the special ones, or one with that many digits before the point (None: any magnitude 1e-45 .. FLT_MAX)"""
    if digits is None:
        k = rng.random()
        if k < 0.3:
            return rng.choice(NUM_SPECIALS)
        if k < 0.45:
            return math.copysign(f32(rng.random() * 10.0 ** -rng.randint(0, 44)), rng.choice([1, 1, -1]))
        digits = rng.randint(1, 39)
    x = f32(rng.uniform(1, 10) * 10.0 ** (digits - 1))
    if digits <= 7 and rng.random() < 0.3:
        x = float(int(x))
    return x


def number_programs(rng, thorough):
    """programs P (every one starts by choosing its print mode) with the record they must produce, and programs Q (other numbers on
    the routes that do not depend on the print mode, or nothing).  First a sweep: for every route and every length 1..61 a number
    whose fixed-notation text has exactly that length; then random programs."""
    items = []                                       # (route, x, y, n, print mode the statement wants or None)
    for route in NUM_ROUTES:
        for length in range(1, 62):
            for _ in range(400):
                n = rng.randint(0, 20)
                neg = rng.random() < 0.35
                d = length - (1 if neg else 0) - (n + 1 if n else 0)
                if not 1 <= d <= 39:
                    continue
                x = num_value(rng, d)
                if d == 1 and rng.random() < 0.4:
                    x = f32(rng.random())
                x = -x if neg else x
                if len(num_text(x, n)) == length:
                    break
            else:
                continue
            # on the routes that print in the mode of the program the mode is n; the binary operator gets n as its argument
            items.append((route, x, num_value(rng), n, n))
    rng.shuffle(items)
    for _ in range(2400 if thorough else 260):
        n = rng.choice([0, 1, 2, 3, 6, 10, 19, 20, 20, 21, 25, 100, -1, -3] + list(range(0, 21)))
        items.append((rng.choice(NUM_ROUTES), math.copysign(num_value(rng), rng.choice([1, 1, 1, -1])), num_value(rng), n,
                      None if rng.random() < 0.5 else rng.choice([-1, -1, -5, 0, 2, 6, 13, 20, 30] + list(range(0, 21)))))
    progs, i = [], 0
    while i < len(items):
        k = rng.randint(2, 5)
        chunk, i = items[i:i + k], i + k
        first = chunk[0][4] if chunk[0][4] is not None else rng.choice([-1, 3, 8, 20])
        text, mode = ["toFixed %s;" % (first if first >= 0 else "(%d)" % first)], unary_mode(first)
        lines, routes = [], []
        for j, (route, x, y, n, want) in enumerate(chunk):
            if want is not None and unary_mode(want) != mode:
                text.append("toFixed %s;" % (want if want >= 0 else "(%d)" % want))
                mode = unary_mode(want)
            e, v = num_expr(route, x, y, n, mode)
            # the length recorded for the coverage: the text of x in the notation of its route
            shown = num_text(x, binary_decimals(n) if route in NUM_ROUTES_BINARY else mode)
            routes.append((route + (" (printed value)" if j == len(chunk) - 1 else ""), len(shown)))
            if j < len(chunk) - 1:
                text.append("diag_log %s;" % e)
                lines.append("3:60019:M<%s>," % canon_text(show_raw(v, mode)))
            else:
                text.append(e)
                lines.append("3:60095:M<VALUE %s>," % canon_text(show_sqf(v, mode)))
        # Q: numbers again, on routes that never read the print mode (what P prints must not depend on it anyway)
        if rng.random() < 0.15:
            q = ""
        else:
            qs = []
            for _ in range(rng.randint(1, 3)):
                e, _v = num_expr(rng.choice(NUM_ROUTES_MODELESS), num_value(rng), num_value(rng), rng.choice([0, 2, 6, 12, 20]), -1)
                qs.append("diag_log %s;" % e)
            q = " ".join(qs)
        progs.append((" ".join(text), q, "-1:0:" + "".join(lines), routes))
    return progs


def confirm_concurrent(run, replay):
    """A difference seen only in the mode that runs two instances on two threads is kept only if it shows again: the case is replayed twice
    more in processes of its own; what does not come back (a thread that could not be started on a busy machine, a scheduling accident of
    the harness) is noted in the evidence and not reported - a violation that cannot be replayed has no replay to offer."""
    import subprocess, tempfile
    if replay or os.environ.get("VERIF_NO_CONFIRM"):
        return
    keep, dropped = [], 0
    for what, rep, found in run.violations:
        if not (found and isinstance(rep, dict) and rep.get("mode") == "beside"):
            keep.append((what, rep, found))
            continue
        again = 0
        with tempfile.TemporaryDirectory() as td:
            f = os.path.join(td, "case.json")
            json.dump({"property": PID, "what": what, "replay": rep}, open(f, "w"), default=str)
            for _ in range(2):
                env = dict(os.environ, VERIF_NO_CONFIRM="1", VERIF_OUT=td)
                pr = subprocess.run([sys.executable, os.path.join(V.VERIF, "bin", "check"), PID, "--replay", f], stdout=subprocess.PIPE, stderr=subprocess.STDOUT, env=env, timeout=3000)
                if b"VIOLATION" in pr.stdout:
                    again += 1
                    break
        if again:
            keep.append((what, rep, found))
        else:
            dropped += 1
            run.notes.append("a difference seen once in the two-thread mode did not show again in two replays and is not reported: " + what[:200])
    run.violations[:] = keep
    run.cov["concurrent_differences_not_reproduced"] = dropped


def main(replay=None):
    run = V.Run(PID, "proof")
    rng = run.rng
    thorough = run.tier == "thorough"
    problems = run.prove()
    hapi = V.build_harness("h_api", "plain")
    drv = V.ocaml_driver("api")
    def harness_run(mode, lines, timeout=3000):
        """records of the implementation with everything that is not reproducible between two processes replaced: heap addresses
        (objects, groups, scripts print their pointer)"""
        rc_, out_, err_ = V.run_lines_parallel([hapi, mode], lines, timeout=timeout)
        return rc_, [re.sub(r"0x[0-9a-fA-F]+", "0xADDR", x) for x in out_], err_
    import statics as statics_translator
    st = statics_translator.generate()
    counter_global = any(n == "__counter__" for n in st["where"])
    cur = "dec,ctr" if counter_global else "dec"          # the placement of the components in the tree under test
    cur_nodec = "ctr" if counter_global else ""

    # ------------------------------------------------------------- family A: programs over the process state (model-predicted)
    casesA = []
    if replay:
        r = json.load(open(replay))["replay"]
        if r.get("family") == "A":
            casesA = [(r["p"], r["q"])]
    else:
        cdir = os.path.join(V.VERIF, "corpus", PID)
        if os.path.isdir(cdir):
            for fn in sorted(os.listdir(cdir)):
                r = json.load(open(os.path.join(cdir, fn)))
                if r.get("family") == "A":
                    casesA.append((r["p"], r["q"]))
        for _ in range(1500 if thorough else 220):
            casesA.append((rand_ops(rng, rng.randint(1, 5)), rand_ops(rng, rng.randint(1, 5), touching=rng.random() < 0.7)))
    modes = ["alone", "after", "twice"]
    il, ml = [], []
    for p, q in casesA:
        for m in modes:
            il.append("%s\t%s\t%s" % (m, hx(render(p)), hx(render(q))))
            for sw in (cur, cur_nodec, "spec"):
                ml.append("%s\t%s\t%s\t%s" % (sw or "none", m, " ".join(p), " ".join(q)))
        # beside: only for pairs that cannot interfere by the footprint theorem
        il.append("beside\t%s\t%s" % (hx(render(p)), hx(render(q))))
    rc, impl, _ = harness_run("iso", il, timeout=3000)
    rc, model, _ = V.run_lines_parallel([drv, "iso"], ml, timeout=3000)
    evaluations, distinct, samples, dist = 0, set(), [], {"A pairs": len(casesA)}
    it, mt = iter(impl), iter(model)
    for p, q in casesA:
        res = {}
        for m in modes:
            i = next(it)
            res[m] = {"impl": i, "cur": next(mt).split("|"), "nodec": next(mt).split("|"), "spec": next(mt).split("|")}
            for k in ("cur", "nodec", "spec"):
                if res[m][k] == [""]:
                    res[m][k] = []
        beside = next(it)
        rep = {"family": "A", "p": p, "q": q, "text_p": render(p), "text_q": render(q),
               "impl": {m: res[m]["impl"] for m in modes}, "impl_beside": beside, "model_current_placement": {m: res[m]["cur"] for m in modes}}
        alone = res["alone"]["impl"]
        if not alone.startswith("-1:0:") and not alone.startswith("0:0:"):
            run.violation("a program of the process-state language did not run to its end in a fresh VM (machinery)", dict(rep, broken="generator of checks/C20.py"), found_input=False)
            continue
        if marks(alone) != res["alone"]["spec"] or res["alone"]["cur"] != res["alone"]["spec"]:
            rep["broken"] = "correspondence IsoDefs.run vs the implementation (a fresh VM in a fresh process)"
            run.violation("implementation and model disagree on a program run alone in a fresh process", rep, found_input=False)
            continue
        for m in ("after", "twice"):
            evaluations += 1
            distinct.add((tuple(p), tuple(q) if m == "after" else (), m))
            got = marks(res[m]["impl"])
            if res[m]["impl"] == alone:
                if res[m]["cur"] != res["alone"]["spec"]:
                    rep2 = dict(rep, mode=m, broken="correspondence IsoDefs.run vs the implementation (noninterference_refuted witnesses)")
                    run.violation("the model of the current placement predicts interference, the implementation shows none", rep2, found_input=False)
                continue
            # the property is violated on this pair: P prints something else because Q (or P itself) ran before in the process
            what = "output(P in a fresh VM) differs when %s ran before it in the same process" % ("Q" if m == "after" else "P itself")
            if got == res[m]["cur"] and res[m]["nodec"] == res["alone"]["spec"]:
                # explained exactly by the process-wide print mode, and by nothing else
                if run.known.has(PID, FINDING_TOFIXED):
                    run.known_finding(FINDING_TOFIXED)
                else:
                    run.violation(what + " - toFixed sets a process-wide print mode (finding %s)" % FINDING_TOFIXED, dict(rep, mode=m))
            elif got == res[m]["cur"]:
                run.violation(what + " - __COUNTER__ is a process-wide static (see proposed_fixes/C20-01-counter-per-runtime.diff)", dict(rep, mode=m))
            else:
                run.violation(what + " (not explained by the modelled process state)", dict(rep, mode=m))
        # beside Q on another thread: demanded whenever the footprints cannot meet
        qtouch = any(o[0] in "fcr" for o in q)
        pread = any(o[0] in "nc" for o in p)
        if not (qtouch and pread):
            evaluations += 1
            if beside != alone:
                run.violation("output(P in a fresh VM) differs when Q runs beside it on another thread although Q writes nothing P reads", dict(rep, mode="beside"))
        if len(samples) < 4:
            samples.append({"p": render(p), "q": render(q), "alone": alone, "after": res["after"]["impl"]})

    # ------------------------------------------------------------- family B: programs of the VM fragment (metamorphic, no process state involved)
    g = VM.Gen(rng)
    nB = 0 if (replay and casesA) else (1200 if thorough else 150)
    casesB = []
    if replay and not casesA:
        r = json.load(open(replay))["replay"]
        if r.get("family", "B") == "B" and "p" in r:
            casesB = [(r["p"], r["q"])]
    else:
        casesB = [(g.program(depth=3, length=4), g.program(depth=3, length=4)) for _ in range(nB)]
    progs = sorted({x for pq in casesB for x in pq})
    rc, pt, _ = V.run_lines_parallel([drv, "ctl-text"], progs)
    text = {p: V.unhx(t.split("\t")[0]) for p, t in zip(progs, pt)}
    il = []
    for p, q in casesB:
        for m in ("alone", "after", "beside", "twice", "alone"):
            il.append("%s\t%s\t%s" % (m, hx(text[p]), hx(text[q])))
    rc, implB, _ = harness_run("iso", il, timeout=3000)
    it = iter(implB)
    dist["B pairs"] = len(casesB)
    for p, q in casesB:
        r = {m: next(it) for m in ("alone", "after", "beside", "twice", "alone2")}
        if r.pop("alone2") != r["alone"]:
            dist["B dropped: alone-record not reproducible"] = dist.get("B dropped: alone-record not reproducible", 0) + 1
            continue
        evaluations += 3
        distinct.add(("B", r["alone"]))
        for m in ("after", "beside", "twice"):
            if r[m] != r["alone"]:
                rep = {"family": "B", "p": p, "q": q, "text_p": text[p].decode("latin-1"), "text_q": text[q].decode("latin-1"), "impl": r, "mode": m}
                run.violation("output(P in a fresh VM) differs (%s) for programs that touch no process state: %s" % (
                    m, {"after": "Q ran before it", "beside": "Q ran beside it on another thread", "twice": "the same program ran before it"}[m]), rep)
                break

    # ------------------------------------------------------------- family C: operators that hand out containers
    # For every nular operator of the registry, and every unary one with a simple argument of its registered type, that returns an
    # ARRAY or a HASHMAP: Q edits the returned container in place, P prints what the operator returns.  If the container is an
    # object shared by the VM instances of the process (a static), P sees Q's edits.  Judged by the property itself.
    casesC = []
    if replay:
        r = json.load(open(replay))["replay"]
        if r.get("family") == "C":
            casesC = [(r["expr"], r["kind"], r["text_q"])]
    elif not replay:
        import subprocess
        cdir = os.path.join(V.VERIF, "corpus", PID)
        if os.path.isdir(cdir):
            for fn in sorted(os.listdir(cdir)):
                r = json.load(open(os.path.join(cdir, fn)))
                if r.get("family") == "C":
                    casesC.append((r["expr"], r["kind"], r["text_q"]))
        reg = subprocess.run([hapi, "ops"], stdout=subprocess.PIPE, timeout=120).stdout.decode("latin-1").split("\n")
        # the property excepts the time and random operators; the rest of the list keeps the discovery itself harmless
        deny = re.compile(r"time|date|tick|random|sleep|exit|halt|breakpoint|extension|clipboard|loadfile|preprocess|execvm|"
                          r"^call$|spawn|compile|terminate|waituntil|assert|throw|^for$|^while$|^if$|^switch$|^try$|^with$|^private$|"
                          r"allvariables|supportinfo|diag_|__$")
        ARG = {"SCALAR": ["1"], "STRING": ['"a"'], "ARRAY": ["[1, 2]", "[]"], "BOOL": ["true"], "ANY": ["1", "[3]"], "HASHMAP": ["createHashMap"],
               "NAMESPACE": ["missionNamespace"], "CONFIG": ["configFile"]}
        exprs = []
        for line in reg:
            f = line.split("\t")
            if f[0] == "N" and not deny.search(f[1]):
                exprs.append(f[1])
            elif f[0] == "U" and len(f) == 3 and not deny.search(f[1]) and re.match(r"^[a-z_][a-z0-9_]*$", f[1]):
                exprs += ["%s %s" % (f[1], a) for a in ARG.get(f[2], [])]
        exprs = sorted(set(exprs))
        dist["C candidate expressions"] = len(exprs)
        rc, disc, _ = harness_run("iso", ["alone\t%s\t%s" % (hx("diag_log typeName (%s)" % e), hx("")) for e in exprs], timeout=3000)
        EDITS_A = ["_r pushBack 99", "_r set [0, 98]", "_r append [97, 96]", "_r deleteAt 0", "reverse _r", "_r resize 1", "_r sort true"]
        EDITS_H = ['_r set ["verif", 1]', '_r deleteAt "verif2"', '_r set [0, [9]]']
        for e, d in zip(exprs, disc):
            kind = "ARRAY" if ":M<ARRAY>" in d else "HASHMAP" if ":M<HASHMAP>" in d else None
            if kind is None:
                continue
            eds = EDITS_A if kind == "ARRAY" else EDITS_H
            k = rng.randrange(len(eds))
            for chosen in ([eds[k], eds[(k + 3) % len(eds)]], eds if kind == "ARRAY" else eds[::-1]):
                casesC.append((e, kind, "private _r = (%s); %s; diag_log str _r" % (e, "; ".join(chosen))))
    il = []
    for e, kind, tq in casesC:
        tp = "diag_log str (%s); diag_log str count (%s)" % (e, e)
        for m in ("alone", "after", "twice", "beside", "alone"):
            il.append("%s\t%s\t%s" % (m, hx(tp), hx(tq)))
    rc, implC, _ = harness_run("iso", il, timeout=3000)
    it = iter(implC)
    dist["C container-returning expressions x edits"] = len(casesC)
    flagged = set()
    for e, kind, tq in casesC:
        r = {m: next(it) for m in ("alone", "after", "twice", "beside", "alone2")}
        if r.pop("alone2") != r["alone"]:
            dist["C dropped: alone-record not reproducible"] = dist.get("C dropped: alone-record not reproducible", 0) + 1
            continue
        evaluations += 3
        distinct.add(("C", e))
        if e in flagged:
            continue
        for m in ("after", "twice", "beside"):
            if r[m] != r["alone"]:
                flagged.add(e)
                rep = {"family": "C", "expr": e, "kind": kind, "text_p": "diag_log str (%s); diag_log str count (%s)" % (e, e), "text_q": tq, "impl": r, "mode": m}
                run.violation("`%s` hands out %s that is shared by the VM instances of the process: after one instance edited it in place, "
                              "a fresh instance gets something else from the same operator (%s)" % (
                                  e, {"ARRAY": "an array", "HASHMAP": "a hashmap"}[kind], {"after": "Q ran before it", "beside": "Q ran beside it on another thread", "twice": "P itself ran before it"}[m]), rep)
                break

    # ------------------------------------------------------------- family O: instances with DIFFERENT operator sets
    # sqfvm_create_instance registers every operator, sqfvm_create_instance_basic the non-arma sets, sqfvm_create_instance_empty none:
    # a spelling that is an operator in one instance is a plain identifier in another.  What one instance registered (or lexed)
    # must not decide how another instance reads the same word.  Names = registry(full) minus registry(basic), taken from the dumps.
    import subprocess as _sp

    def dump(which):
        out = {}
        for l in _sp.run([hapi, "ops", which], stdout=_sp.PIPE, timeout=120).stdout.decode("latin-1").split("\n"):
            f = l.split("\t")
            if len(f) >= 2 and f[0] in ("N", "U", "B"):
                out.setdefault(f[1], set()).add(f[0])
        return out
    casesO = []      # (word, kind, P, Q, set of P's instance, set of Q's instance)
    if replay:
        r = json.load(open(replay))["replay"]
        if r.get("family") == "O":
            casesO = [(r["word"], r["kind"], r["text_p"], r["text_q"], r["set_p"], r["set_q"])]
    else:
        import C09 as _sw
        cdir = os.path.join(V.VERIF, "corpus", PID)
        if os.path.isdir(cdir):
            for fn in sorted(os.listdir(cdir)):
                r = json.load(open(os.path.join(cdir, fn)))
                if r.get("family") == "O":
                    casesO.append((r["word"], r["kind"], r["text_p"], r["text_q"], r["set_p"], r["set_q"]))
        full, basic = dump("full"), dump("basic")
        words = sorted(w for w in full if w not in basic and re.match(r"^[a-z_][a-z0-9_]*$", w) and w not in _sw.SWEEP_EXCLUDED
                       and w not in ("true", "false", "private", "nil") and not re.search(r"time|date|tick|random", w))
        dist["O words that are operators only in a full instance"] = len(words)
        pick = [w for w in ("player", "allunits", "vehicle", "setpos") if w in words]
        rest = [w for w in words if w not in pick]
        rng.shuffle(rest)
        pick += rest[:(400 if thorough else 45)]
        for w in pick:
            kind = "N" if "N" in full[w] else "U" if "U" in full[w] else "B"
            use = {"N": "private _q = %s;" % w, "U": "private _q = (%s 0);" % w, "B": "private _q = (0 %s 0);" % w}[kind]
            # the word is a variable in P's instance, an operator in Q's
            casesO.append((w, kind, '%s = "Bob"; diag_log ("%s is " + %s);' % (w, w, w), use, "basic", "full"))
            casesO.append((w, kind, "%s = 7; %s" % (w, w), use, "empty", "full"))
            # the word is an operator in P's instance, a variable in Q's
            casesO.append((w, kind, use + ' diag_log "after";', "%s = 1; diag_log str %s;" % (w, w), "full", "basic"))
    if not replay:
        # what an instance of ANOTHER operator set that was created (and used) earlier in the process leaves behind must not show in
        # a later instance either: containers keyed by values of many types print in the same order (hash / type registration order)
        HASH_P = [
            'private _m = createHashMapFromArray [[objNull, 1], [grpNull, 2], [west, 3], [east, 4], ["a", 5], [7, 6], [true, 7], [configFile, 8], [civilian, 9], [[1,2], 10], [scriptNull, 11], [{1}, 12]]; '
            'diag_log str (keys _m); diag_log str _m; { diag_log str _x } forEach (keys _m)',
            'private _m = createHashMap; { _m set [_x, _forEachIndex] } forEach [west, 1, "b", east, false, sideUnknown, 2, "c", resistance, 0, "", objNull, grpNull, [3], configNull]; '
            'diag_log str (keys _m); diag_log str _m',
            'private _m = createHashMapFromArray [[createHashMap, 1], [createHashMapFromArray [[1,2]], 2], ["k", 3], [5, 4], [objNull, 5], [west, 6], [true, 7], [[], 8]]; diag_log str (keys _m); diag_log str _m',
            'private _m = createHashMapFromArray [["k", 3], [5, 4], [true, 7], [[], 8], [[1], 9], [false, 10], ["", 11], [0, 12], [configFile, 13], [{2}, 14], [createHashMap, 15]]; diag_log str (keys _m); diag_log str _m',
        ]
        HASH_Q = 'private _h = createHashMapFromArray [["q", 1], [2, 3], [true, 4]]; diag_log str _h; diag_log str (keys _h)'
        for tp in HASH_P:
            for sp, sq in (("full", "basic"), ("full", "empty"), ("basic", "full"), ("basic", "empty")):
                casesO.append(("(hashmap keyed by values of many types)", "H", tp, HASH_Q if sq != "empty" else "q = 1; q", sp, sq))
    il = []
    for w, kind, tp, tq, sp, sq in casesO:
        for m in ("alone", "after", "twice", "beside", "alone"):
            il.append("%s\t%s\t%s\t%s,%s" % (m, hx(tp), hx(tq), sp, sq))
    rc, implO, _ = harness_run("iso", il, timeout=3000)
    it = iter(implO)
    dist["O cases (word x direction)"] = len(casesO)
    flaggedO = set()
    for w, kind, tp, tq, sp, sq in casesO:
        r = {m: next(it) for m in ("alone", "after", "twice", "beside", "alone2")}
        if r.pop("alone2") != r["alone"]:
            dist["O dropped: alone-record not reproducible"] = dist.get("O dropped: alone-record not reproducible", 0) + 1
            continue
        evaluations += 3
        distinct.add(("O", w, sp))
        for m in ("after", "twice", "beside"):
            if r[m] != r["alone"] and (sp, sq, m, kind == "H") not in flaggedO:
                flaggedO.add((sp, sq, m, kind == "H"))
                rep = {"family": "O", "word": w, "kind": kind, "text_p": tp, "text_q": tq, "set_p": sp, "set_q": sq, "impl": r, "mode": m}
                if kind == "H":
                    run.violation("output(P in a fresh %s instance) differs when an instance with the %s operator set was created and used %s in the same process: a hashmap keyed by values of "
                                  "several types prints / iterates in another order (what the earlier instance registered first decides it)" % (
                                      sp, sq, {"after": "before it", "beside": "beside it on another thread", "twice": "(P itself) before it"}[m]), rep)
                    break
                run.violation("output(P in a fresh %s instance) differs when Q ran %s in a %s instance of the same process: `%s` is %s in one operator set and "
                              "a plain identifier in the other, and what one instance registered / read decides how the other reads the word" % (
                                  sp, {"after": "before it", "beside": "beside it on another thread", "twice": "(P itself) before it"}[m], sq, w,
                                  {"N": "a nular operator", "U": "a unary operator", "B": "a binary operator"}[kind]), rep)
                break

    # ------------------------------------------------------------- family E: per-thread / per-process state of the C library
    # Nothing of the project's own statics is involved here: Q makes libc / libm leave something behind on the thread (errno = ERANGE
    # from an overflowing pow / exp / strtod, floating-point exception flags from a division by zero or an overflow), P - in a fresh
    # instance on the same thread - reads numbers from a config it loads (decimal, hex, arrays) and prints arithmetic results.
    E_Q = ['diag_log str (10 ^ 39)', 'diag_log str (exp 100)', 'diag_log str (parseNumber "1e999")', 'configparse__ "class VerifQ { v = 1e999; w = 1e-999; };"; diag_log "q"',
           'diag_log str [10 ^ 39, exp 100, parseNumber "1e999", exp (-1000)]', 'diag_log str [1 / 0, (-1) / 0, sqrt (-1), ln 0, 1e38 * 1e38, 10 ^ (-45), asin 2]',
           'diag_log str ([1,2,3] select 5)', 'diag_log str (parseNumber "99999999999999999999999999999999999999999999999")', 'diag_log str (tan 90)']
    E_P = ['configparse__ "class VerifN { d = 1.5; h = 0x1F; big = 123456; neg = -2.75; e = 1e3; arr[] = {2.25, 0x10, -3, 7}; class In { z = 0.125; k = 0xff; }; };"; '
           'diag_log str [getNumber (configFile >> "VerifN" >> "d"), getNumber (configFile >> "VerifN" >> "h"), getNumber (configFile >> "VerifN" >> "big"), '
           'getNumber (configFile >> "VerifN" >> "neg"), getNumber (configFile >> "VerifN" >> "e"), getArray (configFile >> "VerifN" >> "arr"), '
           'getNumber (configFile >> "VerifN" >> "In" >> "z"), getNumber (configFile >> "VerifN" >> "In" >> "k")]',
           'diag_log str [1 / 3, 2 ^ 0.5, 10 mod 3, floor 2.5, round 2.5, round 3.5, 0.1 + 0.2, 7 / 2, sqrt 2, sin 30, parseNumber "12.5", parseNumber "0x1A", 1e10 * 3]',
           'diag_log str [parseNumber "3.25", parseNumber "1e5", parseNumber "-0.5", parseNumber "17"]; configparse__ "class VerifM { a = 3; b = 0x7; };"; '
           'diag_log str [getNumber (configFile >> "VerifM" >> "a"), getNumber (configFile >> "VerifM" >> "b")]']
    casesE = []
    if replay:
        r = json.load(open(replay))["replay"]
        if r.get("family") == "E":
            casesE = [(r["text_p"], r["text_q"])]
    else:
        casesE = [(tp, tq) for tp in E_P for tq in E_Q] + [(tp, "; ".join(E_Q)) for tp in E_P]
    il = []
    for tp, tq in casesE:
        for m in ("alone", "after", "twice", "beside", "alone"):
            il.append("%s\t%s\t%s" % (m, hx(tp), hx(tq)))
    rc, implE, _ = harness_run("iso", il, timeout=3000)
    it = iter(implE)
    dist["E pairs (C library state: errno, floating-point flags)"] = len(casesE)
    flaggedE = set()
    for tp, tq in casesE:
        r = {m: next(it) for m in ("alone", "after", "twice", "beside", "alone2")}
        if r.pop("alone2") != r["alone"]:
            dist["E dropped: alone-record not reproducible"] = dist.get("E dropped: alone-record not reproducible", 0) + 1
            continue
        evaluations += 3
        distinct.add(("E", tp, tq))
        for m in ("after", "twice", "beside"):
            if r[m] != r["alone"] and (tp, m) not in flaggedE:
                flaggedE.add((tp, m))
                run.violation("output(P in a fresh VM) differs when Q ran %s on the same thread: what Q left behind in the C library (errno, floating-point state) "
                              "changes the numbers a fresh instance reads / computes" % {"after": "before it", "beside": "beside it (another thread)", "twice": "(P itself) before it"}[m],
                              {"family": "E", "text_p": tp, "text_q": tq, "impl": r, "mode": m})
                break

    # ------------------------------------------------------------- family N: the text of a number
    # A number becomes text on many routes: binary `x toFixed n`, and - in the print mode the program itself chose with unary
    # `toFixed m` (every P starts by choosing it, so nothing an earlier instance left behind is read) - str, format, joinString,
    # string +, diag_log of a scalar / of an array, elements of arrays and hashmaps, the printed value of the finished script.  The
    # text is a function of the input alone (first sentence of the property) and the generator knows that function: the decimal
    # expansion of the float with that many decimals (C's %.nf), %g in the shortest mode.  So the whole record of P is computed here
    # and must be what a fresh VM prints (oracle 1), and the records of P alone in two processes (two address-space layouts), after Q,
    # after itself and beside Q must be the same bytes (oracle 2).  Numbers: every text length that a float can have in fixed notation
    # (1 .. 61 = sign + 39 digits + point + 20 decimals) on every route, magnitudes 1e-45 .. FLT_MAX, both signs, ties, powers of two
    # and ten, decimals 0 .. 20 and out of range.
    nstats = {}
    casesN = []      # (text of P, text of Q, expected record of P, [(route, text length of the number)])
    if replay:
        r = json.load(open(replay))["replay"]
        if r.get("family") == "N":
            casesN = [(r["text_p"], r["text_q"], r["expected_record"], [tuple(x) for x in r.get("routes", [])])]
    else:
        cdir = os.path.join(V.VERIF, "corpus", PID)
        if os.path.isdir(cdir):
            for fn in sorted(os.listdir(cdir)):
                r = json.load(open(os.path.join(cdir, fn)))
                if r.get("family") == "N":
                    casesN.append((r["text_p"], r["text_q"], r["expected_record"], [tuple(x) for x in r.get("routes", [])]))
        casesN += number_programs(rng, thorough)
    il = []
    for tp, tq, _, _ in casesN:
        for m in ("alone", "after", "twice", "beside"):
            il.append("%s\t%s\t%s" % (m, hx(tp), hx(tq)))
    rc, implN, _ = harness_run("iso", il, timeout=3000)
    # the same programs alone once more, in other processes (another start of the harness: another layout of stack, heap and code)
    rc, implN2, _ = harness_run("iso", ["alone\t%s\t%s" % (hx(tp), hx("")) for tp, _, _, _ in casesN][::-1], timeout=3000)
    implN2 = implN2[::-1]
    it = iter(implN)
    dist["N programs (number -> text on every route) x 5 runs"] = len(casesN)
    seenN = {}
    lengths, routes_seen = set(), {}
    for (tp, tq, want, routes), other in zip(casesN, implN2):
        r = {m: next(it) for m in ("alone", "after", "twice", "beside")}
        r["alone in another process"] = other
        evaluations += 5
        distinct.add(("N", tp))
        for rt_, ln in routes:
            lengths.add(ln)
            routes_seen[rt_] = routes_seen.get(rt_, 0) + 1
        rep = {"family": "N", "text_p": tp, "text_q": tq, "expected_record": want, "routes": [list(x) for x in routes], "impl": r}
        if r["alone"] != want:
            got, exp = marks_all(r["alone"]), marks_all(want)
            at = next((i for i in range(min(len(got), len(exp))) if got[i] != exp[i]), min(len(got), len(exp)))
            rt_ = routes[at][0] if at < len(routes) else "?"
            if seenN.get("text", 0) < 4 and ("text", rt_) not in seenN:
                seenN[("text", rt_)] = 1
                seenN["text"] = seenN.get("text", 0) + 1
                run.violation("a fresh VM in a fresh process does not print a number as the text the input determines (route `%s`, statement %d of P): got %r, the decimal expansion "
                              "of the float with the decimals asked for is %r (%d characters)" % (
                                  rt_, at + 1, got[at] if at < len(got) else r["alone"][:60], exp[at] if at < len(exp) else "<nothing more>", len(exp[at]) if at < len(exp) else 0),
                              dict(rep, mode="alone", oracle="expected text computed by the generator", statement=at + 1))
        for m in ("alone in another process", "after", "twice", "beside"):
            if r[m] != r["alone"]:
                got, exp = marks_all(r[m]), marks_all(r["alone"])
                at = next((i for i in range(min(len(got), len(exp))) if got[i] != exp[i]), min(len(got), len(exp)))
                rt_ = routes[at][0] if at < len(routes) else "?"
                if seenN.get("same", 0) < 4 and ("same", rt_) not in seenN and ("same", m) not in seenN:
                    seenN[("same", rt_)] = seenN[("same", m)] = 1
                    seenN["same"] = seenN.get("same", 0) + 1
                    run.violation("the same program in a fresh VM gives different output (%s): statement %d of P (route `%s`) printed %r in the one run and %r in the other; "
                                  "P uses no time / random operator and chooses its print mode itself" % (
                                      {"alone in another process": "run alone in two processes", "after": "alone / after Q ran in another instance of the process",
                                       "twice": "alone / after P itself ran in another instance of the process", "beside": "alone / beside Q on another thread"}[m],
                                      at + 1, rt_, exp[at] if at < len(exp) else "<nothing more>", got[at] if at < len(got) else "<nothing more>"),
                                  dict(rep, mode=m, oracle="records must be the same bytes", statement=at + 1))
                break
    nstats.update({"programs": len(casesN), "runs": 5 * len(casesN), "statements": sum(len(c[3]) for c in casesN),
                   "statements per route": dict(sorted(routes_seen.items())),
                   "text lengths of the numbers (fixed notation: sign + digits + point + decimals)": "%d distinct, %s..%s" % (
                       len(lengths), min(lengths) if lengths else "-", max(lengths) if lengths else "-"),
                   "lengths 1..61 not covered": [k for k in range(1, 62) if k not in lengths] if not replay else "-"})
    run.cov["number_text"] = nstats

    # ------------------------------------------------------------- family T: the clock is not an input
    # A program that uses no time operator (sleep, uiSleep, time, diag_tickTime, systemTime, ...) and runs without a time limit
    # has the same inputs whatever the clock does, so by the first sentence of the property its values, its diagnostics and their
    # order are the same.  Programs: two or three scheduled scripts (spawn) that share globals and run for many turns each, so
    # that it matters where a turn ends.  Each runs in a fresh VM in a fresh process under the interposed clock of the harness,
    # which advances by a fixed amount per query - 0, 1 us, 40 us, 0.7 ms (and 5 ms for a few) - for system_clock and steady_clock.
    TICKS = [0, 1000, 40 * 1000, 700 * 1000]
    def sched_program(r_):
        stmts = ["g = g + 1", "h pushBack g", "k = (k * 3 + g) mod 1009", "g = g + (k mod 2)", "h pushBack (k + g)", "k = k + count h", "g = g + 2; k = (k + 1) mod 97",
                 "if (g mod 3 == 0) then { k = k + 1 } else { g = g + 1 }", "private _v = [g, k]; h pushBack (_v select 1)", "g = (g max k) + 1"]
        n = r_.randint(2, 3)
        parts = ["g = 0; k = 1; h = [];"]
        for s in range(n):
            body = "; ".join(r_.choice(stmts) for _ in range(r_.randint(1, 3)))
            parts.append('s%d = [] spawn { for "_i" from 1 to %d do { %s; if (_i mod %d == 0) then { diag_log ["s%d", _i, g, k, count h] } }; diag_log ["s%d done", g, k, count h, h select (count h - 1)] };'
                         % (s, r_.randint(60, 320), body, r_.randint(5, 23), s, s))
        return " ".join(parts)
    TIME_WORDS = re.compile(r"\b(sleep|uisleep|time|diag_ticktime|systemtime|systemtimeutc|daytime|date|servertime|random|waituntil|diag_deltatime|diag_frameno|diag_fps)\b", re.I)
    casesT = []     # (program, ticks)
    if replay:
        r = json.load(open(replay))["replay"]
        if r.get("family") == "T":
            casesT = [(r["text"], [r["tick_a_ns"], r["tick_b_ns"]])]
    else:
        cdir = os.path.join(V.VERIF, "corpus", PID)
        if os.path.isdir(cdir):
            for fn in sorted(os.listdir(cdir)):
                r = json.load(open(os.path.join(cdir, fn)))
                if r.get("family") == "T":
                    casesT.append((r["text"], TICKS))
        for i in range(40 if thorough else 12):
            casesT.append((sched_program(rng), TICKS + ([5 * 1000 * 1000] if i < 3 else [])))
    casesT = [(t, tk) for t, tk in casesT if not TIME_WORDS.search(t)]
    il = []
    for t, tk in casesT:
        for ns in tk + [tk[0]]:
            il.append("%d\t%s" % (ns, hx(t)))
    rc, implT, _ = harness_run("clock", il, timeout=3000)
    it = iter(implT)
    dist["T programs (scheduled scripts sharing globals, no time operator) x clock speeds"] = "%d x %d" % (len(casesT), len(TICKS))
    tstats = {"programs": len(casesT), "runs": 0, "log lines of the longest": 0, "clock queries seen (min..max per run)": None}
    qs = []
    for t, tk in casesT:
        recs = [next(it) for _ in tk + [tk[0]]]
        body = [x.split("\t")[0] for x in recs]
        for x in recs:
            m_ = re.search(r"queries=(-?\d+)", x)
            if m_ and int(m_.group(1)) >= 0:
                qs.append(int(m_.group(1)))
        if body[-1] != body[0]:
            dist["T dropped: record not reproducible under the same clock"] = dist.get("T dropped: record not reproducible under the same clock", 0) + 1
            continue
        tstats["runs"] += len(tk)
        tstats["log lines of the longest"] = max(tstats["log lines of the longest"], len(marks(body[0])))
        evaluations += len(tk) - 1
        distinct.add(("T", t))
        for ns, b in list(zip(tk, body))[1:]:
            if b != body[0]:
                ma, mb = marks(body[0]), marks(b)
                at = next((i for i in range(min(len(ma), len(mb))) if ma[i] != mb[i]), min(len(ma), len(mb)))
                run.violation("the same program in a fresh VM gives different diagnostics / values when only the speed of the clock differs (%d ns and %d ns per clock query); "
                              "it uses no time operator and has no time limit. First difference at log line %d: %s versus %s"
                              % (tk[0], ns, at + 1, ma[at] if at < len(ma) else (body[0][:40] if not ma else "<end of log>"), mb[at] if at < len(mb) else (b[:40] if not mb else "<end of log>")),
                              {"family": "T", "text": t, "tick_a_ns": tk[0], "tick_b_ns": ns, "record_a": body[0][:4000], "record_b": b[:4000]})
                break
    if qs:
        tstats["clock queries seen (min..max per run)"] = "%d..%d" % (min(qs), max(qs))
    run.cov["clock_independence"] = tstats

    # ------------------------------------------------------------- family R: re-entrancy through the log callback (one thread)
    # Instance A runs an expression P whose operator emits a non-fatal diagnostic part-way through; inside A's log callback the
    # host lets instance B run Q (the same operator with other operands, and another operator).  By the property A's value and its
    # later diagnostics are those of P alone and B's are those of Q alone: an operator that keeps work in a static breaks this.
    import C09 as sweep                      # operand pools per type and the registry-wide case generator of the C09 sweep
    import subprocess
    STRING_BUILDERS = ['format ["a-%1-%5-z", 1, 2]', 'format ["%3|%1|x", "p"]', 'format ["q%9q%1q", [1, 2]]', 'format ["%1%2%3%4", "only"]',
                       'format ["<%2>", "left"]', 'format ["%1-%0-%1", 7]', 'formatText ["%1 and %4", 1]', 'formatText ["%3", "a"]',
                       'toString [65, "a", 66]', 'toString [66, [], 67, 68]', '[1, "x", 3] joinString 5', '[1, 2, 3] joinString "-"',
                       'str [1, 2, [3, "s"]]', '"abcdef" select [9, 2]', '"abcdef" select [-1, 2]', '"abcdef" select [2, -1]', 'toArray "ab"',
                       '[1, 2] select 2', '[[1, 2], [3]] select [5, 1]', '"a,b" splitString ""', 'composeText ["a", 1]', 'parseNumber "12x"',
                       '"abc" find 5', 'toUpper "abc"', 'toLower "ABC"', '["a", "b"] joinString 7', 'text "t" setAttributes ["a"]']
    nodiag_name = re.compile(r"time|date|tick|random")
    casesR = []
    rstats = {"candidates_run_alone": 0, "kept (value returned, a non-error diagnostic before it)": 0, "pairs_tried": 0,
              "nontrivial (B ran inside a diagnostic of A)": 0}
    if replay:
        r = json.load(open(replay))["replay"]
        if r.get("family") == "R":
            casesR = [(r["p"], r["q"], r["k"])]
    else:
        cdir = os.path.join(V.VERIF, "corpus", PID)
        if os.path.isdir(cdir):
            for fn in sorted(os.listdir(cdir)):
                r = json.load(open(os.path.join(cdir, fn)))
                if r.get("family") == "R":
                    casesR.append((r["p"], r["q"], r["k"]))
        reg = subprocess.run([hapi, "ops"], stdout=subprocess.PIPE, timeout=120).stdout.decode("latin-1").split("\n")
        registry = (sorted(l.split("\t")[1] for l in reg if l.startswith("N\t")),
                    sorted(tuple(l.split("\t")[1:3]) for l in reg if l.startswith("U\t")),
                    sorted(tuple(l.split("\t")[1:4]) for l in reg if l.startswith("B\t")))
        sw, _, _ = sweep.sweep_cases(rng, registry, 3 if thorough else 1)
        cands = [(c[1], c[4]) for c in sw if not nodiag_name.search(c[1])] + [("builder:" + t.split(" ")[0 if t[0].isalpha() else -2], t) for t in STRING_BUILDERS]
        rstats["candidates_run_alone"] = len(cands)
        rc, al, _ = harness_run("iso", ["alone\t%s\t%s" % (hx(t), hx("")) for _, t in cands], timeout=3000)

        def diag_points(rec):
            """indices (in order of emission) of the diagnostics of a record that are not the final value print; None if unusable"""
            f = rec.split(":", 2)
            if len(f) < 3 or f[0] not in ("-1", "0") or f[1] != "0" or ":M<VALUE " not in rec:
                return None
            items = [x for x in f[2].split(",") if x]
            lv = [(int(x.split(":")[0]), x.split(":")[1]) for x in items if re.match(r"^\d+:\d+", x)]
            if any(l <= 1 for l, _ in lv):
                return None          # an error-level diagnostic: the run is not the non-fatal case
            return [i for i, (l, c) in enumerate(lv) if c != "60095"]
        kept = {}
        usable_c = [((nm, t), a) for (nm, t), a in zip(cands, al) if diag_points(a)]
        # a second run alone, in another process: output that is not reproducible (time, random, anything else) is no basis for a comparison
        rc, again, _ = harness_run("iso", ["alone\t%s\t%s" % (hx(t), hx("")) for (_, t), _ in usable_c])
        rstats["dropped: alone-record not reproducible"] = 0
        for ((nm, t), a), a2 in zip(usable_c, again):
            if a2 != a:
                rstats["dropped: alone-record not reproducible"] += 1
                continue
            kept.setdefault(nm, []).append((t, a, diag_points(a)))
        rstats["kept (value returned, a non-error diagnostic before it)"] = sum(len(v) for v in kept.values())
        names = sorted(kept)
        allk = [(nm,) + x for nm in names for x in kept[nm][:3]]
        builders = [x for x in allk if x[0].startswith("builder:")]
        others = [x for x in allk if not x[0].startswith("builder:")]
        rng.shuffle(others)
        ps = builders + others[:(600 if thorough else 110)]
        for nm, t, a, pts in ps:
            same = [x for x in allk if x[1] != t and (x[0] == nm or x[1].split(" ")[0] == t.split(" ")[0])]
            qs = ([rng.choice(same)] if same else []) + [rng.choice([x for x in allk if x[0] != nm] or allk)]
            if nm.startswith("builder:"):
                qs += [rng.choice([x for x in builders if x[1] != t] or builders)]
            for q in qs:
                for k in pts[:2]:
                    casesR.append((t, q[1], k))
    alone = {}
    texts = sorted({t for p_, q_, _ in casesR for t in (p_, q_)})
    rc, al2, _ = harness_run("iso", ["alone\t%s\t%s" % (hx(t), hx("")) for t in texts], timeout=3000)
    alone = dict(zip(texts, al2))
    rc, al3, _ = harness_run("iso", ["alone\t%s\t%s" % (hx(t), hx("")) for t in texts])
    unstable = {t for t, x, y in zip(texts, al2, al3) if x != y}
    rc, implR, _ = harness_run("reent", ["%s\t%s\t%d" % (hx(p_), hx(q_), k) for p_, q_, k in casesR], timeout=3000)
    seenR = set()
    for (p_, q_, k), io in zip(casesR, implR):
        if p_ in unstable or q_ in unstable:
            rstats["dropped: alone-record not reproducible"] = rstats.get("dropped: alone-record not reproducible", 0) + 1
            continue
        rstats["pairs_tried"] += 1
        evaluations += 1
        f = io.split("\t")
        rep = {"family": "R", "p": p_, "q": q_, "k": k, "impl": io, "p_alone": alone[p_], "q_alone": alone[q_],
               "interleaving": "instance B runs q inside the log callback of instance A at A's diagnostic number %d of its run of p (one thread)" % k}
        if len(f) != 3:
            if (p_.split(" ")[0], "crash") not in seenR:
                seenR.add((p_.split(" ")[0], "crash"))
                run.violation("two VM instances used re-entrantly on one thread (B inside A's log callback) crash or hang the host", rep)
            continue
        if f[2] == "1":
            rstats["nontrivial (B ran inside a diagnostic of A)"] += 1
            distinct.add(("R", p_, q_, k))
        why = None
        if f[0] != alone[p_]:
            why = "instance A's result / diagnostics for P differ from P alone when instance B ran Q inside A's log callback"
        elif f[2] == "1" and f[1] != alone[q_]:
            why = "instance B's result / diagnostics for Q differ from Q alone when it ran inside instance A's log callback"
        if why:
            key = (p_.split(" ")[0] if p_[0].isalpha() else p_, why[:12])
            if key not in seenR:
                seenR.add(key)
                run.violation(why + " - an operator keeps work in process-wide state across instances (P: `%s`, Q: `%s`)" % (p_, q_), rep)
    run.cov["reentrancy"] = rstats
    dist["R pairs (P, Q, interleaving point)"] = len(casesR)
    if thorough and not replay and casesR:
        # the same pairs on two threads under ThreadSanitizer: supporting evidence only
        try:
            ht = V.build_harness("h_api", "tsan")
            env = dict(os.environ, TSAN_OPTIONS="halt_on_error=0 exitcode=0")
            some = casesR[:60]
            rc, o, err = V.run_lines([ht, "iso"], ["beside\t%s\t%s" % (hx(p_), hx(q_)) for p_, q_, _ in some], timeout=2400, env=env)
            run.notes.append("tsan (supporting evidence only): %d data-race reports for %d pairs of family R run beside each other on two threads"
                             % (err.count("WARNING: ThreadSanitizer: data race"), len(some)))
        except V.BuildError as e:
            run.notes.append("tsan flavour did not build: " + str(e)[-200:])

    # ------------------------------------------------------------- family K: the instances of the C API, one inside the call of another
    # Everything above drives instances assembled from the runtime's classes; the exported functions of src/export/sqfvm.cpp (an anchor
    # of this property) have state and decisions of their own.  Here the instances are those of sqfvm_create_instance[_basic|_empty] and
    # a result is what sqfvm_call / sqfvm_load_config / sqfvm_status return plus every record delivered to the callback.  Histories
    # (checks/c20_api.py): every API call of a pool that ends in each documented way and delivers records in each phase (preprocessing,
    # parsing, executing, the RESULT record, config loading) x every script of another instance x every record position: the other
    # instance is used one after the other, from inside the callback on the same thread, on a thread started and joined there, created
    # and destroyed there, with its script split around the call; three instances on two levels.  Oracle (property text, implementation
    # only): the transcript of each instance equals the one its own ops give in a process where no other instance exists.
    import c20_api as KA
    kstats = {"histories": 0, "by shape": {}, "histories in which another instance was entered inside a call": 0, "groups executed inside a callback": 0,
              "phase of the call in progress when the other instance was entered": {}, "distinct projections run alone": 0,
              "dropped: alone-transcript not reproducible": 0}
    hk = V.build_harness("h_c20api", "plain")

    def krun(lines):
        rc_, out_, err_ = V.run_lines_parallel([hk, "hist"], lines, timeout=3000)
        return [re.sub(r"0x[0-9a-fA-F]+", "0xADDR", x) for x in out_]
    casesK = []      # (shape, ops)
    if replay:
        r = json.load(open(replay))["replay"]
        if r.get("family") == "K":
            casesK = [(r["shape"], r["history"])]
    else:
        cdir = os.path.join(V.VERIF, "corpus", PID)
        if os.path.isdir(cdir):
            for fn in sorted(os.listdir(cdir)):
                r = json.load(open(os.path.join(cdir, fn)))
                if r.get("family") == "K":
                    KA.validate(r["history"])
                    casesK.append((r["shape"], r["history"]))
        disc = KA.discovery_lines()
        dout = krun([l for _, l in disc])
        counts, rets = {}, set()
        for (key, _), o in zip(disc, dout):
            po = KA.parse_out(o)
            if po and "I0" in po[0]:
                res = KA.results_of(po[0]["I0"])
                if len(res) == 2:
                    counts[key] = len(res[1][1])
                    rets.add(res[1][0])
        kstats["API calls of the pool (operator set x call)"] = len(disc)
        kstats["of these deliver records (another instance can be entered there)"] = sum(1 for v in counts.values() if v)
        kstats["return values seen in the pool"] = sorted(rets)
        casesK += KA.histories(rng, counts, thorough)
    projK = [KA.projection(ops) for _, ops in casesK]
    alone_lines = sorted({KA.line_of(p[i]) for p in projK for i in p})
    a1 = krun(alone_lines)
    a2 = krun(alone_lines[::-1])[::-1]
    aloneK = {l: (x if x == y else None) for l, x, y in zip(alone_lines, a1, a2)}
    kstats["distinct projections run alone"] = len(alone_lines)
    implK = krun([KA.line_of(ops) for _, ops in casesK])
    expK = [{i: aloneK[KA.line_of(proj[i])] for i in proj} for proj in projK]
    usableK = [all(v is not None for v in e.values()) for e in expK]
    verdictK = [KA.mismatch(got, proj, e) if u else "unusable" for got, proj, e, u in zip(implK, projK, expK, usableK)]
    # whatever looks wrong is run once more, in a process of its own: only what shows again the same way is reported
    suspects = [n for n, v in enumerate(verdictK) if v is not None and v != "unusable"]
    kstats["looked wrong once and not again (not reported)"] = 0
    if suspects and not os.environ.get("VERIF_NO_CONFIRM"):
        again = krun([KA.line_of(casesK[n][1]) for n in suspects])
        for n, g2 in zip(suspects, again):
            if g2 != implK[n]:
                kstats["looked wrong once and not again (not reported)"] += 1
                run.notes.append("family K: a history gave two different outputs in two runs and is not judged: " + KA.serialize(casesK[n][1])[:200])
                verdictK[n] = "unusable"
    seenK = {}
    for (shape, ops), proj, got, exp, bad in zip(casesK, projK, implK, expK, verdictK):
        if bad == "unusable":
            kstats["dropped: alone-transcript not reproducible"] += 1
            continue
        kstats["histories"] += 1
        kstats["by shape"][shape] = kstats["by shape"].get(shape, 0) + 1
        evaluations += 1
        armed = KA.groups_of(ops)
        rep = {"family": "K", "shape": shape, "history": ops, "harness_line": KA.line_of(ops), "impl": got,
               "alone": {"I%d" % i: {"harness_line": KA.line_of(proj[i]), "impl": exp[i]} for i in proj},
               "oracle": "transcript of every instance = transcript of its own ops in a process without any other instance (implementation against implementation)",
               "how_to_read": "h_c20api hist: C create (f full / b basic / e empty), K sqfvm_call <calldata>:<type>:<text>, L sqfvm_load_config, S sqfvm_status, D destroy; "
                              "{k s ...} = ops issued from the log callback at record k of that op on the same thread, {k t ...} = on a thread started and joined there"}
        if bad == ("crash",):
            if ("crash", shape) not in seenK and seenK.get("n", 0) < 6:
                seenK[("crash", shape)] = 1
                seenK["n"] = seenK.get("n", 0) + 1
                run.violation("API calls on several instances of one process (%s) crash or hang the host: %s; every instance alone answers normally" % (shape, got[:60]), rep)
            continue
        d, done, _ = KA.parse_out(got)
        if armed:
            kstats["histories in which another instance was entered inside a call"] += 1 if done else 0
            kstats["groups executed inside a callback"] += done
            if done == armed:
                distinct.add(("K", KA.serialize(ops)))
        # coverage: where the call in progress was when the other instance was entered (first level)
        for o in ops:
            for g_ in o.get("nest", []):
                alone_res = KA.results_of(KA.parse_out(exp[o["i"]])[0].get("I%d" % o["i"], ""))
                idx = [j for j, fo in enumerate(proj[o["i"]]) if fo == {k_: v_ for k_, v_ in o.items() if k_ != "nest"}]
                if idx and idx[0] < len(alone_res) and g_["k"] < len(alone_res[idx[0]][1]):
                    ph = KA.phase_of(o, alone_res[idx[0]][1][g_["k"]])
                    kstats["phase of the call in progress when the other instance was entered"][ph] = kstats["phase of the call in progress when the other instance was entered"].get(ph, 0) + 1
        if bad is None:
            continue
        i, at, w_, h_ = bad
        # was that op issued while another instance was inside a call, and how
        def find(ops_, depth, how):
            for o in ops_:
                if o["i"] == i:
                    yield depth, how
                for g_ in o.get("nest", []):
                    yield from find(g_["ops"], depth + 1, "a thread started in the log callback" if g_["thread"] else "the log callback (same thread)")
        places = list(find(ops, 0, "the top level"))
        inside = [p for p in places[at:at + 1] if p[0] > 0]
        where = ("issued from %s of instance(s) in the middle of a call of their own" % inside[0][1]) if inside else "while the other instance(s) made their calls before / after / around it"
        key = (shape, inside[0][1] if inside else "top", w_[0][:1], h_[0])
        if key in seenK or seenK.get("n", 0) >= 6:
            continue
        seenK[key] = 1
        seenK["n"] = seenK.get("n", 0) + 1
        if i < 0:
            run.violation("records are delivered with a user_data that belongs to no instance of the history (%s): %s" % (shape, ", ".join(h_[1][:2])[:300]), dict(rep, instance="?"))
        else:
            fo = proj[i][at] if at < len(proj[i]) else {}
            run.violation("C API, %s: instance %d answers its op number %d (%s) with %s and %d record(s); the same ops on that instance in a process of its own give %s and %d record(s). "
                          "The op was %s: what another instance does decides the result of this one"
                          % (shape, i, at + 1, (KA.ser_op(fo)[:1] + " " + repr(fo.get("text", ""))[:80]) if fo else "?", h_[0], len(h_[1]), w_[0], len(w_[1]), where),
                          dict(rep, instance=i, op_number=at + 1, expected_result=[w_[0]] + w_[1][:6], observed_result=[h_[0]] + h_[1][:6]))
    run.cov["api_histories"] = kstats
    dist["K histories of API calls on 2-3 instances (one inside the call of another)"] = len(casesK)

    # ------------------------------------------------------------- the statics themselves, by name
    expected = set(re.findall(r'^\s*\("((?:[^"]|"")*)",\s*(?:Mode|Registry|Scratch|Constant)\)', open(os.path.join(V.COQ, "API", "IsoDefs.v")).read(), re.M))
    found_st = set(st["where"])
    appeared, gone = sorted(found_st - expected), sorted(expected - found_st)
    static_note = ""
    concrete = any(v[2] for v in run.violations)
    if appeared or gone:
        static_note = "; ".join(
            (["new object(s) with static storage in a writable section: " + ", ".join("%s (defined in %s)" % (n, ", ".join(st["where"][n])) for n in appeared)] if appeared else []) +
            (["classified static(s) no longer present: " + ", ".join(gone)] if gone else []))
        if concrete:
            # the broken obligation is shown by the concrete pairs above; it is recorded, not reported a second time without an input
            run.notes.append("C20_statics_are_exactly_known is broken: " + static_note)
            run.violations = [(w + " [" + static_note + "]" if f else w, dict(r, broken_obligation="C20_statics_are_exactly_known: " + static_note) if f else r, f)
                              for w, r, f in run.violations]
        else:
            run.violation("the writable statics of the implementation are not the classified ones (C20_statics_are_exactly_known): " + static_note,
                          {"broken": "C20_statics_are_exactly_known", "appeared": {n: st["where"][n] for n in appeared}, "disappeared": gone}, found_input=False)
    for p in problems:
        if static_note and concrete and "C20_statics_are_exactly_known" in p:
            continue
        if static_note and "Properties_C20" in p:
            p = p + " [" + static_note + "]"
        run.violation("proof obligation not discharged: " + p, {"broken": p, "theorems": run.cov["theorems"]}, found_input=False)
    run.cov["evaluations"] = evaluations
    run.cov["distinct_nontrivial"] = len(distinct)
    run.cov["rule"] = ("metamorphic runs inside ONE harness process per case (fresh process per case): P alone, P after Q (second, fresh VM), P after P, P beside Q on "
                       "another thread; family A: programs over the process state (toFixed k, str n, __COUNTER__, __COUNTER_RESET__, global set / isNil) - printed lines vs "
                       "IsoDefs.run under the placement of the components found by nm on this tree, under that placement minus the print mode, and under full isolation; "
                       "family B: pairs of programs from vmcommon.Gen - byte-wise comparison of the whole record (result, state, level:code, printed lines, value); "
                       "family C: every nular operator of the registry and every unary one with a simple argument of its registered type that returns an ARRAY / HASHMAP "
                       "(discovered on this run; time/random and control operators excepted): Q edits the returned container in place, P prints the operator's result, four modes; "
                       "family O: words that are operators only in a full instance (registry(full) minus registry(basic), from the dumps of this run): P uses the word as a variable "
                       "in a basic / empty instance while Q uses it as an operator in a full one, and the reverse, four modes; "
                       "family E: Q leaves C-library state behind on the thread (errno from overflowing ^ / exp / parseNumber / a config literal, floating-point flags from divisions by zero and overflows), "
                       "P in a fresh instance loads a config with decimal / hex numbers and arrays and reads them back, and prints arithmetic results; "
                       "family N (number -> text): programs that start by choosing their print mode (unary toFixed m, m in -1..20 and out of range) and then turn floats into text on "
                       "every route - x toFixed n, str, format, joinString, string +, call, count / toArray of the text, apply, diag_log of scalars and arrays, array and hashmap elements, "
                       "the printed value - with literals that are the exact expansion of a float; sweep: every route x every text length 1..61 (sign + up to 39 digits + point + up to 20 "
                       "decimals), then random magnitudes 1e-45..FLT_MAX, ties, powers of two and ten, decimals out of range; oracle 1: the whole record equals the one the generator "
                       "computes (%.nf / %g of the float); oracle 2: P alone in two processes, after Q, after itself, beside Q give the same bytes (Q: other numbers through binary toFixed); "
                       "family R (re-entrancy, one thread): candidates = the registry-wide operand sweep of checks/C09.py (one case per signature) plus string-building operators with "
                       "out-of-range / missing arguments, each run alone; those that return a value and emit a non-error diagnostic before it are paired (same operator with "
                       "other operands, another operator): instance B runs Q inside the log callback of instance A at A's k-th diagnostic of P; A's record must equal P alone, "
                       "B's record Q alone; the concurrent case of family A is demanded only where the footprints cannot meet (partial); "
                       "family K (instances of the C API, implementation-only metamorphic oracle from the property text - the Coq model has no C API): histories of sqfvm_create_instance"
                       "[_basic|_empty] / sqfvm_call (types s, a, p, 1, invalid) / sqfvm_load_config / sqfvm_status / sqfvm_destroy_instance on 2-3 instances in one process; pool = calls that end "
                       "in every documented way (0, -2, -3, -5, -6) and deliver records while preprocessing, parsing, executing, as RESULT record, while loading a config (discovered on this "
                       "run); every call of the pool x every script of another instance (single calls, and scripts whose later calls read globals / config / defines / scripts their earlier "
                       "calls left in that instance) x record positions: the other instance is used one after the other, from inside the log callback on the same thread, on a thread started "
                       "and joined there, created and destroyed there, with its script split before / inside / after the call or over two records; three instances on two levels; never an op "
                       "on an instance that is itself inside a call; the transcript of every instance (return values, every record with its call_data and severity, records attributed by "
                       "user_data) must equal the transcript of its own ops run in a process where no other instance exists (each such projection run twice, in two processes)")
    run.cov["input_distribution"] = dist
    run.cov["samples"] = samples
    run.cov["statics"] = sorted(st["where"])
    run.cov["trusted_base"] = ["Coq 8.16.1 kernel", "ExtrOcamlBasic extraction + ocaml/api_driver.ml", "harness/h_api.cpp (several VMs and threads in one process)", "harness/h_c20api.cpp (histories of C API calls, nested through the log callback)",
                               "translators/statics.py: nm on the objects; the classification of each static (Mode / Registry / Scratch / Constant) in API/IsoDefs.v is read off the source, not proved",
                               "programs of vmcommon.Gen are taken to touch no process state (they use no toFixed / __COUNTER__)"]
    confirm_concurrent(run, replay)
    return run.finish()
