"""C06, code half: code round-trips through str / compile, and the pretty printer emits text that compiles to the
same instructions as its input.  Used by checks/C06.py:  counts = C06_code.run_part(run)  adds violations and
coverage to the given V.Run and returns a dict of counts."""
import json, os
import vcommon as V
import syntaxcommon as S

PID = "C06"


def run_part(run, replay=None):
    rng = run.rng
    thorough = run.tier == "thorough"
    ctx = S.setup(run)
    gen = S.Gen(rng, ctx.pools)
    cases = []      # {"kind", "text"}

    def add(kind, ss, red, tight, plain=False):
        cases.append({"kind": kind, "text": S.render(ss, rng, red, tight, plain).encode("latin-1"), "ss": ss})

    if replay and replay.get("part") == "code":
        cases.append({"kind": replay.get("kind", "replay"), "text": V.unhx(replay["text_hex"]), "ss": None})
    elif replay:
        return {}
    else:
        cdir = os.path.join(V.VERIF, "corpus", "C06")
        if os.path.isdir(cdir):
            for fn in sorted(os.listdir(cdir)):
                if fn.startswith("code") and fn.endswith(".json"):
                    r = json.load(open(os.path.join(cdir, fn)))
                    cases.append({"kind": "corpus:" + fn, "text": V.unhx(r["text_hex"]), "ss": None})
        v = lambda n: ("var", n)
        n = lambda t: ("num", t)
        fixed = [
            [("expr", ("bin", 6, "*", ("bin", 5, "+", v("a"), v("b")), v("c")))],
            [("expr", ("bin", 5, "-", v("a"), ("bin", 5, "-", v("b"), v("c"))))],
            [("expr", ("un", "-", ("bin", 5, "+", n("1"), n("2"))))],
            [("expr", ("un", "-", ("hex", "0x10")))], [("expr", ("un", "-", ("un", "+", n("5"))))], [("expr", ("un", "+", ("un", "+", n("5"))))],
            [("expr", ("un", "-", ("un", "-", n("5"))))], [("expr", ("un", "abs", ("un", "-", n("5"))))], [("expr", ("un", "-", n("0")))],
            [("assign", "x", ("bin", 5, "+", n("1"), n("2")))], [("local", "_y", ("arr", [n("1"), ("bin", 5, "+", n("2"), n("3"))]))],
            [("expr", ("code", []))], [("expr", ("code", [("expr", ("code", [("expr", v("a"))]))]))],
            [("expr", ("un", "if", ("un", "!", v("a"))))], [("expr", ("un", "!", ("bin", 1, "&&", v("a"), v("b"))))],
            [("expr", ("bin", 3, "then", ("un", "if", ("bin", 2, ">", v("a"), n("1"))), ("code", [("expr", v("a"))])))],
            [("expr", ("str", "'it''s'")), ("expr", ("str", '"a""b"')), ("expr", ("true", "TRUE"))],
            [("expr", ("hex", "$ff")), ("expr", ("num", ".5")), ("expr", ("num", "1e3"))],
            [], [("expr", v("a")), ("expr", v("b"))],
        ]
        for i, ss in enumerate(fixed):
            add("fixed:%d" % i, ss, 0.0, 0.0, plain=True)
        for i in range(4000 if thorough else 700):
            depth = rng.choice([2, 3, 3, 4, 4, 5, 6])
            ss = gen.stmts(depth, rng.choice([1, 1, 2, 3]))
            add("random:d%d" % depth, ss, rng.choice([0.0, 0.0, 0.2]), rng.choice([0.0, 0.3]))

    texts = [c["text"] for c in cases]
    impl_s, model_s = S.run_both(ctx, [("S", t) for t in texts])
    impl_p, model_p = S.run_both(ctx, [("P", t) for t in texts])
    impl_a, model_a = S.run_both(ctx, [("A", t) for t in texts])

    n_rt = n_pp = 0
    distinct = set()
    samples = []
    for i, c in enumerate(cases):
        rep = {"part": "code", "kind": c["kind"], "text_hex": S.hx(c["text"]), "text": c["text"].decode("latin-1")}
        # ---------------- str / compile
        fi = impl_s[i].split("\t")
        rep.update({"impl": impl_s[i], "model": model_s[i]})
        if S.bad_outcome(impl_s[i]):
            run.violation("str/compile of code did not return: " + impl_s[i].replace("\t", " "), rep)
        elif fi[0] == "OK" and len(fi) == 5:
            l1, shex, l2, eq = S.tidy(fi[1]), fi[2], S.tidy(fi[3]), fi[4]
            rep["str_text"] = V.unhx(shex).decode("latin-1")
            n_rt += 1
            if l1 != l2 or eq != "1":
                run.violation("compile (str code) is not instruction-for-instruction equal to the code", rep)
            else:
                distinct.add(l1)
                fm = model_s[i].split("\t")
                if fm[0] == "OK" and len(fm) == 3:
                    mtext = S.canon_model_text(V.unhx(fm[2])) if fm[2] != "NONE" else b"NONE"
                    if mtext != V.unhx(shex):
                        rep["model_str_text"] = mtext.decode("latin-1")
                        rep["broken"] = "correspondence SyntaxDefs.reconstruct vs instruction::reconstruct / d_code::to_string_sqf"
                        run.violation("model of str {code} prints a different text (round trip itself is fine)", rep, found_input=False)
                    elif S.tidy(S.canon_model_listing("OK\t" + fm[1])[3:]) != l1:
                        rep["broken"] = "correspondence SyntaxDefs.compile_block vs to_assembly"
                        run.violation("model and implementation compile the code differently", rep, found_input=False)
                elif model_s[i] != "UNSUPPORTED":
                    rep["broken"] = "model rejects a text the implementation compiles"
                    run.violation("model and implementation disagree on accepting the code", rep, found_input=False)
        elif impl_s[i] == "PARSEERROR":
            if model_s[i] not in ("PARSEERROR", "UNSUPPORTED"):
                rep["broken"] = "implementation rejects a text the model compiles"
                run.violation("model and implementation disagree on accepting the code", rep, found_input=False)
        # ---------------- pretty printer
        fp = impl_p[i].split("\t")
        rep2 = dict(rep); rep2.update({"impl": impl_p[i], "model": model_p[i], "impl_listing": impl_a[i]})
        if S.bad_outcome(impl_p[i]):
            run.violation("pretty printer did not return: " + impl_p[i].replace("\t", " "), rep2)
        elif fp[0] == "OK" and len(fp) == 3 and impl_a[i].startswith("OK\t"):
            n_pp += 1
            rep2["pretty_text"] = V.unhx(fp[1]).decode("latin-1")
            if S.tidy(fp[2]) != S.tidy(impl_a[i][3:]):
                run.violation("pretty-printed text compiles to a different instruction sequence than its input", rep2)
            else:
                fm = model_p[i].split("\t")
                if fm[0] == "OK" and len(fm) == 2 and V.unhx(fm[1]) != V.unhx(fp[1]):
                    rep2["model_pretty_text"] = V.unhx(fm[1]).decode("latin-1")
                    rep2["broken"] = "correspondence SyntaxDefs.pretty_program vs sqf_formatter.cpp"
                    run.violation("model of the pretty printer prints a different text (round trip itself is fine)", rep2, found_input=False)
        if len(samples) < 4 and c["kind"].split(":")[0] not in [s["kind"].split(":")[0] for s in samples]:
            samples.append({"kind": c["kind"], "text": rep["text"][:200], "str": rep.get("str_text", "")[:200]})
    for p in ctx.problems:
        run.violation("broken tie: " + p, {"broken": p}, found_input=False)
    run.cov.setdefault("parts", {})["code"] = {
        "cases": len(cases), "str_compile_roundtrips": n_rt, "pretty_roundtrips": n_pp, "distinct_listings": len(distinct),
        "rule": "code bodies = the C01 tree generator (all operator classes, arrays, nested code, assignments, signs on numbers and hex "
                "literals) printed minimally / redundantly; oracle: assembly of compile(str code) equals assembly of the code and "
                "isEqualTo holds, assembly of the pretty-printed text equals assembly of the input; model texts compared as well",
        "samples": samples}
    return {"evaluations": 3 * len(cases), "distinct_nontrivial": len(distinct), "str_compile_roundtrips": n_rt, "pretty_roundtrips": n_pp}
