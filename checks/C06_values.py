"""C06, value half: `str` of booleans, strings, numbers and nested arrays compiles back to an equal value,
and numeric/string literals denote what they spell.  Exposes run_part(run): adds violations, coverage and
samples to the V.Run of the assembled check (checks/C06.py) and returns a dict of counts.

Three layers per case:
  1. oracle (the property itself): for a printable value v, (call compile str v) isEqualTo v and the recompiled
     value is v again; for a literal text built by the generator the value is the nearest binary32 of the spelled
     decimal / hex integer (exact rational arithmetic in Python, independent of model and libc), the unescaped string,
     the listed elements;
  2. correspondence: harness/h_num.cpp (real printers, tokenizer, parser, VM) against the extracted Coq model
     (coq/Num/NumDefs.v through ocaml/num_driver.ml), text for text and bit for bit;
  3. libc sweep (SWEEP lines): every sampled 6-digit decimal survives strtof -> "%g" -> strtof; supports the model of
     libc (strtof/strtod/snprintf are trusted to be correctly rounded), it is a sweep and not a theorem."""
import json, os, struct
from fractions import Fraction
import vcommon as V

PID = "C06"
KEY_STOD = "literal-stod-cast"     # known_findings.txt key for the stod+(float) defect (sqf_parser.cpp:125)
# The model has a second switch, d_kw_prefix (keyword prefix accepted at end of input, tokenizer.hpp:106-119). That
# defect belongs to C01; texts where it matters are outside C06, so either keyword rule is accepted silently and the
# observed one is counted in coverage["keyword_rule_observed"].


# ------------------------------------------------------------------ exact binary32 arithmetic (oracle)
def nearest32(fr):
    """bits of the binary32 nearest to the non-negative Fraction fr (ties to even); 0x7f800000 on overflow"""
    if fr == 0:
        return 0
    e = fr.numerator.bit_length() - fr.denominator.bit_length()
    if Fraction(2) ** e > fr:
        e -= 1                                   # 2^e <= fr < 2^(e+1)
    ex = max(e - 23, -149)
    q = fr / (Fraction(2) ** ex)
    n = q.numerator // q.denominator
    rem = q - n
    if rem > Fraction(1, 2) or (rem == Fraction(1, 2) and n % 2 == 1):
        n += 1
    if n == 1 << 24:
        n >>= 1
        ex += 1
    if ex > 104:
        return 0x7f800000
    if n < 1 << 23:
        return n
    return ((ex + 150) << 23) + (n - (1 << 23))


def f_of_bits(b):
    return struct.unpack("<f", struct.pack("<I", b))[0]


def frac_of_bits(b):
    b &= 0x7fffffff
    ex, fr = b >> 23, b & 0x7fffff
    if ex == 0:
        return Fraction(fr, 1 << 149)
    return Fraction(fr + (1 << 23)) * Fraction(2) ** (ex - 150)


def round6(b):
    """the 6-significant-digit decimal nearest to |binary32 b| (ties to even), as a Fraction"""
    fr = frac_of_bits(b)
    if fr == 0:
        return fr
    x = 0
    while Fraction(10) ** (x + 1) <= fr:
        x += 1
    while Fraction(10) ** x > fr:
        x -= 1
    scale = Fraction(10) ** (x - 5)
    q = fr / scale
    n = q.numerator // q.denominator
    rem = q - n
    if rem > Fraction(1, 2) or (rem == Fraction(1, 2) and n % 2 == 1):
        n += 1
    return n * scale


def printable_bits(b):
    """Appendix B of DESIGN.md: finite and nearest32(round6 x) = x"""
    if (b >> 23) & 0xff == 0xff:
        return False
    return nearest32(round6(b)) == (b & 0x7fffffff)


# ------------------------------------------------------------------ value encoding shared with driver and harness
def enc(v):
    if isinstance(v, bool):
        return "B1" if v else "B0"
    if isinstance(v, bytes):
        return "S" + V.hx(v)
    if isinstance(v, int):
        return "N%08x" % v
    return " ".join(["A%d" % len(v)] + [enc(x) for x in v])


def printable(v):
    if isinstance(v, bool) or isinstance(v, bytes):
        return True
    if isinstance(v, int):
        return printable_bits(v)
    return all(printable(x) for x in v)


# ------------------------------------------------------------------ generators
SPECIAL = [34, 39, 10, 13, 9, 92, 59, 47, 42, 35, 123, 125, 91, 93, 44, 32, 255, 128, 1, 127]


def rand_string(rng, maxlen=24):
    n = rng.choice([0, 1, 2, 3, 5, 8, maxlen])
    out = bytearray()
    for _ in range(n):
        r = rng.random()
        if r < 0.35:
            out.append(rng.choice(SPECIAL))
        elif r < 0.5:
            out += bytes([34]) * rng.choice([1, 2, 3])
        else:
            out.append(rng.randint(1, 255))
    return bytes(out)


def dec6_bits(rng):
    """binary32 nearest to a random decimal of 1..6 significant digits"""
    m = rng.randint(1, 10 ** rng.randint(1, 6) - 1)
    e = rng.randint(-43, 32)
    b = nearest32(Fraction(m) * Fraction(10) ** e)
    if b >= 0x7f800000:
        b = 0x7f7fffff
    return b | (0x80000000 if rng.random() < 0.3 else 0)


BOUNDARY_DECIMALS = ["0", "1", "10", "100000", "999999", "1000000", "999999.5", "9999995", "0.0001", "0.00001", "0.000099999",
                     "0.0000999995", "123456", "1234560", "0.5", "0.1", "0.3", "16777216", "100", "1e10", "1e-10", "1.5e38",
                     "3.40282e38", "1.17549e-38", "1e-37", "9.99999e37", "1e38", "1e-5", "1e-4", "1e5", "1e6", "1e7", "65536",
                     "4294970000", "0.000123456", "999999e30", "100001e-40", "2.5", "0.25", "7e-45", "1e-45", "1.4e-45"]


def rand_leaf(rng):
    r = rng.random()
    if r < 0.2:
        return rng.random() < 0.5
    if r < 0.55:
        return rand_string(rng, 10)
    return dec6_bits(rng)


def rand_tree(rng, depth):
    if depth == 0 or rng.random() < 0.3:
        return rand_leaf(rng)
    return [rand_tree(rng, depth - 1) for _ in range(rng.choice([0, 1, 2, 3, 5]))]


def spell_number(rng, digits, point, exp):
    """text of the decimal  digits * 10^(exp - (len(digits) - point))  in one of the token shapes"""
    ip, fp = digits[:point], digits[point:]
    t = ip
    if fp or (not ip):
        t += "." + (fp or "0")
    if exp != 0 or rng.random() < 0.2:
        t += rng.choice("eE") + (rng.choice(["", "+"]) if exp >= 0 else "-") + ("0" * rng.choice([0, 0, 1])) + str(abs(exp))
    return t


def rand_literal(rng):
    """(text, expected Fraction) of a random decimal literal"""
    nd = rng.choice([1, 2, 3, 6, 7, 8, 9, 10, 17, 25, 40])
    digits = "".join(rng.choice("0123456789") for _ in range(nd))
    point = rng.randint(0, nd)
    exp = rng.choice([0, 0, 0, rng.randint(-50, 45), rng.randint(-12, 12)])
    if point == 0 and rng.random() < 0.5:
        pass                                      # leading-dot form
    elif point == 0:
        digits, point = "0" + digits, 1
    text = spell_number(rng, digits, point, exp)
    val = Fraction(int(digits)) * Fraction(10) ** (exp - (len(digits) - point))
    return text, val


def midpoint_literal(rng):
    """a decimal a hair above/below the midpoint of two adjacent binary32 values: the place where rounding to
    binary64 first lands exactly on the midpoint"""
    b = rng.randint(0x00800000, 0x7f000000) if rng.random() < 0.7 else rng.randint(0x3f000000, 0x40800000)
    lo, hi = frac_of_bits(b), frac_of_bits(b + 1)
    mid = (lo + hi) / 2
    eps = (hi - lo) / Fraction(2) ** rng.choice([31, 40, 60])     # below half an ulp of binary64
    val = mid + eps if rng.random() < 0.5 else mid - eps
    # exact decimal expansion (denominator is a power of two)
    k = 0
    d = val.denominator
    while d % 2 == 0:
        d //= 2
        k += 1
    assert d == 1
    n = val.numerator * 5 ** k                    # val = n / 10^k
    s = str(n)
    if len(s) <= k:
        s = "0" * (k - len(s) + 1) + s
    text = s[:len(s) - k] + "." + s[len(s) - k:] if k else s
    return text, val


def unparse(rng, v):
    """SQF text of a value with random layout, quote style and spelling; returns (text, expected encoding)"""
    ws = lambda: rng.choice(["", "", " ", "  ", "\t", "\n", "\r\n"])
    if isinstance(v, bool):
        t = "true" if v else "false"
        return "".join(c.upper() if rng.random() < 0.2 else c for c in t), enc(v)
    if isinstance(v, bytes):
        q = rng.choice([b'"', b"'"])
        return (q + v.replace(q, q + q) + q).decode("latin-1"), enc(v)
    if isinstance(v, tuple):                       # ("num", text, Fraction, negative)
        _, text, val, neg = v
        b = nearest32(val)
        if neg:
            b |= 0x80000000
        return ("-" + ws() if neg else "") + text, "N%08x" % b
    parts = [unparse(rng, x) for x in v]
    return "[" + ws() + ("," + ws()).join(ws() + p[0] + ws() for p in parts) + "]", " ".join(["A%d" % len(v)] + [p[1] for p in parts])


def rand_lit_tree(rng, depth):
    if depth == 0 or rng.random() < 0.35:
        r = rng.random()
        if r < 0.15:
            return rng.random() < 0.5
        if r < 0.4:
            s = rand_string(rng, 8)
            return s
        text, val = rand_literal(rng)
        return ("num", text, val, rng.random() < 0.3)
    return [rand_lit_tree(rng, depth - 1) for _ in range(rng.choice([0, 1, 2, 3]))]


def overflowing(tree_enc):
    return "N7f800000" in tree_enc or "Nff800000" in tree_enc


# ------------------------------------------------------------------ the part
def run_part(run, replay=None):
    rng = run.rng
    thorough = run.tier == "thorough"
    himpl = V.build_harness("h_num", "asan" if thorough else "plain")
    drv = V.ocaml_driver("num")
    known = run.known.has(PID, KEY_STOD)

    cases = []       # dict(kind, line, oracle)   oracle: None | ("rt", enc) | ("lit", enc)

    def add_rt(kind, v):
        cases.append({"kind": kind, "line": "RT\t" + enc(v), "oracle": ("rt", enc(v)) if printable(v) else None})

    def add_lit(kind, text, expected):
        if isinstance(text, str):
            text = text.encode("latin-1")
        cases.append({"kind": kind, "line": "LIT\t" + V.hx(text), "oracle": ("lit", expected) if expected else None})

    def add_fmt(kind, b):
        cases.append({"kind": kind, "line": "FMT\t%08x" % b, "oracle": None})

    if replay:
        cases.append({"kind": replay.get("kind", "replay"), "line": replay["line"],
                      "oracle": tuple(replay["oracle"]) if replay.get("oracle") else None})
    else:
        cdir = os.path.join(V.VERIF, "corpus", PID)
        if os.path.isdir(cdir):
            for fn in sorted(os.listdir(cdir)):
                if fn.startswith("values_") and fn.endswith(".json"):
                    r = json.load(open(os.path.join(cdir, fn)))
                    cases.append({"kind": "corpus:" + fn, "line": r["line"], "oracle": tuple(r["oracle"]) if r.get("oracle") else None})
        # --- strings: every non-NUL byte alone and embedded, then random strings
        for c in range(1, 256):
            add_rt("string-byte", bytes([c]))
            add_rt("string-byte-embedded", b"a" + bytes([c]) + b"b" + bytes([c]))
        add_rt("string-empty", b"")
        for i in range(3000 if thorough else 300):
            add_rt("string-random", rand_string(rng, 40))
        # --- booleans
        add_rt("bool", True)
        add_rt("bool", False)
        # --- numbers: boundaries of the six-digit form, both signs of zero, style switches, random 6-digit decimals,
        #     random bit patterns (not printable in general: correspondence only)
        for d in BOUNDARY_DECIMALS:
            b = nearest32(Fraction(d))
            for bb in (b, b | 0x80000000, max(b - 1, 0), min(b + 1, 0x7f7fffff)):
                add_rt("number-boundary", bb)
        for b in (0x00000001, 0x007fffff, 0x00800000, 0x7f7fffff, 0x3f800000, 0x3f7fffff, 0x3f800001, 0x80000000, 0x00000000):
            add_rt("number-boundary", b)
        for ex in range(-44, 39):
            for m in ("1", "9.99999", "1.00001", "5", "9.999995", "9.9999949"):
                b = nearest32(Fraction(m) * Fraction(10) ** ex)
                if b < 0x7f800000:
                    add_rt("number-decade", b)
        for i in range(4000 if thorough else 400):
            add_rt("number-dec6", dec6_bits(rng))
        for i in range(20000 if thorough else 1500):
            b = rng.randint(0, 0x7f7fffff) | (0x80000000 if rng.random() < 0.5 else 0)
            add_fmt("fmt-random-bits", b)
        for i in range(2000 if thorough else 200):
            b = rng.randint(0, 0x7f7fffff) | (0x80000000 if rng.random() < 0.5 else 0)
            add_rt("number-random-bits", b)
        # infinities and NaN print as identifiers: outside the property, correspondence of the text only
        for b in (0x7f800000, 0xff800000, 0x7fc00000):
            add_fmt("fmt-nonfinite", b)
        # --- nested arrays
        add_rt("array", [])
        add_rt("array", [[]])
        add_rt("array", [[], [[]], []])
        for i in range(1500 if thorough else 200):
            add_rt("array-random", [rand_tree(rng, 3) for _ in range(rng.choice([0, 1, 2, 4]))])
        # --- literals: decimal, exponent, leading dot, hex, strings in both quote styles, arrays with layout
        for i in range(6000 if thorough else 700):
            text, val = rand_literal(rng)
            b = nearest32(val)
            add_lit("literal-decimal", text, "N%08x" % b)
        for i in range(1500 if thorough else 150):
            text, val = midpoint_literal(rng)
            add_lit("literal-midpoint", text, "N%08x" % nearest32(val))
        for t in ["1.00000005960464477539062500000001", "1e-320", "4.9406564584124654e-324", "2.2250738585072014e-308",
                  "2.2250738585072011e-308", "1e-400", "7e-46", "7.1e-46", "1e-45", "0.0", "0", "0e5", ".0", "000.5", "1e0", "1E3",
                  "3.4028235e38", "3.4028234e38", "340282350000000000000000000000000000000",
                  "16777217", "16777219", "9007199791611905", "0.1", ".1", "1.e1"]:
            if t == "1.e1":
                continue                            # "1." is not one token (the dot is given back): not a literal
            add_lit("literal-special", t, "N%08x" % nearest32(Fraction(t)))
        for t in ["1e39", "3.4028236e38", "1e400", "1e309", "179769313486231590000e289"]:
            add_lit("literal-overflow", t, "N7f800000")
        for i in range(1500 if thorough else 200):
            nd = rng.choice([1, 2, 4, 6, 7, 8, 9, 12, 15, 16])
            hd = "".join(rng.choice("0123456789abcdefABCDEF") for _ in range(nd))
            if nd == 16 and int(hd, 16) >= 1 << 63:
                hd = "7" + hd[1:]
            pre = rng.choice(["$", "0x"])
            add_lit("literal-hex", pre + hd, "N%08x" % nearest32(Fraction(int(hd, 16))))
        for t in ["$FF", "0xff", "$0", "0x0", "$FFFFFF", "$1000001", "$1000003", "$7FFFFFFFFFFFFFFF", "0x7fffffbfffffffff", "$ffffffff"]:
            add_lit("literal-hex", t, "N%08x" % nearest32(Fraction(int(t.replace("$", "0x"), 16))))
        for t in ["$8000000000000000", "0xFFFFFFFFFFFFFFFFF"]:
            add_lit("literal-hex-overflow", t, None)     # stol throws: NaN + warning; correspondence only
        for i in range(1500 if thorough else 250):
            text, expected = unparse(rng, rand_lit_tree(rng, 3))
            add_lit("literal-tree", (rng.choice(["", " ", "\n"]) + text + rng.choice(["", " ", "\r\n"])), expected)
        # tokenizer corners of this sublanguage (correspondence only)
        for t in ["1e+", "1e", "1.5e-", "tr", "TRUE", "fal", "'abc", '"abc', '"', "'", "[1,2", "[1,,2]", "[,]", "1.", ".", "$", "0x", "$g",
                  "- 5", "-$ff", "--5", "[- 1,-2]", "true1", "1true", "''''", '""""', "'\"'", '"\'"', "[1] ", " [ ] ", "1e5e5", "1.2.3"]:
            add_lit("literal-corner", t, None)
        # --- libc sweep: a sample of the 6-digit mantissas at every decimal exponent (all of them in the thorough tier)
        step = 1 if thorough else 53
        for e in range(-50, 34):
            off = 0 if thorough else rng.randint(0, step - 1)
            cases.append({"kind": "sweep", "line": "SWEEP\t%d\t%d\t%d\t%d\t%d" % (e, e, 100000 + off, 1000000, step), "oracle": None})

    lines = [c["line"] for c in cases]
    rc, impl, err = V.run_lines_parallel([himpl], lines, timeout=7200)
    mlines = [l for l in lines if not l.startswith("SWEEP")]
    rc2, model, err2 = V.run_lines_parallel([drv], mlines, timeout=7200)
    mit = iter(model)

    kinds, distinct, samples = {}, set(), []
    fmt_pairs = []
    swept = 0
    nviol0 = len(run.violations)

    def attributable(impl_res, m_rep, m_asis, expected_ok):
        """the implementation does what the faithful model (as_is) does, and with the switch off the model meets the spec"""
        return impl_res == m_asis and m_asis != m_rep and expected_ok

    for c, il in zip(cases, impl):
        kind = c["kind"].split(":")[0]
        kinds[kind] = kinds.get(kind, 0) + 1
        cmd = c["line"].split("\t")[0]
        rep = {"part": "values", "kind": c["kind"], "line": c["line"], "oracle": c["oracle"], "impl": il}
        f = il.split("\t")
        if cmd == "SWEEP":
            if f[0] != "SWEEP":
                run.violation("libc sweep did not run: " + il, rep, found_input=False)
                continue
            swept += int(f[1])
            if int(f[2]) != 0:
                rep["first_failure"] = V.unhx(f[3]).decode("latin-1")
                rep["broken"] = "libc sweep behind dec6_survives / the strtof+printf model"
                run.violation("a 6-digit decimal does not survive strtof -> %%g -> strtof on this libc (%s failures, first: %s)"
                              % (f[2], rep["first_failure"]), rep)
            continue
        ml = next(mit)
        rep["model"] = ml
        m = ml.split("\t")
        if f[0] in ("CRASH", "TIMEOUT", "OOM", "EXCEPTION", "EXIT", "HARNESS-LOST", "LOADFAIL", "BADLINE") or m[0].startswith("BADLINE"):
            run.violation("printing/compiling a value ended abnormally: " + " ".join(f[:2]), rep)
            continue
        if len(samples) < 8 and kind not in [s["kind"] for s in samples] and kind != "corpus":
            samples.append({"kind": kind, "line": c["line"][:200], "impl": il[:200], "model": ml[:200]})
        if cmd == "FMT":
            distinct.add(c["line"])
            fmt_pairs.append((c["line"].split("\t")[1], m[0]))
            if f[0] != m[0]:
                rep["broken"] = "correspondence NumDefs.fmt_g6 vs d_scalar::to_string_sqf"
                run.violation("number printed differently from the model", rep, found_input=False)
            continue
        if cmd == "RT":
            text_i, res_i, eq_i, diag_i = f[0], f[1], f[2], f[3]
            text_m, rep_m, asis_m = m[0], m[1], m[2]
            distinct.add(c["line"])
            if c["oracle"]:
                want = "OK " + c["oracle"][1]
                if rep_m != want:
                    rep["broken"] = "model: read_all repaired (str_value v) <> v for a printable v (theorem C06_value_roundtrip)"
                    run.violation("MODEL does not round-trip a printable value (machinery bug)", rep, found_input=False)
                if eq_i != "true" or res_i != want or diag_i != "-":
                    if attributable(res_i, rep_m, asis_m, rep_m == want) and text_i == text_m:
                        if known:
                            run.known_finding(KEY_STOD)
                        else:
                            run.violation("(call compile str v) is not v (number literal converted through double)", rep)
                    else:
                        run.violation("(call compile str v) isEqualTo v fails or yields a different value", rep)
                    continue
            if text_i != text_m:
                rep["broken"] = "correspondence NumDefs.str_value vs to_string_sqf of d_string/d_scalar/d_array/d_boolean"
                run.violation("str text differs from the model", rep, found_input=False)
            elif res_i not in (rep_m, asis_m):
                rep["broken"] = "correspondence NumDefs.read_all vs tokenizer+parser+VM on the printed text"
                run.violation("recompiled value differs from the model", rep, found_input=False)
            continue
        if cmd == "LIT":
            res_i, warn_i = ("FAIL" if f[0].startswith("FAIL") else f[0]), f[1]
            # model under the four settings (stod rule?, keyword-prefix rule?): repaired, as_is, and the two mixed ones
            order = [(False, False), (True, True), (False, True), (True, False)]
            cand = {}
            for key, fld in zip(order, m):
                r_, w_ = fld.rsplit("|", 1)
                cand[key] = (r_, w_)
            matches = [k for k in order if res_i == cand[k][0] and (cand[k][1] == "-" or warn_i == cand[k][1])]
            rep_m = cand[(False, False)][0]
            nontrivial = rep_m.startswith("OK")
            distinct.add((c["line"], nontrivial))
            text = V.unhx(c["line"].split("\t")[1]).decode("latin-1")
            if c["oracle"]:
                want = "OK " + c["oracle"][1]
                ovf = overflowing(want)
                meets = lambda r: r == want or (ovf and "Nnan" in r)
                ok_i = res_i == want or (ovf and "Nnan" in res_i and warn_i == "1")
                if not meets(rep_m):
                    rep["broken"] = "model: lit_num repaired <> nearest binary32 of the spelled number (theorem C06_literal_value)"
                    run.violation("MODEL does not give a literal the value it spells (machinery bug)", rep, found_input=False)
                if not ok_i:
                    rep["text"] = text
                    # the implementation does what the model with the stod switch on does, and with only that switch
                    # off the model meets the spec
                    if any(k[0] and meets(cand[(False, k[1])][0]) and cand[k][0] != cand[(False, k[1])][0] for k in matches):
                        if known:
                            run.known_finding(KEY_STOD)
                        else:
                            run.violation("a literal does not evaluate to the nearest single-precision value of what it spells "
                                          "(stod then conversion to float)", rep)
                    else:
                        run.violation("a literal does not evaluate to the value it spells", rep)
                    continue
            if all(cand[k][0] == "FAIL" for k in order) and not c["oracle"]:
                continue        # the model makes no claim: text outside the value sublanguage (or a syntax error)
            # correspondence: the implementation is the model under one setting of the switches, with the same warning
            if not matches:
                rep["broken"] = "correspondence NumDefs.read_all/lit_num/lit_hex vs tokenizer + sqf_parser.cpp to_assembly + VM"
                run.violation("literal evaluates differently from the model", rep, found_input=False)
            elif all(k[0] for k in matches) and c["oracle"] is None:
                # no oracle for this text and the implementation follows the stod rule where the rules differ
                if known:
                    run.known_finding(KEY_STOD)
                else:
                    rep["text"] = text
                    run.violation("literal handled by the stod+cast rule", rep)
            else:
                kwobs = run.cov.setdefault("keyword_rule_observed", {})
                if not any(k == (False, False) or k == (True, False) for k in matches):
                    kwobs["prefix"] = kwobs.get("prefix", 0) + 1      # only the unrepaired keyword rule explains this case
            continue

    n = len(cases) - kinds.get("sweep", 0)
    # the extracted printer against the kernel: a sample of this run's FMT cases evaluated inside Coq must equal the driver's output
    if fmt_pairs and not replay:
        smp = run.rng.sample(fmt_pairs, min(len(fmt_pairs), 40))
        body = "\n".join("Example k%d : fmt_g6 (decode32 %d) = [%s]. Proof. vm_compute. reflexivity. Qed."
                         % (i, int(bits, 16), ";".join(str(x) for x in V.unhx(hexs))) for i, (bits, hexs) in enumerate(smp))
        okk, msg = V.kernel_crosscheck("C06_num", "From Coq Require Import ZArith List. Import ListNotations.\nFrom SqfVerif Require Import Num.NumDefs.\nLocal Open Scope Z_scope.", body)
        run.cov["kernel_crosscheck"] = {"cases": len(smp), "agree": okk,
                                        "what": "NumDefs.fmt_g6 (decode32 bits) evaluated by vm_compute inside Coq = output of the extracted OCaml driver"}
        if not okk:
            run.violation("the extracted number printer and the kernel's evaluation of NumDefs.fmt_g6 disagree (or the kernel file does not compile)",
                          {"broken": "extraction / ocaml/num_driver.ml vs Num/NumDefs.v", "coqc": msg}, found_input=False)
    run.cov["evaluations"] = run.cov.get("evaluations", 0) + n + swept
    run.cov["distinct_nontrivial"] = run.cov.get("distinct_nontrivial", 0) + len(distinct)
    dist = run.cov.setdefault("input_distribution", {})
    for k, v in kinds.items():
        dist["values:" + k] = v
    run.cov.setdefault("samples", [])
    run.cov["samples"] += samples
    run.cov["libc_sweep_cases"] = swept
    rule = ("VALUES: every non-NUL byte as a one-char string and embedded twice, random strings rich in quotes/newlines/comment "
            "marks, both booleans, binary32 values at the six-digit/style boundaries of every decade, random <=6-digit decimals, "
            "random bit patterns, nested arrays (depth <= 4), decimal/exponent/leading-dot/hex literals of 1-40 digits incl. "
            "decimals next to binary32 midpoints, literal trees with random layout and quote style, tokenizer corners; a case is "
            "non-trivial when the model reads a value (not FAIL); distinct by input line; plus a libc sweep of 6-digit decimals "
            "(strtof -> %g -> strtof, (float)strtod = strtof), reported separately as libc_sweep_cases")
    run.cov["rule"] = (run.cov.get("rule", "") + " | " if run.cov.get("rule") else "") + rule
    tb = run.cov.setdefault("trusted_base", [])
    tb += ["values: glibc strtof/strtod/snprintf are assumed correctly rounded (model = Flocq rounding of the exact rational); "
           "supported by the sweep and by the exact-rational oracle in checks/C06_values.py",
           "values: conversion double->float beyond FLT_MAX is taken as IEEE (infinity), as GCC on x86-64 does",
           "values: ocaml/num_driver.ml, harness/h_num.cpp (fork per case of a process holding one constructed VM)"]
    return {"cases": n, "libc_sweep_cases": swept, "distinct": len(distinct), "kinds": kinds,
            "violations": len(run.violations) - nviol0, "known_finding_hits": run.known_hits.get(KEY_STOD, 0)}
