"""Stand-alone runner for the value half of C06 (development only, not registered in MANIFEST):
   cd /verif && bin/check C06v_dev [--tier thorough] [--replay file]
Re-checks coq/Num/Properties_C06_values.v (hygiene, Print Assumptions) and runs checks/C06_values.run_part."""
import json, os, re
import vcommon as V
import C06_values

VFILE = "Num/Properties_C06_values"


def prove_values(run):
    bad = ["forbidden declaration: " + b for b in V.coq_hygiene()]
    V.coq_makefile()
    src = open(os.path.join(V.COQ, VFILE + ".v")).read()
    declared = re.findall(r"^\s*Theorem\s+([A-Za-z0-9_']+)", src, re.M)
    printed = re.findall(r"Print Assumptions\s+([A-Za-z0-9_']+)", src)
    ok, out = V.coq_make([VFILE + ".vo"], 3000)
    if not ok:
        return bad + ["make %s.vo failed: %s" % (VFILE, out[-1500:])], declared, []
    with V.Lock("coq"):
        rc, out = V.sh("timeout 1500 coqc %s %s.v" % (V.coqproject_args(), VFILE), cwd=V.COQ, timeout=1600)
    if rc != 0:
        return bad + ["coqc %s.v failed: %s" % (VFILE, out[-1500:])], declared, []
    chunks = [c for c in re.split(r"(?m)^(?=Closed under the global context|Axioms:)", out)
              if c.startswith("Closed under") or c.startswith("Axioms:")]
    if len(chunks) != len(printed):
        bad.append("Print Assumptions count mismatch: %d outputs for %d commands" % (len(chunks), len(printed)))
    thms = []
    for name, c in zip(printed, chunks):
        if c.startswith("Closed"):
            thms.append((name, "closed"))
        else:
            axs = [a for a in re.findall(r"^([A-Za-z0-9_.']+)\s*:", c, re.M) if a != "Axioms"]   # skip the header line
            thms.append((name, ", ".join(axs)))
            for a in axs:
                if a not in V.ALLOWED_AXIOMS and a.split(".")[-1] not in V.ALLOWED_AXIOMS:
                    bad.append("theorem %s depends on non-whitelisted axiom %s" % (name, a))
    for t in declared:
        if t not in printed:
            bad.append("theorem %s has no Print Assumptions" % t)
    return bad, declared, thms


def main(replay=None):
    run = V.Run("C06", "proof")
    problems, declared, thms = prove_values(run)
    run.cov["obligations"] = max(len(declared), 1)
    run.cov["discharged"] = len([t for t in declared if t in [n for n, a in thms]]) if not problems else 0
    run.cov["theorems"] = [{"name": n, "assumptions": a} for n, a in thms]
    run.cov["checker_cmd"] = "cd /verif/coq && make -f Makefile.coq %s.vo && coqc -Q . SqfVerif %s.v" % (VFILE, VFILE)
    for n, a in thms:
        run.assumptions.append("Print Assumptions %s: %s" % (n, "Closed under the global context" if a == "closed" else a))
    rep = json.load(open(replay))["replay"] if replay else None
    counts = C06_values.run_part(run, rep)
    for p in problems:
        run.violation("proof obligation not discharged: " + p, {"broken": p, "theorems": run.cov["theorems"]}, found_input=False)
    run.notes.append("values part only: " + json.dumps(counts, sort_keys=True))
    rc = run.finish()
    src = os.path.join(V.VERIF, "evidence", "C06.json")       # keep the assembled check's file name free
    if os.path.exists(src):
        os.replace(src, os.path.join(V.VERIF, "evidence", "C06v_dev.json"))
    return rc
