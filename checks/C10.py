"""C10 - front ends are total: any byte string yields a result or an error diagnostic, never a crash,
a hang, an escaping exception or a read outside the buffer; the same input gives the same result."""
import glob, json, os, re, sys
import vcommon as V

PID = "C10"
ALL = "TOK,CTOK,RD,GW,PP,SQF,CFG,COMPILE,ASSEMBLY,PREPROCESS,CONFIGPARSE"
MODELLED = ("TOK", "CTOK", "RD", "GW", "DEF")
TWICE = "2xSQF,2xCFG,2xPP,2xCOMPILE,2xASSEMBLY,2xPREPROCESS,2xCONFIGPARSE"
LOST = ("CRASH", "TIMEOUT", "OOM", "EXCEPTION", "EXIT", "LOST", "HARNESS", "HARNESS-LOST", "BADLINE", "BADROUTE")
# parse-failure diagnostics of the routes reached from scripts (src/runtime/logging.h)
SQF_PARSE_ERROR, CFG_PARSE_ERROR = 30015, 40013
KNOWN_DEEP = "deep-nesting"
# nesting depths every recursive site must survive on the default stack / beyond which the recorded finding applies
DEPTH_MUST = [10, 100, 1000]
DEPTH_BEYOND = [10000]

MUT_TOKENS = [b"[", b"]", b"{", b"}", b"(", b")", b'"', b"'", b"//", b"/*", b"*/", b"#define X 1\n", b"#define F(", b"#include \"x\"\n",
              b"#ifdef X\n", b"#ifndef X\n", b"#else\n", b"#endif\n", b"#undef X\n", b"#line", b"#line 5", b"#line x\n", b"#", b"##", b"\\", b"\\\n",
              b"\r", b"\x00", b"\xff", b"+.", b"$", b"0x", b"1e+", b"==", b">>", b"class", b"delete", b"private", b";", b",", b"=", b":"]
SOUP = MUT_TOKENS + [b" ", b"\n", b"\t", b"true", b"false", b"tru", b"cla", b"#li", b"abc", b"_x", b"F", b"A", b"1", b"2.5", b"$1F", b"0x1f", b"'a'", b'"b"',
                     b'""', b"+", b"-", b"*", b"/", b"!", b"&&", b"||", b"<=", b"select", b"call", b"if", b"then", b"x = 1;", b"class A {", b"};", b"x[] = {1,2};",
                     b"#define A A\n", b"#define F(X) X\n", b"F(", b"A", b"__LINE__", b"__FILE__"]
TOKEN_RE = re.compile(rb'"(?:[^"]|"")*"?|\'(?:[^\']|\'\')*\'?|//[^\n]*|/\*.*?(?:\*/|$)|#[A-Za-z]+|[A-Za-z_][A-Za-z_0-9]*|\$[0-9A-Fa-f]+|[0-9]+(?:\.[0-9]+)?(?:[eE][+-]?[0-9]+)?|\s+|.', re.S)

GEN_SQF = [b"private _a = [1, 2, 3];\n{ _x + 1 } forEach _a;\nif (_a select 0 == 1) then { hint \"one\" } else { hint 'two' };\n",
           b"_f = { params [\"_p\", [\"_q\", 0]]; _p + _q };\n[1, 2] call _f; // tail\n/* block */ x = 0x1F + $AB - 1.5e3;\n",
           b"while {_i < 10} do { _i = _i + 1; if (_i > 5) exitWith {} };\nswitch (_i) do { case 1: { \"a\" }; default { \"b\" } };\n"]
GEN_CFG = [b"class CfgA {\n  x = 1;\n  s = \"text\";\n  t = 'q';\n  arr[] = {1, 2, {3, \"four\"}};\n  arr[] += {5};\n  class Inner : Base { y = -1.5e2; z = $FF; };\n  delete Old;\n};\nclass B;\n",
           b"class A { v = some words here; w = +5; h = 0x10; /* c */ n = -.5; // line\n };\n"]
GEN_PP = [b"#define A 1\n#define F(X,Y) X + Y\n#define S(X) #X\n#define C(X,Y) X##Y\n#ifdef A\nx = F(A, 2);\n#else\ny = 3;\n#endif\nz = S(hello) + C(a,b); // done\n",
          b"#define LONG(a) \\\n  a + \\\n  a\n#ifndef Q\nLONG(5)\n#endif\n#undef LONG\n__LINE__ __FILE__ \"str // not a comment\" /* c */ w\n"]


def hx(b):
    return V.hx(b)


def enc_files(files):
    return ";".join(hx(n) + "=" + hx(c) for n, c in sorted(files.items())) if files else "-"


def corpus_files():
    out = []
    for pat, kind in [("tests/sqf/*.sqf", "sqf"), ("tests/*.sqf", "sqf"), ("tests/cba/*.sqf", "sqf"),
                      ("tests/config.cpp", "cfg"), ("tests/preprocess/*.sqf", "pp"), ("tests/preprocess/*.txt", "pp")]:
        for f in sorted(glob.glob(os.path.join(V.REPO, pat))):
            out.append((kind + ":" + os.path.relpath(f, V.REPO), open(f, "rb").read()))
    for i, t in enumerate(GEN_SQF):
        out.append(("sqf:gen%d" % i, t))
    for i, t in enumerate(GEN_CFG):
        out.append(("cfg:gen%d" % i, t))
    for i, t in enumerate(GEN_PP):
        out.append(("pp:gen%d" % i, t))
    return out


def deep_family(d):
    """name -> (text, files, routes) with nesting depth d at one recursive site each"""
    inc = {("i%d.sqf" % i).encode(): ('#include "/v/i%d.sqf"\n' % (i + 1)).encode() for i in range(d)}
    inc[("i%d.sqf" % d).encode()] = b"1"
    return {
        "square": (b"[" * d + b"]" * d, {}, "TOK,SQF,COMPILE,ASSEMBLY"),
        "curly": (b"{" * d + b"}" * d, {}, "TOK,SQF,COMPILE,ASSEMBLY"),
        "round": (b"(" * d + b"1" + b")" * d, {}, "TOK,SQF,COMPILE"),
        "square-open": (b"[" * d, {}, "SQF,COMPILE"),
        "curly-open": (b"{" * d, {}, "SQF,CFG"),
        "unary": (b"!" * d + b"true", {}, "SQF,COMPILE"),
        "binary": (b"1" + b"+1" * d, {}, "SQF,COMPILE"),
        "statements": (b"a;" * d, {}, "TOK,SQF"),
        "array-elements": (b"[" + b"1," * d + b"1]", {}, "SQF"),
        "line-comments": (b"//\n" * d, {}, "TOK,CTOK,SQF,CFG,RD,PP"),
        "block-comments": (b"/**/" * d, {}, "TOK,CTOK,SQF,CFG,RD,PP"),
        "line-directives": (b"#line 1\n" * d, {}, "TOK,CTOK,SQF,CFG"),
        "carriage-returns": (b"\r" * d, {}, "RD,GW,PP,TOK"),
        "continuations": (b"\\\n" * d, {}, "RD,GW,PP"),
        "config-classes": (b"class a{" * d + b"};" * d, {}, "CTOK,CFG,CONFIGPARSE"),
        "config-arrays": (b"class a{x[]=" + b"{" * d + b"}" * d + b";};", {}, "CFG"),
        "config-words": (b"class a{x=" + b"a " * d + b";};", {}, "CFG"),
        "macro-calls": (b"#define F(X) X\n" + b"F(" * d + b"1" + b")" * d, {}, "PP,PREPROCESS"),
        "macro-chain": (b"".join(b"#define M%d M%d\n" % (i, i + 1) for i in range(d)) + b"#define M%d 1\nM0" % d, {}, "PP"),
        "includes": (b'#include "/v/i0.sqf"\n', inc, "PP"),
        "equals-run": (b"=" * d, {}, "TOK,SQF"),
    }


# Scaling family: the whole size of the input sits on ONE line (minified / generated code, the strings handed to compile,
# one-line config entries, many macro uses on a preprocessor line). unit, prefix, suffix, routes - one route per case, so that
# the peak-memory rise the harness reports is that route's own. Each is run at SCALE_SIZES bytes.
SCALE_SIZES = [20000, 40000, 80000]
SCALE = {
    "sqf-statements-one-line": (b'v = [1, "ab"] + [2];', b"", b"", ["SQF", "COMPILE", "ASSEMBLY"]),
    "sqf-statements-per-line": (b'v = [1, "ab"] + [2];\n', b"", b"", ["SQF"]),
    "sqf-array-one-line": (b"12345,", b"x = [", b"1];", ["SQF", "COMPILE"]),
    "sqf-operators-one-line": (b"a + b * c - d;", b"", b"", ["SQF"]),
    "sqf-strings-one-line": (b'"abc""def", ', b"x = [", b"1];", ["TOK", "SQF"]),
    "config-entries-one-line": (b"x = 1; s = \"ab\"; a[] = {1,2}; ", b"class A { ", b"};", ["CFG", "CONFIGPARSE"]),
    "config-classes-one-line": (b"class B { y = 2; }; ", b"class A { ", b"};", ["CFG"]),
    "macro-uses-one-line": (b"A + ", b"#define A 1\nx = ", b"0;", ["PP", "PREPROCESS"]),
    "macro-calls-one-line": (b"F(a,b) ", b"#define F(X,Y) X Y\n", b"", ["PP"]),
    "plain-text-one-line": (b"word1 word2, ", b"", b"", ["PP", "RD"]),
}
# what "proportional to the input" is taken to mean for one route on one input of n bytes (plain build):
#   peak memory  <= SCALE_MEM_BASE_KB + SCALE_MEM_PER_BYTE * n     (the unchanged front ends need < 300 bytes per input byte)
#   doubling the input at most SCALE_RATIO-folds time and memory, beyond a floor that absorbs noise
SCALE_MEM_BASE_KB, SCALE_MEM_PER_BYTE, SCALE_RATIO = 16 * 1024, 1024, 3.0
SCALE_MEM_FLOOR_KB, SCALE_TIME_FLOOR_MS = 8 * 1024, 1000


def scale_text(name, size):
    unit, pre, suf, _ = SCALE[name]
    n = max(1, (size - len(pre) - len(suf)) // len(unit))
    return pre + unit * n + suf


# Include cycles under conditionals. One file of a cycle of 1..3 files (the gate) carries its #include of the next file at one of
# these places; G is the gate's guard macro, M a macro the main file may define, H a second guard. {INC} is the include line.
CYCLE_GATES = {
    "plain": "{INC}",
    "ifndef-body-before-define": "#ifndef G\n{INC}#define G\n#endif\n",
    "ifndef-body-after-define": "#ifndef G\n#define G\n{INC}#endif\n",
    "ifndef-else": "#ifndef G\n#define G\n#else\n{INC}#endif\n",
    "ifndef-else-never-defined": "#ifndef G\ny = 1;\n#else\n{INC}#endif\n",
    "ifdef-body": "#ifdef M\n{INC}#endif\n",
    "ifdef-else": "#ifdef M\nx = 1;\n#else\n{INC}#endif\n",
    "nested-ifdef-in-guard": "#ifndef G\n#define G\n#ifdef M\n{INC}#endif\n#endif\n",
    "nested-guard-in-else": "#ifndef G\n#define G\n#else\n#ifndef H\n#define H\n{INC}#endif\n#endif\n",
    "nested-else-in-else": "#ifndef G\n#define G\n#else\n#ifdef M\nz = 1;\n#else\n{INC}#endif\n#endif\n",
}


def include_cycle_cases():
    """(name, main text, files) for every gate position x cycle length x M defined or not x G predefined or not x how the gate is reached"""
    out = []
    for gate, tmpl in sorted(CYCLE_GATES.items()):
        for k in (1, 2, 3):
            names = ["c%d.hpp" % i for i in range(k)]
            files = {}
            for i, n in enumerate(names):
                inc = '#include "/v/%s"\n' % names[(i + 1) % k]
                files[n.encode()] = ("// %s\n" % n + (tmpl.replace("{INC}", inc) if i == 0 else inc) + "v%d = %d;\n" % (i, i)).encode()
            for mdef in (0, 1):
                for gpre in (0, 1):
                    for reach in ("once", "twice", "wrapper-once", "wrapper-twice", "enter-behind-gate"):
                        if reach == "enter-behind-gate" and k == 1:
                            continue
                        head = ("#define M 1\n" if mdef else "") + ("#define G 1\n" if gpre else "")
                        fs = dict(files)
                        g = '#include "/v/c0.hpp"\n'
                        if reach == "once":
                            body = g
                        elif reach == "twice":
                            body = g + g
                        elif reach.startswith("wrapper"):
                            fs[b"w.hpp"] = (g * (2 if reach.endswith("twice") else 1)).encode()
                            body = '#include "/v/w.hpp"\n'
                        else:
                            body = '#include "/v/c1.hpp"\n'
                        out.append(("%s/k%d/M%d/G%d/%s" % (gate, k, mdef, gpre, reach), (head + body + "done = 1;\n").encode(), fs))
    return out


def include_reference(main, files):
    """What the property prescribes for such a file tree. Directives as the preprocessor reads them: conditionals per file, a
    conditional inside an inactive section stays inactive, #define / #include only act in active text.
      'ok'              no #include that is taken names a file that is being included: a result, no recursive-include error
      'cycle-ends'      one does, but followed through the inclusion ends by itself (an include guard stops the copy): the cycle is
                        reported as a recursive include (10003) or it ends with a result
      'cycle-diverges'  one does and following it never ends: it must be reported as a recursive include"""
    class Diverges(Exception):
        pass
    seen = {"cycle": False}

    def walk():
        macros = set()

        def run(text, open_files):
            if len(open_files) > 40:
                raise Diverges()
            conds = []   # (allow, parent_allow)
            for line in text.decode("latin-1").split("\n"):
                st = line.strip()
                active = not conds or conds[-1][0]
                if st.startswith("#ifndef ") or st.startswith("#ifdef "):
                    neg = st.startswith("#ifndef ")
                    m = st.split(None, 1)[1].strip()
                    conds.append(((active and ((m not in macros) if neg else (m in macros))), active))
                elif st == "#else":
                    if conds and conds[-1][1]:
                        conds[-1] = (not conds[-1][0], conds[-1][1])
                elif st == "#endif":
                    if conds:
                        conds.pop()
                elif st.startswith("#define ") and active:
                    macros.add(st.split()[1])
                elif st.startswith("#include ") and active:
                    tgt = st.split('"')[1].split("/")[-1]
                    if tgt in open_files:
                        seen["cycle"] = True
                    run(files[tgt.encode()], open_files + [tgt])
        run(main, ["m.sqf"])

    try:
        walk()
    except Diverges:
        return "cycle-diverges"
    return "cycle-ends" if seen["cycle"] else "ok"


RECURSIVE = [
    ("macro-self", b"#define A A\nA", {}, 10014), ("macro-self-args", b"#define F(X) F(X)\nF(1)", {}, 10014),
    ("macro-mutual", b"#define A B\n#define B A\nA", {}, 10014), ("macro-three", b"#define A B + 1\n#define B C\n#define C A\nx = A;", {}, 10014),
    ("macro-in-arg", b"#define F(X) X\n#define A F(A)\nA", {}, 10014),
    ("include-self", b'#include "/v/s.sqf"\n', {b"s.sqf": b'#include "/v/s.sqf"\n'}, 10003),
    ("include-mutual", b'#include "/v/a.sqf"\n', {b"a.sqf": b'#include "/v/b.sqf"\n', b"b.sqf": b'#include "/v/a.sqf"\n'}, 10003),
    ("include-main", b'x\n#include "/v/m.sqf"\n', {}, 10003),
]


def parse_out(line):
    """harness/driver line -> {route: (class, codes, payload, extra)}"""
    r = {}
    for part in line.split("\t"):
        if "=" not in part:
            continue
        k, v = part.split("=", 1)
        f = v.split("|")
        r[k] = f
    return r


def main(replay=None):
    run = V.Run(PID, "proof")
    rng = run.rng
    thorough = run.tier == "thorough"
    problems = run.prove()
    flav = "asan" if thorough else "plain"
    himpl = V.build_harness("h_front", flav)
    # the sanitizer build is started with the enlarged stack limit it hands to its children (see kStackMb in the harness)
    hcmd = ["sh", "-c", "ulimit -s 262144 2>/dev/null; exec %s" % himpl] if thorough else [himpl]
    # resource scaling is measured on the plain build in both tiers (the sanitizer's quarantine and red zones hide the memory
    # an input needs; the plain build also runs under the address-space limit of the fork harness)
    hplain = himpl if not thorough else V.build_harness("h_front", "plain")
    drv = V.ocaml_driver("front")
    dmodel = ["sh", "-c", "ulimit -s unlimited 2>/dev/null || ulimit -s 1000000 2>/dev/null; exec %s repaired" % drv]
    dasis = ["sh", "-c", "ulimit -s unlimited 2>/dev/null || ulimit -s 1000000 2>/dev/null; exec %s asis" % drv]

    cases = []   # dict(kind, text, files, routes, expect_code, depth)

    def add(kind, text, files=None, routes=ALL, **kw):
        evals = b"__EVAL" in text or b"__EXEC" in text or b"__COUNTER" in text
        if evals and not kind.startswith(("corpus:", "eval")):
            return   # __EVAL/__EXEC run SQF code at preprocessing time (execution bounds are C11's property);
                     # __COUNTER__ is a process-wide counter (C20's recorded counterexample), not a front-end matter
        c = {"kind": kind, "text": text, "files": files or {}, "routes": routes, "expect_code": None, "depth": None, "expect_some": None, "expect_pp": None,
             "impl_only": evals}     # dedicated __EVAL texts: totality of the implementation only (the front-end models have no evaluator)
        c.update(kw)
        cases.append(c)

    if replay:
        r = json.load(open(replay))["replay"]
        add(r.get("kind", "replay"), V.unhx(r["text_hex"]), {V.unhx(k): V.unhx(v) for k, v in r.get("files_hex", {}).items()},
            r.get("routes", ALL), expect_code=r.get("expect_code"), depth=r.get("depth"), expect_some=r.get("expect_some"), expect_pp=r.get("expect_pp"))
    else:
        cdir = os.path.join(V.VERIF, "corpus", PID)
        for fn in sorted(os.listdir(cdir)) if os.path.isdir(cdir) else []:
            r = json.load(open(os.path.join(cdir, fn)))
            add("corpus:" + fn, V.unhx(r["text_hex"]), {V.unhx(k): V.unhx(v) for k, v in r.get("files_hex", {}).items()},
                r.get("routes", ALL), expect_code=r.get("expect_code"), expect_some=r.get("expect_some"))
        # ---- expressions evaluated while preprocessing: with and without a value, failing, malformed (implementation only)
        for k, ex in enumerate(["nil", "call {}", "if (false) then {1}", "([10, 20, 30] select 3) * 2", "1 + ", "\"a\" + 1", "[1,2] select 5", "{1}", "[]",
                                "objNull", "configFile", "1; 2", "", " ", "((", "str nil", "private _a = 1", "throw 1", "exitWith {1}", "breakOut \"x\"",
                                "createHashMap", "text \"a\"", "nil * nil", "[nil]", "call {nil}", "sqrt -1", "1e39 * 10"]):
            add("eval:%d" % k, ("x = __EVAL(%s);\ny = [__EVAL(%s)];\n" % (ex, ex)).encode("latin-1"), routes="PP,PREPROCESS,DEF")
        # ---- a carriage return that is not part of CR LF, in every place of a preprocessor text: a macro body that is used, a macro
        # argument, a call's argument list, a directive line, a string, a comment, between tokens (old Mac line ends)
        for k, tx in enumerate(["#define M 1 \r+ 2\nx = M;\n", "#define M(a) a\r\nx = M(1);\n", "#define M(a) (a \r+ a)\ny = M(2) + M(3);\n",
                                "#define M(a,b) a b\nx = M(1\r,2);\n", "#define M 1\rx = M;\n", "#define\rM 1\nx = M;\n", "#ifdef\rM\nx = 1;\n#endif\n",
                                "x = \"a\rb\";\n", "// c\rx = 1;\n", "/* c\r */ x = 1;\n", "x\r=\r1;\r", "#define A B\r\n#define B A \r 1\nx = A;\n",
                                "#define M \r\nx = M;\n", "#define M(a) #a\nx = M(q\rq);\n", "#define M a\\\r\nb\nx = M;\n", "#include \"h\r.hpp\"\n",
                                "#define M 1 \r\r\r 2\nx = [M, M];\n", "\r#define M 1\n\rx = M;\r\n"]):
            add("cr:%d" % k, tx.encode("latin-1"))
        files = corpus_files()
        # ---- whole files and their prefixes
        pre_cap = None if thorough else 120
        for name, t in files:
            add("file:" + name, t)
            n = len(t)
            if pre_cap is None or n <= pre_cap:
                cut = range(n)
            else:
                cut = sorted(set(list(range(min(n, 6))) + rng.sample(range(n), pre_cap - 6)))
            for k in cut:
                add("prefix", t[:k])
        # ---- single-token mutations
        per_file = 60 if thorough else 30
        for name, t in files:
            toks = TOKEN_RE.findall(t)
            if not toks:
                continue
            for _ in range(per_file):
                i = rng.randrange(len(toks))
                op = rng.choice(["delete", "duplicate", "replace", "replace", "insert"])
                ts = list(toks)
                if op == "delete":
                    del ts[i]
                elif op == "duplicate":
                    ts.insert(i, ts[i])
                elif op == "replace":
                    ts[i] = rng.choice(MUT_TOKENS)
                else:
                    ts.insert(i, rng.choice(MUT_TOKENS))
                add("mutation", b"".join(ts))
        # ---- random bytes and token soup
        for _ in range(3000 if thorough else 800):
            add("bytes", bytes(rng.randrange(256) for _ in range(rng.randint(0, 40))))
        for _ in range(30000 if thorough else 6000):
            add("soup", b"".join(rng.choice(SOUP) for _ in range(rng.randint(1, 9))))
        # ---- one #define line (the parameter-list / body splitter has a model: route DEF)
        dpool = [b"F", b"G1", b"_a", b"(", b")", b",", b",,", b" ", b"\t", b"x", b"y", b"\\\n", b"/*c*/", b'"s"', b'"', b"+", b"#", b"##"]
        for _ in range(4000 if thorough else 1000):
            add("define-line", b"#define " + b"".join(rng.choice(dpool) for _ in range(rng.randint(0, 9))) + rng.choice([b"", b"\n"]), routes="DEF,PP,RD,GW")
        # ---- determinism inside one runtime: every parsing route twice on the SAME runtime (same parser objects, same path) and
        #      once on a fresh one. Pool: the truncated / mutated / random inputs above (mostly invalid) and the valid files, spread
        #      over lengths below and above 32, 64 and 256 bytes (a front end may treat short and long sources differently).
        pool = [c["text"] for c in cases if c["kind"].split(":")[0] in ("prefix", "mutation", "soup", "bytes", "file", "corpus") and len(c["text"]) <= 20000]
        for _ in range(4000 if thorough else 500):   # token soup of every length class
            target = rng.choice([8, 24, 31, 32, 33, 48, 63, 64, 65, 120, 255, 256, 257, 600])
            t = b""
            while len(t) < target:
                t += rng.choice(SOUP)
            pool.append(t[:target] if rng.random() < 0.5 else t)
        buckets = {"<32": [], "32-63": [], "64-255": [], ">=256": []}
        for t in pool:
            n = len(t)
            buckets["<32" if n < 32 else "32-63" if n < 64 else "64-255" if n < 256 else ">=256"].append(t)
        per_bucket = 4000 if thorough else 330
        for bname in sorted(buckets):
            b_ = buckets[bname]
            for t in (b_ if len(b_) <= per_bucket else rng.sample(b_, per_bucket)):
                add("twice:" + bname, t, routes=TWICE)
        # ---- recursion guards
        for name, t, fs, code in RECURSIVE:
            add("recursive:" + name, t, fs, "PP", expect_code=code)
        # ---- include cycles with the recursive #include under conditionals in every position
        for name, t, fs in include_cycle_cases():
            add("include-cycle:" + name, t, fs, "PP,PREPROCESS", expect_pp=include_reference(t, fs))
        # ---- deep nesting against the stack budget
        for d in DEPTH_MUST + DEPTH_BEYOND + ([100000] if thorough else []):
            for name, (t, fs, routes) in sorted(deep_family(d).items()):
                if name in ("includes", "equals-run", "macro-calls") and d > 10000:
                    continue   # 100000 include files; a run of '=' is rescanned for every token (quadratic, also in the model);
                               # every nested macro call copies the reader, i.e. the whole file (quadratic in the depth)
                add("deep:" + name, t, fs, routes, depth=d)
        # ---- long flat inputs: time proportional to the input (64 KB within the watchdog's 5 s)
        for name, t in [("statements", b"a = a + 1;\n" * 5900), ("array", b"[" + b"12345," * 10900 + b"1]"), ("strings", b'"abc""def" ' * 5900),
                        ("config", b"class A { " + b"x = 1; " * 9000 + b"};"), ("macro-uses", b"#define A 1\n" + b"A " * 32000),
                        ("macro-args", b"#define F(X) X\n" + b"F(a) " * 13000), ("comment", b"/*" + b"x" * 65000 + b"*/"), ("line", b"//" + b"x" * 65000)]:
            add("long:" + name, t, {}, "TOK,CTOK,RD,PP,SQF,CFG,COMPILE")

    lines = ["%s\t%s\t%s" % (c["routes"], hx(c["text"]), enc_files(c["files"])) for c in cases]
    rc, impl, err = V.run_lines_parallel(hcmd, lines, timeout=6000)
    rc2, model, err2 = V.run_lines_parallel(dmodel, lines, timeout=3000)

    # ---- scaling family: one route per case, three sizes, plain build
    scale_cases = []
    if not replay or json.load(open(replay))["replay"].get("kind", "").startswith("scale:"):
        if replay:
            r = json.load(open(replay))["replay"]
            want = [(r["kind"].split(":", 1)[1], r["route"])]
        else:
            want = [(name, route) for name in sorted(SCALE) for route in SCALE[name][3]]
        for name, route in want:
            for size in SCALE_SIZES:
                scale_cases.append({"kind": "scale:" + name, "route": route, "size": size, "text": scale_text(name, size)})
    slines = ["%s\t%s\t-" % (c["route"], hx(c["text"])) for c in scale_cases]
    rc4, simpl, err4 = V.run_lines_parallel([hplain], slines, shards=min(V.NPROC, 6), timeout=3000) if slines else (0, [], "")

    kinds, samples, distinct = {}, [], set()
    stats = {"routes_run": 0, "model_comparisons": 0, "none_results": 0, "some_results": 0, "max_ms": 0, "known_deep": 0,
             "deep_beyond_budget_survived": 0}
    bad_idx = []

    def rep_of(c, il, ml, **extra):
        r = {"kind": c["kind"], "routes": c["routes"], "text_hex": hx(c["text"]), "text": c["text"][:400].decode("latin-1"),
             "text_length": len(c["text"]), "files_hex": {hx(k): hx(v) for k, v in list(c["files"].items())[:50]},
             "expect_code": c["expect_code"], "depth": c["depth"], "expect_some": c["expect_some"], "expect_pp": c["expect_pp"], "impl": il[:3000], "model": ml[:3000]}
        r.update(extra)
        return r

    pending = []   # (case, what, rep) decided after the as-is model has been asked about the failing inputs
    for idx, (c, il, ml) in enumerate(zip(cases, impl, model)):
        k0 = c["kind"].split(":")[0]
        kinds[k0] = kinds.get(k0, 0) + 1
        ri, rm = parse_out(il), parse_out(ml)
        wanted = ALL.split(",") if c["routes"] == "ALL" else c["routes"].split(",")
        nontrivial = False
        if "ANY" in ri:
            any_overflow = ri["ANY"][0].startswith("CRASH:11") or (thorough and ri["ANY"][0].startswith("EXIT:1"))
            if c["depth"] is not None and c["depth"] >= min(DEPTH_BEYOND) and any_overflow and run.known.has(PID, KNOWN_DEEP):
                run.known_finding(KNOWN_DEEP); stats["known_deep"] += 1     # beyond the stack budget, like the attributed cases
                continue
            pending.append((idx, "one of the routes %s ends in %s (failure not attributed to a route: more than 25 failing cases in this "
                            "harness process)" % (c["routes"], ri["ANY"][0]), rep_of(c, il, ml, route="ANY")))
            continue
        for route in wanted:
            stats["routes_run"] += 1
            f = ri.get(route)
            if f is None:
                pending.append((idx, "no answer of the harness for route %s" % route, rep_of(c, il, ml, route=route)))
                continue
            cls = f[0].split(":")[0]
            # ---- 1. the property itself
            if cls in LOST:
                deep_beyond = c["depth"] is not None and c["depth"] >= min(DEPTH_BEYOND)
                # stack overflow: SIGSEGV, or exit status 1 of the sanitizer runtime that reports it
                overflow = f[0].startswith("CRASH:11") or (thorough and f[0].startswith("EXIT:1"))
                if deep_beyond and overflow and route not in ("TOK", "CTOK", "RD", "GW"):
                    if run.known.has(PID, KNOWN_DEEP):
                        run.known_finding(KNOWN_DEEP); stats["known_deep"] += 1
                        continue
                pending.append((idx, "route %s ends in %s" % (route, f[0]), rep_of(c, il, ml, route=route)))
                continue
            if c["depth"] is not None and c["depth"] >= min(DEPTH_BEYOND):
                stats["deep_beyond_budget_survived"] += 1
            codes = [] if len(f) < 2 or f[1] == "-" else [tuple(int(x) for x in cd.split(":")) for cd in f[1].split(",")]
            if cls == "NONE":
                stats["none_results"] += 1
                if not any(lv <= 1 for lv, _ in codes):
                    pending.append((idx, "route %s returns no result and no error-level diagnostic" % route, rep_of(c, il, ml, route=route)))
                    continue
            else:
                stats["some_results"] += 1
                nontrivial = True
            if route.startswith("2x"):
                # the same input again on the same runtime (RUN2) and on a fresh one (FRESH); the harness prints them only when
                # they differ from the first run. Each run on its own must give a result or an error-level diagnostic, and the
                # later run must give the same result class, the same value and the same diagnostics as the first.
                base = route[2:]
                stats["twice_routes"] = stats.get("twice_routes", 0) + 1
                for tag, runno in (("RUN2:", "second run on the same runtime"), ("FRESH:", "run on a fresh runtime")):
                    j = [k for k, x in enumerate(f) if x.startswith(tag)]
                    if not j:
                        continue
                    other = [f[j[0]][len(tag):]] + f[j[0] + 1:j[0] + 3]
                    ocodes = [] if len(other) < 2 or other[1] == "-" else [tuple(int(x) for x in cd.split(":")) for cd in other[1].split(",")]
                    if base in ("CFG", "CONFIGPARSE"):
                        # the config host keeps what the first run defined: warnings about unknown base classes may go away.
                        # What must stay: the result class and the error-level diagnostics
                        same = other[0] == f[0] and sorted(cd for cd in ocodes if cd[0] <= 1) == sorted(cd for cd in codes if cd[0] <= 1)
                    else:
                        same = other[:3] == f[:3]
                    silent = other[0].split(":")[0] == "NONE" and not any(lv <= 1 for lv, _ in ocodes)
                    if not same or silent:
                        pending.append((idx, "route %s, %s: %s|%s|%s where the first run gave %s|%s|%s - the same input does not produce the same result%s"
                                        % (base, runno, other[0], other[1] if len(other) > 1 else "", other[2] if len(other) > 2 else "", f[0], f[1], f[2],
                                           " (and this run gives neither a result nor an error diagnostic)" if silent else ""),
                                        rep_of(c, il, ml, route=route, run=runno, first="|".join(f[:3]), other="|".join(other))))
                        break
                if len(f) > 3 and f[3].isdigit():
                    stats["max_ms"] = max(stats["max_ms"], int(f[3]))
                continue
            if any(x.startswith("NONDET") for x in f):
                pending.append((idx, "route %s: the same input gave two different results in one process" % route, rep_of(c, il, ml, route=route)))
                continue
            if len(f) > 3 and f[3].isdigit():
                stats["max_ms"] = max(stats["max_ms"], int(f[3]))
            if c["expect_some"] and route in c["expect_some"] and cls != "SOME":
                pending.append((idx, "route %s gives no result on a text it must accept (regression of a repaired defect, see corpus/C10)" % route,
                                rep_of(c, il, ml, route=route)))
                continue
            if c["expect_pp"] is not None and route in ("PP", "PREPROCESS"):
                reported = 10003 in [cd for _, cd in codes]
                if c["expect_pp"] == "cycle-diverges" and not (reported and (cls == "NONE" or route == "PREPROCESS")):
                    pending.append((idx, "route %s: an #include that is taken names a file that is being included and following it never ends, "
                                    "and it is not reported as a recursive include (error 10003)" % route, rep_of(c, il, ml, route=route)))
                    continue
                if c["expect_pp"] == "cycle-ends" and cls != "SOME" and route == "PP" and not reported:
                    pending.append((idx, "route %s: an include cycle that a guard ends gives neither a result nor the recursive-include error"
                                    % route, rep_of(c, il, ml, route=route)))
                    continue
                if c["expect_pp"] == "ok" and (reported or (cls != "SOME" and route == "PP")):
                    pending.append((idx, "route %s: no #include that is taken closes a cycle (the conditionals around it are inactive), yet "
                                    "preprocessing %s" % (route, "reports a recursive include" if reported else "fails"), rep_of(c, il, ml, route=route)))
                    continue
            if c["expect_code"] is not None and route == "PP":
                if cls != "NONE" or c["expect_code"] not in [cd for _, cd in codes]:
                    pending.append((idx, "a self- or mutually recursive macro / include is not reported as error %d" % c["expect_code"],
                                    rep_of(c, il, ml, route=route)))
                    continue
            # ---- 2. the mechanism models
            if c.get("impl_only"):
                continue
            if route in MODELLED and route in rm:
                stats["model_comparisons"] += 1
                m = rm[route]
                if m[0] == "SKIP":
                    continue
                if m[0].startswith("MODEL:"):
                    pending.append((idx, "the repaired model leaves defined behaviour (%s) on route %s: the totality theorem no longer "
                                    "covers the model that is run" % (m[0], route),
                                    rep_of(c, il, ml, route=route, broken="C10_lexer_total / C10_reader_total (model run = model proved)"), False))
                elif m[:3] != f[:3]:
                    pending.append((idx, "route %s: implementation and mechanism model differ (the oracle is satisfied)" % route,
                                    rep_of(c, il, ml, route=route, broken="correspondence of the %s model with the code" %
                                           {"TOK": "SQF tokenizer", "CTOK": "config tokenizer", "RD": "reader next()", "GW": "reader get_word/get_line",
                                            "DEF": "#define line"}[route]), False))
        # ---- 3. routes reached from scripts agree with the direct ones
        def has(route, code):
            f = ri.get(route)
            return f is not None and len(f) > 1 and any(cd.endswith(":%d" % code) for cd in f[1].split(","))
        for direct, script, code in [("SQF", "COMPILE", SQF_PARSE_ERROR), ("SQF", "ASSEMBLY", SQF_PARSE_ERROR), ("CFG", "CONFIGPARSE", CFG_PARSE_ERROR)]:
            if direct in ri and script in ri and ri[direct][0] in ("SOME", "NONE") and ri[script][0] in ("SOME", "NONE"):
                if (ri[direct][0] == "NONE") != has(script, code):
                    pending.append((idx, "%s reached from a script and the parser called directly disagree about this text" % script.lower(),
                                    rep_of(c, il, ml, route=script, broken="script route = direct route"), False))
        if nontrivial:
            distinct.add(c["text"])
        if len(samples) < 8 and k0 not in [s["kind"] for s in samples] and len(c["text"]) < 200:
            samples.append({"kind": k0, "text": c["text"].decode("latin-1"), "impl": il[:300]})

    # ---- scaling oracle: absolute limits of the fork harness, a linear memory bound, and the ratio between sizes
    scaling = {}
    by_family = {}
    for c, il in zip(scale_cases, simpl):
        kinds["scale"] = kinds.get("scale", 0) + 1
        f = parse_out(il).get(c["route"])
        fam = "%s / %s" % (c["kind"].split(":", 1)[1], c["route"])
        rep = {"kind": c["kind"], "route": c["route"], "routes": c["route"], "size": c["size"], "text_hex": hx(c["text"]),
               "text": c["text"][:200].decode("latin-1") + " ... (%d bytes, %d line(s))" % (len(c["text"]), c["text"].count(b"\n") + 1),
               "text_length": len(c["text"]), "impl": il[:400]}
        stats["routes_run"] += 1
        if f is None or f[0].split(":")[0] in LOST:
            got = "no answer" if f is None else f[0]
            scaling.setdefault(fam, {})[str(c["size"])] = {"outcome": got}
            run.violation("%d bytes on one line through %s end in %s: the front end does not run in time and memory proportional to "
                          "the input (limits of the fork harness: %d MB address space, 1.5 s + 5 s per 64 KB)"
                          % (len(c["text"]), c["route"], got, 3072), rep)
            continue
        ms, kb = int(f[3]), int(f[4])
        scaling.setdefault(fam, {})[str(c["size"])] = {"ms": ms, "peak_kb": kb, "class": f[0]}
        by_family.setdefault(fam, []).append((c["size"], ms, kb, rep))
        stats["max_ms"] = max(stats["max_ms"], ms)
        if f[0] == "NONE" and not c["kind"].endswith("plain-text-one-line"):
            run.violation("a valid text of the scaling family gets no result through %s" % c["route"], rep)
            continue
        distinct.add(c["text"])
        limit = SCALE_MEM_BASE_KB + SCALE_MEM_PER_BYTE * len(c["text"]) // 1024
        if kb > limit:
            rep["peak_kb"], rep["limit_kb"] = kb, limit
            run.violation("%d bytes on one line through %s need %d MB of memory (more than %d MB = 16 MB + 1 KB per input byte): "
                          "memory is not proportional to the input" % (len(c["text"]), c["route"], kb // 1024, limit // 1024), rep)
    for fam, rows in by_family.items():
        rows.sort()
        for (n1, ms1, kb1, _), (n2, ms2, kb2, rep2) in zip(rows, rows[1:]):
            grow = n2 / float(n1)
            if kb2 > SCALE_MEM_FLOOR_KB and kb2 > SCALE_RATIO * grow / 2.0 * max(kb1, SCALE_MEM_FLOOR_KB / 4):
                rep2["smaller"] = {"size": n1, "ms": ms1, "peak_kb": kb1}; rep2["peak_kb"] = kb2
                run.violation("%s: %d -> %d bytes on one line raise the peak memory from %d KB to %d KB (more than %.1f-fold for a "
                              "%.1f-fold input): memory grows faster than the input" % (fam, n1, n2, kb1, kb2, SCALE_RATIO * grow / 2.0, grow), rep2)
            if ms2 > SCALE_TIME_FLOOR_MS and ms2 > 2 * SCALE_RATIO * grow / 2.0 * max(ms1, SCALE_TIME_FLOOR_MS / 8):
                rep2["smaller"] = {"size": n1, "ms": ms1, "peak_kb": kb1}; rep2["ms"] = ms2
                run.violation("%s: %d -> %d bytes on one line raise the time from %d ms to %d ms: time grows faster than the input"
                              % (fam, n1, n2, ms1, ms2), rep2)
    stats["scaling_one_line"] = scaling

    # what does the model of the code as it stood before the C10 repairs say about the failing inputs?
    if pending:
        idxs = sorted(set(p[0] for p in pending))[:200]
        rc3, asis, err3 = V.run_lines_parallel(dasis, [lines[i] for i in idxs], timeout=3000)
        amap = dict(zip(idxs, asis))
        for p in pending:
            idx, what, rep = p[0], p[1], p[2]
            found = p[3] if len(p) > 3 else True
            a = amap.get(idx, "")
            rep["model_as_is"] = a[:1000]
            if "MODEL:" in a:
                what += " [the model of the unrepaired code leaves defined behaviour here: %s - see /verif/proposed_fixes/C10-*.diff]" % \
                        ",".join(x for x in a.split("\t") if "MODEL:" in x)
            run.violation(what, rep, found_input=found)
            vk = "%s / %s" % (rep["kind"], rep.get("route"))
            stats.setdefault("violations_by_kind_and_route", {})
            stats["violations_by_kind_and_route"][vk] = stats["violations_by_kind_and_route"].get(vk, 0) + 1
    for p in problems:
        run.violation("proof obligation not discharged: " + p, {"broken": p, "theorems": run.cov["theorems"]}, found_input=False)

    run.cov["evaluations"] = len(cases) + len(scale_cases)
    run.cov["distinct_nontrivial"] = len(distinct)
    run.cov["rule"] = ("every case is a byte string fed to each front end (both tokenizers, the preprocessor's reader, preprocessor, SQF parser, config parser, "
                       "and compile / assembly__ / preprocess__ / configparse__ run as scripts) in a forked child with a watchdog of 5 s per 64 KB, an 8 MB "
                       "stack and an address-space limit, twice on two fresh runtimes; oracle: no crash/timeout/OOM/exception, no result implies an "
                       "error-level diagnostic, both runs equal, recursive macros/includes give 10014/10003; tokens, reader characters, get_word/get_line "
                       "and #define splitting are compared with the extracted mechanism models; non-trivial = at least one route returned a result; "
                       "include-cycle family: cycles of 1-3 files whose closing #include sits under conditionals in every position (#ifndef body before / after the "
                       "#define, #else branch, #ifdef of a macro defined or not, nested conditionals), guard predefined or not, the gate file included once, twice, "
                       "through a wrapper or entered behind the gate - a small reference evaluator of the directives says whether a cycle is taken and whether following it ends: a "
                       "cycle that never ends must be error 10003, one that a guard ends is an error or a result, no cycle taken must be a result; determinism family (kind twice): inputs of the pools above in four length classes (<32, 32-63, 64-255, >=256 bytes), every parsing route "
                       "twice on the SAME runtime and once on a fresh one - each run must give a result or an error diagnostic and the later runs the same "
                       "class, value and diagnostics as the first; distinct by text. Thorough tier: every prefix of every corpus file, sanitizer build. Scaling family: texts whose whole size "
                       "is on ONE line (statements, array elements, operators, strings, config entries and classes, macro uses and calls) at 20/40/80 KB, "
                       "one route per case on the plain build; peak memory (rise of the child's ru_maxrss) must stay below 16 MB + 1 KB per input byte and, "
                       "like the time, at most triple when the input doubles; per-size time and peak memory are in outcomes.scaling_one_line.")
    run.cov["input_distribution"] = kinds
    run.cov["samples"] = samples
    run.cov["outcomes"] = stats
    run.cov["flavour"] = flav
    run.cov["trusted_base"] = ["Coq 8.16.1 kernel", "ExtrOcamlBasic extraction + ocaml/front_driver.ml (supplies the O(1) buffer accessor)",
                               "harness/h_front.cpp + fork/rlimit/watchdog plumbing", "generators and oracle in checks/C10.py",
                               "PARTIAL: the bison LALR skeletons, the STL (std::string, stringstream, unordered_map, strtof/stod/stol) and every line of "
                               "default.cpp / sqf_parser.cpp / config_parser.cpp outside the modelled loops are not modelled; they are only exercised "
                               "under the watchdog (and sanitizers in the thorough tier)",
                               "stack exhaustion is a depth budget: depths 10/100/1000 must work, deeper nesting is the recorded finding deep-nesting"]
    return run.finish()
