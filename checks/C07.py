"""C07 - equality is an equivalence consistent with hashing; HashMap is a finite map."""
import json, os, re
import vcommon as V
import datacommon as D
from datacommon import num, s, arr, hmap, code, NIL, NEGZERO, TRUE, FALSE

PID = "C07"
BROKEN = "correspondence Data/DataDefs.v (veq / teq / t_eqeq / dict_* / step) vs data.h, d_*.h, ops_hashmap.cpp, ops_logic.cpp (model and implementation disagree)"


def pool():
    """~100 values: scalars incl. +-0, NaN, infinities, adjacent floats; booleans; strings with case variants;
    code incl. { 0 } / { -0 }; nested arrays incl. nil inside; HashMaps incl. the same entries in different orders"""
    NAN = ('N', 1)
    sc = [num(0), NEGZERO, num(1), num(-1), num(0.5), num(-0.5), num(2), num(16777215), num(16777216), ('P',), ('Q',), NAN]
    st = [s(""), s("a"), s("A"), s("ab"), s("aB"), s("AB"), s("a b"), s('a"b'), s("1"), s("true"),
          # characters that are NOT letters and differ only in the bit that separates upper from lower case: equal under no comparison
          s("a[0]"), s("A{0}"), s("a^b"), s("A~B"), s("@x"), s("`X"), s("a\\b"), s("A|B"), s("]"), s("}")]
    co = [code(n) for n in ("{}", "{0}", "{-0}", "{1}", '{"a"}', '{"A"}', "{a}", "{A}", "{x = 1}", "{1 + 1}", "{0; 1}", "{-0; 1}",
                            # variable names of which one is a prefix of the other (either operand order must give the same answer)
                            "{_i + 1}", "{_idx + 1}", "{hits}", "{hitsTotal}", "{n = 1}", "{num = 1}")]
    ar = [arr(), arr(num(0)), arr(NEGZERO), arr(num(1)), arr(num(1), num(2)), arr(num(2), num(1)), arr(NIL), arr(num(1), NIL),
          arr(NIL, num(1)), arr(s("a")), arr(s("A")), arr(arr()), arr(arr(num(1))), arr(arr(num(1)), arr(num(2))), arr(arr(NIL)),
          arr(('N', 2)), arr(num(1), ('N', 3)), arr(code("{0}")), arr(code("{-0}")), arr(TRUE), arr(FALSE), arr(num(1), s("a"), arr(num(2))),
          arr(num(1), s("A"), arr(num(2))), arr(arr(arr())), arr(num(0), num(0)), arr(NEGZERO, num(0)), arr(TRUE, num(1)), arr(s("1")),
          arr(num(1), num(2), num(3)), arr(arr(num(1), num(2)))]
    m12 = [(num(1), num(2)), (num(3), num(4))]
    mp = [hmap(), hmap((num(1), num(2))), hmap(*m12), hmap(*reversed(m12)), hmap((num(1), num(2)), (num(3), num(5))),
          hmap((s("a"), num(1))), hmap((s("A"), num(1))), hmap((arr(num(1)), num(1))), hmap((num(1), arr(num(1)))),
          hmap((num(1), NIL)), hmap((num(1), hmap())), hmap((num(0), num(1))), hmap((NEGZERO, num(1))),
          hmap((code("{0}"), num(1))), hmap((code("{-0}"), num(1))), hmap((TRUE, FALSE)),
          hmap((num(1), num(1)), (num(2), num(2)), (num(3), num(3))), hmap((num(3), num(3)), (num(1), num(1)), (num(2), num(2))),
          hmap((arr(num(1), num(2)), s("a"))), hmap((('N', 4), num(1)))]
    am = [arr(hmap()), arr(hmap(*m12)), arr(hmap(*reversed(m12))), arr(hmap((num(1), num(2))), num(1))]
    return sc + [TRUE, FALSE] + st + co + ar + mp + am


def tkind(t):
    return {'i': 'num', 'z': 'num', 'N': 'num', 'P': 'num', 'Q': 'num', 'b': 'bool', 's': 'str'}.get(t[0])


def lower_ascii(b):
    return bytes(c + 32 if 65 <= c <= 90 else c for c in b)


def pairs_check(run, drv, himpl, tab, stack, P):
    """all pairs of the pool: isEqualTo, == where defined, and lookup of one value in a HashMap keyed by the other"""
    n = len(P)
    trees = P + [D.shift_nan(t, 100000) for t in P]     # second half: the same expressions evaluated again
    rc, out, err = V.run_lines([drv], ["\t".join(["P", str(n)] + [D.tok(t) for t in trees])])
    f = out[0].split("\t")
    if len(f) != 3 * n:
        raise RuntimeError("driver P mode: %s" % out[0][:300])
    rows, srcs = f[:n], [V.unhx(x).decode("latin-1") for x in f[n:]]
    M = [[rows[i][4 * j:4 * j + 4] for j in range(2 * n)] for i in range(n)]
    stm = ["x%d = %s" % (i, srcs[i]) for i in range(2 * n)]
    qcols = [[j for j in range(2 * n) if tkind(trees[i]) and tkind(trees[i]) == tkind(trees[j])] for i in range(n)]
    for i in range(n):
        stm.append("r_ = [[%s]]" % ",".join("x%d isEqualTo x%d" % (i, j) for j in range(2 * n)))
        stm.append("r_ = [[%s]]" % ",".join("x%d == x%d" % (i, j) for j in qcols[i]))
        stm.append("r_ = [[%s]]" % ",".join("isNil {(createHashMapFromArray [[x%d,1]]) get x%d}" % (j, i) for j in range(2 * n)))
    codes = [(i, t) for i, t in enumerate(P) if t[0] == 'C']
    for i, t in codes:
        stm.append("r_ = [assembly__ x%d]" % i)
    rc, iout, err = V.run_lines([himpl], ["\t".join(["-"] + [V.hx(x) for x in stm])], timeout=600)
    recs = iout[0].split("\t")
    if len(recs) != len(stm):
        run.violation("evaluating the value pool did not complete: " + "|".join(recs[-2:])[:300],
                      {"kind": "pairs", "statements": stm[:2 * n], "impl_tail": recs[-3:]})
        return 0
    def parse(rec):
        ff = rec.split(";")
        txt = D.text(ff[1])
        if ff[0] or not (txt.startswith("[[") and txt.endswith("]]")):
            return None
        body = txt[2:-2]
        return body.split(",") if body else []
    E, Q, L = [], [], []
    base = 2 * n
    nviol = 0
    held = []
    def viol(what, i, j, extra, found=True):
        # all of them are collected; those with a failing input are reported first (the matrix can hold hundreds of either kind)
        nonlocal nviol
        nviol += 1
        held.append((what, i, j, extra, found))

    def flush():
        shown = [v for v in held if v[4]][:8] + [v for v in held if not v[4]][:4]
        for what, i, j, extra, found in shown:
            rep = {"kind": "pairs", "x": srcs[i], "y": srcs[j], "statements": ["x = " + srcs[i], "y = " + srcs[j]] + extra}
            if not found:
                rep["broken"] = BROKEN
            run.violation(what, rep, found_input=found)
    for i in range(n):
        e, q, l = parse(recs[base + 3 * i]), parse(recs[base + 3 * i + 1]), parse(recs[base + 3 * i + 2])
        if e is None or q is None or l is None or len(e) != 2 * n or len(q) != len(qcols[i]) or len(l) != 2 * n:
            run.violation("a row of comparisons did not evaluate: %s" % recs[base + 3 * i: base + 3 * i + 3], {"kind": "pairs", "x": srcs[i]})
            return 0
        E.append([x == "true" for x in e]); Q.append(dict(zip(qcols[i], [x == "true" for x in q]))); L.append([x == "false" for x in l])
    evals = 0
    for i in range(n):
        nnf = M[i][0][2] == "1"
        for j in range(2 * n):
            evals += 1
            jj = j % n
            other = j >= n          # a different object (second evaluation of the expression)
            # --- the property itself
            if other and E[i][j] != E[jj][i + n]:
                viol("isEqualTo is not symmetric", i, j, ["x isEqualTo y -> %s" % E[i][j], "y isEqualTo x -> %s" % E[jj][i + n]])
            if other and jj == i and nnf and not E[i][j]:
                viol("isEqualTo is not reflexive on a value without nil and NaN", i, j, ["x isEqualTo y -> false"])
            if j in Q[i]:
                if trees[i][0] == 's' and trees[j][0] == 's':
                    want = lower_ascii(trees[i][1]) == lower_ascii(trees[j][1])
                else:
                    want = E[i][j]
                if Q[i][j] != want:
                    viol("== does not agree with isEqualTo up to string case", i, j, ["x == y -> %s" % Q[i][j], "x isEqualTo y -> %s" % E[i][j]])
            if other and E[i][j] and not L[i][j]:
                viol("values that compare equal do not hash equally: x is not found in a HashMap keyed by y", i, j,
                     ["x isEqualTo y -> true", "(createHashMapFromArray [[y,1]]) get x -> nil"])
            if other and L[i][j] and not E[i][j]:
                viol("a HashMap keyed by y answers for x although x isEqualTo y is false", i, j, ["(createHashMapFromArray [[y,1]]) get x -> 1"])
            # --- correspondence with the model
            m = M[i][j]
            if m[0] in "01" and E[i][j] != (m[0] == "1"):
                viol("isEqualTo: implementation %s, model %s" % (E[i][j], m[0] == "1"), i, j, [], found=False)
            if m[1] in "01" and j in Q[i] and Q[i][j] != (m[1] == "1"):
                viol("==: implementation %s, model %s" % (Q[i][j], m[1] == "1"), i, j, [], found=False)
            if L[i][j] != (m[3] == "1"):
                viol("HashMap lookup: implementation %s, model %s" % (L[i][j], m[3] == "1"), i, j, [], found=False)
    # transitivity on all triples (different objects)
    R = [[E[i][j + n] for j in range(n)] for i in range(n)]
    for i in range(n):
        for j in range(n):
            if R[i][j]:
                Rj = R[j]
                for k in range(n):
                    if Rj[k] and not R[i][k]:
                        viol("isEqualTo is not transitive: x = y, y = z, x <> z with z = " + srcs[k], i, j, [])
    evals += n * n * n
    # the instruction lists of the code values are what the model takes them to be
    for (i, t), rec in zip(codes, recs[base + 3 * n:]):
        want = "[[" + ",".join('"' + a.replace('"', '""') + '"' for a in D.assembly(t[1])) + "]]"
        got = D.text(rec.split(";")[1])
        if got != want:
            run.violation("code value %s: implementation instructions %s, model %s" % (srcs[i], got, want),
                          {"kind": "pairs", "broken": BROKEN}, found_input=False)
    flush()
    return evals


def main(replay=None):
    run = V.Run(PID, "proof")
    rng = run.rng
    thorough = run.tier == "thorough"
    problems = run.prove()
    himpl = V.build_harness("h_data", "asan" if thorough else "plain")
    drv = V.ocaml_driver("data")
    tab = D.diag_table()
    stack = tab.get("Stacktrace", (0, 60001))[1]
    g = D.Gen(rng)
    cases = []
    pair_evals = 0
    P = pool()
    if replay:
        j = json.load(open(replay))["replay"]
        if j.get("kind") == "pairs":
            pair_evals = pairs_check(run, drv, himpl, tab, stack, P)
        elif j.get("kind") != "mfa-literal":
            cases.append(D.Case(j.get("kind", "replay"), j["nvars"], j["ops"], j.get("what"), j.get("oracle")))
    else:
        pair_evals = pairs_check(run, drv, himpl, tab, stack, P)
        cases += D.load_corpus(PID)
        for i in range(40000 if thorough else 4000):
            if i % 6 == 5:
                cases.append(D.Case("nestedkey", 6, g.nested_key_history()))
            else:
                cases.append(D.Case("map", 6, g.map_history(nkeys=rng.choice([None, None, None, 14, 30]))))

    res = D.run_cases(run, cases, drv, himpl, "000000")
    kinds, distinct, samples = {"pairs": len(P) * len(P) * 2}, set(), []
    nops = ninv = 0
    for r in res:
        c = r["case"]
        kinds[c.kind.split(":")[0]] = kinds.get(c.kind.split(":")[0], 0) + 1
        nops += len(r["model"])
        ninv += len(r["model_all"]) - len(r["model"])
        mut_after_key = any(b"pushBack" in V.unhx(m[1]) or b"deleteAt 0" in V.unhx(m[1]) for m in r["model"])
        if len(r["model"]) >= 8 and mut_after_key:
            distinct.add(hash(tuple(m[1] for m in r["model"])))
        if len(samples) < 5 and (c.kind.startswith("corpus") and len(samples) < 2 or c.kind == "map" and len(samples) >= 2):
            samples.append({"kind": c.kind, "sqf": D.sqf_of(r)[:14]})
        bo = D.check_oracle(r) + (D.equal_keys_agree(r) if c.kind in ("nestedkey", "replay") else [])
        cm = D.compare(r, tab, stack)
        if not (bo or cm):
            continue
        rep = c.replay()
        rep["sqf"] = D.sqf_of(r)
        if bo:
            rep["failed"] = bo
            run.violation((c.what or "property assertion") + ": " + "; ".join(bo), rep)
        elif cm["crash"]:
            rep["at_statement"], rep["statement"] = cm["index"], cm["sqf"]
            run.violation("the implementation crashed, hung or threw: " + cm["why"], rep)
        else:
            # the HashMap cell of the model IS the reference dictionary (hashmap_refines_dict): an observation that
            # differs is either a defect or a model error; reported with the history, flagged as correspondence
            rep["broken"] = BROKEN
            rep["at_statement"], rep["statement"], rep["why"] = cm["index"], cm["sqf"], cm["why"]
            run.violation("implementation and reference dictionary / model disagree: " + cm["why"], rep, found_input=False)

    # createHashMapFromArray against the reference dictionary, judged on the implementation's own answers: the map made from a literal
    # array of pairs must be the one that `set` builds from the same pairs in their order (later pairs replace earlier ones with an equal
    # key).  Every literal the histories above used is taken again, plus literals with deliberately repeated keys.
    lits = {}
    for r in res:
        for m in r["model"]:
            t = D.text(m[1])
            mm = re.match(r"v\d+ = createHashMapFromArray (\[.*\])$", t)
            if mm and not re.search(r"\bv\d+\b|\br_\b", mm.group(1)):
                lits.setdefault(mm.group(1), None)
    if not replay:
        keys = ['"a"', '"A"', '"ab"', "1", "0", "-0", "0.5", "true", "false", "[1,2]", "[1,[2]]", "[]", '["a"]', "{ 1 }", "[0]", "[-0]", '[1,"a"]']
        for n_ in range(3000 if thorough else 300):
            k = rng.randint(2, 7)
            pool_ = rng.sample(keys, rng.randint(1, 4))
            lits.setdefault("[" + ",".join("[%s,%d]" % (rng.choice(pool_), 100 + j) for j in range(k)) + "]", None)
    elif j.get("kind") == "mfa-literal":
        lits = {j["literal"]: None}
    T = ("r_ = call { private _p = %s; private _a = createHashMapFromArray _p; private _b = createHashMap; "
         "{ if (_x isEqualType [] && {count _x == 2}) then { _b set _x } } forEach _p; "
         "[count _a, count _b, (keys _a) findIf { !(_x in _b) || {!((str (_a get _x)) isEqualTo (str (_b get _x)))} }, "
         "(keys _b) findIf { !(_x in _a) }] }")
    lits = sorted(x for x in lits if "nil" not in x and "sqrt" not in x)      # the property's equivalence excludes nil and NaN (a key holding one is never found again)
    if lits:
        rc_, out_, err_ = V.run_lines_parallel([himpl], ["-\t" + V.hx((T % x).encode("latin-1")) for x in lits], timeout=3000)
        nm = 0
        for x, o in zip(lits, out_):
            f = o.split("\t")[0].split(";")
            if len(f) < 2 or f[0] != "":
                continue        # a literal the operators reject (a key that cannot be hashed, a malformed pair with a diagnostic): not judged here
            got = D.text(f[1])
            mm = re.match(r"\[(\d+),(\d+),(-?\d+),(-?\d+)\]$", got)
            nm += 1
            if not mm or mm.group(1) != mm.group(2) or mm.group(3) != "-1" or mm.group(4) != "-1":
                run.violation("createHashMapFromArray does not build the reference dictionary: for the literal %s the map differs from the one `set` builds pair by pair "
                              "([count of the map, count of the set-built map, first key whose value differs, first key missing] = %s, must be [n,n,-1,-1])" % (x, got),
                              {"kind": "mfa-literal", "literal": x, "statement": T % x, "got": got, "nvars": 0, "ops": []})
        kinds["mfa-literal"] = nm

    for p in problems:
        run.violation("proof obligation not discharged: " + p, {"broken": p, "theorems": run.cov["theorems"]}, found_input=False)
    run.cov["evaluations"] = nops + pair_evals
    run.cov["histories"] = len(cases)
    run.cov["pool_size"] = len(P)
    run.cov["distinct_nontrivial"] = len(distinct) + len(P) * len(P)
    run.cov["operations_outside_model_dropped"] = ninv
    run.cov["rule"] = ("(a) all ordered pairs of a pool of %d values (scalars incl. +-0, NaN, infinities, adjacent floats; booleans; "
                       "case variants of strings; code incl. { 0 } / { -0 }; nested arrays incl. nil inside; HashMaps incl. equal "
                       "ones built in different orders; arrays of HashMaps), each value evaluated twice (same object / different "
                       "object): isEqualTo, == where registered, lookup of x in a HashMap keyed by y; symmetry, reflexivity on "
                       "nil/NaN-free values, transitivity over all triples, == vs isEqualTo up to case, equal => found are demanded "
                       "of the implementation and every entry is compared with the model; (b) HashMap histories (<= 30 operations: "
                       "set get deleteAt in count keys createHashMapFromArray +copy isEqualTo, keys from a pool incl. the above, "
                       "arrays mutated after use as key, key arrays whose nested array / HashMap (depth 1-2) is changed in place through another reference between two uses of the same key object, arrays handed out by keys mutated, 1..30 distinct keys to cross rehash "
                       "thresholds) compared operation by operation with the model, whose HashMap cell is the reference "
                       "dictionary; evaluations = pair comparisons + triples + operations; non-trivial = pairs of distinct "
                       "objects, histories with >= 8 operations that mutate a key array after insertion") % len(P)
    run.cov["input_distribution"] = kinds
    run.cov["samples"] = samples
    run.cov["trusted_base"] = ["Coq 8.16.1 kernel (vm_compute only in Examples and witness refutations)",
                               "ExtrOcamlBasic extraction + ocaml/data_driver.ml",
                               "harness/h_data.cpp + sqfrt.hpp + fork/rlimit plumbing (HashMap entries are sorted natively for the canonical print)",
                               "pool and generators in checks/C07.py / checks/datacommon.py",
                               "std::unordered_map is trusted to be a correct bucketed unique-key table (its behaviour under consistent hashing is what Data/DataBucket.v proves equal to the dictionary)",
                               "assumption of C07_veq_hash / C07_hashmap_refines_dict: equal floats hash equally (libstdc++ std::hash<float> maps +-0 to 0); exercised by the 0 / -0 pairs of the pool",
                               "HashMap keys are modelled as frozen trees (never exposed by reference): matches the code with proposed_fixes/C07-keys-by-value.diff, checked by the runs, not proved about the C++"]
    return run.finish()
